/-
Lemmas about `Goat/Base/Tree.lean` (nothing here changes a definition).

  Kids    find/set/erase algebra, preservation of `All P` and `NoDup`, what a listing contains
  Node    `lookup_append`; `mkdirs` and `update` described through `lookup`
          (`lookup_mkdirs_*`, `mkdirs_isSome_iff`, `mkdirs_eq_self`, `update_eq_some`, `lookup_update_*`),
          preservation of `All P` / `NoDup` by both, and by `lookup`
-/
import Goat.Base.Tree

namespace Goat

open Path (Name)

namespace Kids

@[simp] theorem find_nil (m : Name) : Kids.nil.find m = none := rfl

theorem find_cons (n : Name) (x : Node) (r : Kids) (m : Name) :
    (Kids.cons n x r).find m = if n = m then some x else r.find m := rfl

theorem find_set_same (k : Kids) (m : Name) (x : Node) : (k.set m x).find m = some x := by
  induction k using Kids.rec (motive_1 := fun _ => True) with
  | file => trivial
  | dir => trivial
  | nil => simp [set, find]
  | cons n y r _ ih => simp only [set]; split <;> simp [find, *]

theorem find_set_other (k : Kids) (m m' : Name) (x : Node) (h : m ≠ m') :
    (k.set m x).find m' = k.find m' := by
  induction k using Kids.rec (motive_1 := fun _ => True) with
  | file => trivial
  | dir => trivial
  | nil => simp [set, find, h]
  | cons n y r _ ih =>
    simp only [set]
    split
    · next e => subst e; simp [find, h]
    · simp only [find, ih]

theorem find_set (k : Kids) (m m' : Name) (x : Node) :
    (k.set m x).find m' = if m = m' then some x else k.find m' := by
  split
  · next e => subst e; exact find_set_same k m x
  · next e => exact find_set_other k m m' x e

theorem find_erase_other (k : Kids) (m m' : Name) (h : m ≠ m') :
    (k.erase m).find m' = k.find m' := by
  induction k using Kids.rec (motive_1 := fun _ => True) with
  | file => trivial
  | dir => trivial
  | nil => rfl
  | cons n y r _ ih =>
    simp only [erase]
    split
    · next e => subst e; simp [find, h]
    · simp only [find, ih]

theorem set_find_self (k : Kids) (m : Name) (x : Node) (h : k.find m = some x) : k.set m x = k := by
  induction k using Kids.rec (motive_1 := fun _ => True) with
  | file => trivial
  | dir => trivial
  | nil => simp [find] at h
  | cons n y r _ ih =>
    simp only [find] at h
    simp only [set]
    split
    · next e => simp [e] at h; subst h; rfl
    · next e => simp [e] at h; rw [ih h]

/-! #### `All` -/

@[simp] theorem all_nil (P : Name → Prop) : Kids.All P .nil := by simp [Kids.All]

theorem all_cons (P : Name → Prop) (n : Name) (x : Node) (r : Kids) :
    Kids.All P (.cons n x r) ↔ P n ∧ Node.All P x ∧ Kids.All P r := by simp [Kids.All]

theorem all_find {P : Name → Prop} (k : Kids) (m : Name) (x : Node) (hk : Kids.All P k)
    (h : k.find m = some x) : P m ∧ Node.All P x := by
  induction k using Kids.rec (motive_1 := fun _ => True) with
  | file => trivial
  | dir => trivial
  | nil => simp at h
  | cons n y r _ ih =>
    have hc := (all_cons ..).mp hk
    simp only [find] at h
    split at h
    · next e => subst e; simp at h; subst h; exact ⟨hc.1, hc.2.1⟩
    · exact ih hc.2.2 h

theorem all_set {P : Name → Prop} (k : Kids) (m : Name) (x : Node) (hk : Kids.All P k) (hm : P m)
    (hx : Node.All P x) : Kids.All P (k.set m x) := by
  induction k using Kids.rec (motive_1 := fun _ => True) with
  | file => trivial
  | dir => trivial
  | nil => simp [set, all_cons, hm, hx]
  | cons n y r _ ih =>
    have hc := (all_cons ..).mp hk
    simp only [set]
    split
    · exact (all_cons ..).mpr ⟨hc.1, hx, hc.2.2⟩
    · exact (all_cons ..).mpr ⟨hc.1, hc.2.1, ih hc.2.2⟩

theorem all_erase {P : Name → Prop} (k : Kids) (m : Name) (hk : Kids.All P k) :
    Kids.All P (k.erase m) := by
  induction k using Kids.rec (motive_1 := fun _ => True) with
  | file => trivial
  | dir => trivial
  | nil => simp [erase]
  | cons n y r _ ih =>
    have hc := (all_cons ..).mp hk
    simp only [erase]
    split
    · exact hc.2.2
    · exact (all_cons ..).mpr ⟨hc.1, hc.2.1, ih hc.2.2⟩

theorem all_mono {P Q : Name → Prop} (h : ∀ n, P n → Q n) :
    (∀ t : Node, Node.All P t → Node.All Q t) ∧ (∀ k : Kids, Kids.All P k → Kids.All Q k) := by
  have key : ∀ (t : Node), Node.All P t → Node.All Q t := by
    intro t
    induction t using Node.rec (motive_2 := fun k => Kids.All P k → Kids.All Q k) with
    | file d => intro _; simp [Node.All]
    | dir k ih => intro hk; simp only [Node.All] at hk ⊢; exact ih hk
    | nil => simp
    | cons n x r ihx ihr =>
      rename_i hk
      have := (all_cons ..).mp hk
      exact (all_cons ..).mpr ⟨h n this.1, ihx this.2.1, ihr this.2.2⟩
  refine ⟨key, ?_⟩
  intro k hk
  have := key (.dir k) (by simpa [Node.All] using hk)
  simpa [Node.All] using this

/-! #### `NoDup` -/

@[simp] theorem nodup_nil : Kids.NoDup .nil := by simp [Kids.NoDup]

theorem nodup_cons (n : Name) (x : Node) (r : Kids) :
    Kids.NoDup (.cons n x r) ↔ r.find n = none ∧ Node.NoDup x ∧ Kids.NoDup r := by simp [Kids.NoDup]

theorem nodup_find (k : Kids) (m : Name) (x : Node) (hk : k.NoDup) (h : k.find m = some x) :
    Node.NoDup x := by
  induction k using Kids.rec (motive_1 := fun _ => True) with
  | file => trivial
  | dir => trivial
  | nil => simp at h
  | cons n y r _ ih =>
    have hc := (nodup_cons ..).mp hk
    simp only [find] at h
    split at h
    · simp at h; subst h; exact hc.2.1
    · exact ih hc.2.2 h

theorem nodup_set (k : Kids) (m : Name) (x : Node) (hk : k.NoDup) (hx : Node.NoDup x) :
    (k.set m x).NoDup := by
  induction k using Kids.rec (motive_1 := fun _ => True) with
  | file => trivial
  | dir => trivial
  | nil => simp [set, nodup_cons, hx]
  | cons n y r _ ih =>
    have hc := (nodup_cons ..).mp hk
    simp only [set]
    split
    · exact (nodup_cons ..).mpr ⟨hc.1, hx, hc.2.2⟩
    · next e =>
      refine (nodup_cons ..).mpr ⟨?_, hc.2.1, ih hc.2.2⟩
      rw [find_set_other _ _ _ _ (fun e' => e e'.symm)]
      exact hc.1

theorem nodup_erase (k : Kids) (m : Name) (hk : k.NoDup) : (k.erase m).NoDup := by
  induction k using Kids.rec (motive_1 := fun _ => True) with
  | file => trivial
  | dir => trivial
  | nil => simp [erase]
  | cons n y r _ ih =>
    have hc := (nodup_cons ..).mp hk
    simp only [erase]
    split
    · exact hc.2.2
    · next e =>
      refine (nodup_cons ..).mpr ⟨?_, hc.2.1, ih hc.2.2⟩
      rw [find_erase_other _ _ _ (fun e' => e e'.symm)]
      exact hc.1

theorem find_erase_same (k : Kids) (m : Name) (hk : k.NoDup) : (k.erase m).find m = none := by
  induction k using Kids.rec (motive_1 := fun _ => True) with
  | file => trivial
  | dir => trivial
  | nil => rfl
  | cons n y r _ ih =>
    have hc := (nodup_cons ..).mp hk
    simp only [erase]
    split
    · next e => subst e; exact hc.1
    · next e => simp [find, e, ih hc.2.2]

theorem find_erase (k : Kids) (m m' : Name) (hk : k.NoDup) :
    (k.erase m).find m' = if m = m' then none else k.find m' := by
  split
  · next e => subst e; exact find_erase_same k m hk
  · next e => exact find_erase_other k m m' e

/-! #### listings -/

theorem isEmpty_iff (k : Kids) : k.isEmpty = true ↔ ∀ n, k.find n = none := by
  cases k with
  | nil => simp [isEmpty]
  | cons n x r =>
    simp only [isEmpty, Bool.false_eq_true, false_iff]
    intro h
    have := h n
    simp [find] at this

theorem isEmpty_eq_nil (k : Kids) : k.isEmpty = true ↔ k = .nil := by
  cases k <;> simp [isEmpty]

theorem mem_names (k : Kids) (n : Name) : n ∈ k.names ↔ (k.find n).isSome := by
  induction k using Kids.rec (motive_1 := fun _ => True) with
  | file => trivial
  | dir => trivial
  | nil => simp [names]
  | cons m y r _ ih =>
    simp only [names, find, List.mem_cons]
    by_cases e : m = n
    · subst e; simp
    · have e' : ¬ n = m := fun h => e h.symm
      simp [e, e', ih]

theorem entries_map_fst (k : Kids) : k.entries.map Prod.fst = k.names := by
  induction k using Kids.rec (motive_1 := fun _ => True) with
  | file => trivial
  | dir => trivial
  | nil => rfl
  | cons n x r _ ih => simp [entries, names, ih]

theorem names_nodup (k : Kids) (hk : k.NoDup) : k.names.Nodup := by
  induction k using Kids.rec (motive_1 := fun _ => True) with
  | file => trivial
  | dir => trivial
  | nil => simp [names]
  | cons n x r _ ih =>
    have := (nodup_cons ..).mp hk
    simp only [names, List.nodup_cons]
    refine ⟨?_, ih this.2.2⟩
    rw [mem_names, this.1]
    simp

/-- a listing contains exactly the children, with their kinds -/
theorem mem_entries (k : Kids) (hk : k.NoDup) (n : Name) (b : Bool) :
    (n, b) ∈ k.entries ↔ (k.find n).map Node.isDir = some b := by
  induction k using Kids.rec (motive_1 := fun _ => True) with
  | file => trivial
  | dir => trivial
  | nil => simp [entries]
  | cons m x r _ ih =>
    have hc := (nodup_cons ..).mp hk
    simp only [entries, List.mem_cons, Prod.mk.injEq, find]
    by_cases e : m = n
    · subst e
      simp only [true_and, if_true, Option.map_some, Option.some.injEq]
      constructor
      · rintro (h | h)
        · exact h.symm
        · have := (ih hc.2.2).mp h
          rw [hc.1] at this
          simp at this
      · intro h; exact Or.inl h.symm
    · have e' : ¬ n = m := fun h => e h.symm
      simp only [if_neg e, e', false_and, false_or]
      exact ih hc.2.2

end Kids

namespace Node

@[simp] theorem lookup_nil (t : Node) : t.lookup [] = some t := by cases t <;> rfl

@[simp] theorem lookup_file_cons (d : Bytes) (s : Name) (r : List Name) :
    (Node.file d).lookup (s :: r) = none := rfl

theorem lookup_dir_cons (k : Kids) (s : Name) (r : List Name) :
    (Node.dir k).lookup (s :: r) = (k.find s).bind fun c => c.lookup r := by
  simp only [lookup]
  cases k.find s <;> rfl

theorem lookup_append (t : Node) (p q : List Name) :
    t.lookup (p ++ q) = (t.lookup p).bind fun n => n.lookup q := by
  induction p generalizing t with
  | nil => simp
  | cons s rest ih =>
    cases t with
    | file d => simp
    | dir k =>
      simp only [List.cons_append, lookup_dir_cons]
      cases k.find s with
      | none => simp
      | some c => simpa using ih c

theorem all_dir (P : Name → Prop) (k : Kids) : Node.All P (.dir k) ↔ Kids.All P k := by
  simp [Node.All]

theorem nodup_dir (k : Kids) : Node.NoDup (.dir k) ↔ Kids.NoDup k := by simp [Node.NoDup]

@[simp] theorem all_file (P : Name → Prop) (d : Bytes) : Node.All P (.file d) := by simp [Node.All]
@[simp] theorem nodup_file (d : Bytes) : Node.NoDup (.file d) := by simp [Node.NoDup]
@[simp] theorem all_empty (P : Name → Prop) : Node.All P Node.empty := by simp [Node.empty, Node.All]
@[simp] theorem nodup_empty : Node.NoDup Node.empty := by simp [Node.empty, Node.NoDup]

/-- a node reached by `lookup` inherits `All P`, and every name on the way satisfies `P` -/
theorem lookup_all {P : Name → Prop} (t : Node) (p : List Name) (n : Node) (ht : t.All P)
    (h : t.lookup p = some n) : n.All P ∧ ∀ s ∈ p, P s := by
  induction p generalizing t with
  | nil => simp at h; subst h; exact ⟨ht, by simp⟩
  | cons s rest ih =>
    cases t with
    | file d => simp at h
    | dir k =>
      rw [lookup_dir_cons] at h
      cases hf : k.find s with
      | none => simp [hf] at h
      | some c =>
        simp [hf] at h
        have hc := Kids.all_find k s c ((all_dir ..).mp ht) hf
        have := ih c hc.2 h
        refine ⟨this.1, ?_⟩
        intro x hx
        rcases List.mem_cons.mp hx with rfl | hx
        · exact hc.1
        · exact this.2 x hx

theorem lookup_nodup (t : Node) (p : List Name) (n : Node) (ht : t.NoDup)
    (h : t.lookup p = some n) : n.NoDup := by
  induction p generalizing t with
  | nil => simp at h; subst h; exact ht
  | cons s rest ih =>
    cases t with
    | file d => simp at h
    | dir k =>
      rw [lookup_dir_cons] at h
      cases hf : k.find s with
      | none => simp [hf] at h
      | some c =>
        simp [hf] at h
        exact ih c (Kids.nodup_find k s c ((nodup_dir ..).mp ht) hf) h

/-! ### mkdirs -/

theorem mkdirs_file (d : Bytes) (p : List Name) : (Node.file d).mkdirs p = none := by
  cases p <;> rfl

theorem mkdirs_dir_nil (k : Kids) : (Node.dir k).mkdirs [] = some (.dir k) := rfl

/-- the child `mkdirs` continues in: the existing one or a fresh empty directory -/
def childOr (k : Kids) (s : Name) : Node := (k.find s).getD Node.empty

theorem mkdirs_dir_cons (k : Kids) (s : Name) (rest : List Name) :
    (Node.dir k).mkdirs (s :: rest) =
      ((childOr k s).mkdirs rest).map fun c' => .dir (k.set s c') := by
  simp only [mkdirs, childOr]
  cases k.find s with
  | none => simp only [Option.getD_none]; cases empty.mkdirs rest <;> rfl
  | some c => simp only [Option.getD_some]; cases c.mkdirs rest <;> rfl

theorem lookup_childOr (k : Kids) (s : Name) (q : List Name) (hq : q ≠ []) :
    (childOr k s).lookup q = (Node.dir k).lookup (s :: q) := by
  rw [lookup_dir_cons, childOr]
  cases k.find s with
  | none =>
    cases q with
    | nil => exact absurd rfl hq
    | cons a b => simp [Node.empty, lookup]
  | some c => simp

/-- `mkdirs` keeps every path that is not on the way to `p` -/
theorem lookup_mkdirs_other (t t' : Node) (p q : List Name) (h : t.mkdirs p = some t')
    (hq : ¬ q <+: p) : t'.lookup q = t.lookup q := by
  induction p generalizing t t' q with
  | nil =>
    cases t with
    | file d => simp [mkdirs_file] at h
    | dir k => simp [mkdirs_dir_nil] at h; subst h; rfl
  | cons s rest ih =>
    cases t with
    | file d => simp [mkdirs_file] at h
    | dir k =>
      rw [mkdirs_dir_cons] at h
      cases hc : (childOr k s).mkdirs rest with
      | none => simp [hc] at h
      | some c' =>
        simp [hc] at h; subst h
        cases q with
        | nil => exact absurd List.nil_prefix hq
        | cons s2 q' =>
          rw [lookup_dir_cons, lookup_dir_cons, Kids.find_set]
          by_cases e : s = s2
          · subst e
            have hq' : ¬ q' <+: rest := fun hp => hq (by simpa using hp)
            have hne : q' ≠ [] := fun e => hq' (e ▸ List.nil_prefix)
            simp only [if_true, Option.bind_some]
            rw [ih _ _ _ hc hq', lookup_childOr k s q' hne, lookup_dir_cons]
          · simp [e]

/-- every prefix of `p` is a directory afterwards -/
theorem lookup_mkdirs_prefix (t t' : Node) (p q : List Name) (h : t.mkdirs p = some t')
    (hq : q <+: p) : ∃ k', t'.lookup q = some (.dir k') := by
  induction p generalizing t t' q with
  | nil =>
    cases t with
    | file d => simp [mkdirs_file] at h
    | dir k =>
      simp [mkdirs_dir_nil] at h; subst h
      have : q = [] := List.prefix_nil.mp hq
      subst this; exact ⟨k, by simp⟩
  | cons s rest ih =>
    cases t with
    | file d => simp [mkdirs_file] at h
    | dir k =>
      rw [mkdirs_dir_cons] at h
      cases hc : (childOr k s).mkdirs rest with
      | none => simp [hc] at h
      | some c' =>
        simp [hc] at h; subst h
        cases q with
        | nil => exact ⟨k.set s c', by simp⟩
        | cons s2 q' =>
          have := List.cons_prefix_cons.mp hq
          obtain ⟨e, hq'⟩ := this
          subst e
          rw [lookup_dir_cons, Kids.find_set_same]
          simpa using ih _ _ _ hc hq'

/-- `mkdirs` succeeds exactly when no node on the way (including the end) is a file -/
theorem mkdirs_isSome_iff (t : Node) (p : List Name) :
    (t.mkdirs p).isSome ↔ ∀ q, q <+: p → ∀ d, t.lookup q ≠ some (.file d) := by
  induction p generalizing t with
  | nil =>
    cases t with
    | file d =>
      simp only [mkdirs_file, Option.isSome_none, Bool.false_eq_true, false_iff]
      intro h; exact h [] List.nil_prefix d (by simp)
    | dir k =>
      simp only [mkdirs_dir_nil, Option.isSome_some, true_iff]
      intro q hq d
      have : q = [] := List.prefix_nil.mp hq
      subst this; simp
  | cons s rest ih =>
    cases t with
    | file d =>
      simp only [mkdirs_file, Option.isSome_none, Bool.false_eq_true, false_iff]
      intro h; exact h [] List.nil_prefix d (by simp)
    | dir k =>
      rw [mkdirs_dir_cons, Option.isSome_map, ih]
      constructor
      · intro h q hq d
        cases q with
        | nil => simp
        | cons s2 q' =>
          obtain ⟨e, hq'⟩ := List.cons_prefix_cons.mp hq
          subst e
          rw [lookup_dir_cons]
          have := h q' hq' d
          simp only [childOr] at this
          cases hf : k.find s2 with
          | none => simp
          | some c => simpa [hf] using this
      · intro h q hq d
        have := h (s :: q) (by simpa using hq) d
        rw [lookup_dir_cons] at this
        simp only [childOr]
        cases hf : k.find s with
        | none =>
          simp only [Option.getD_none]
          cases q with
          | nil => simp [Node.empty]
          | cons a b => simp [Node.empty, lookup]
        | some c => simpa [hf] using this

/-- when the directory already exists `mkdirs` returns the tree unchanged -/
theorem mkdirs_eq_self (t : Node) (p : List Name) (k : Kids) (h : t.lookup p = some (.dir k)) :
    t.mkdirs p = some t := by
  induction p generalizing t with
  | nil => simp at h; subst h; rfl
  | cons s rest ih =>
    cases t with
    | file d => simp at h
    | dir k0 =>
      rw [lookup_dir_cons] at h
      cases hf : k0.find s with
      | none => simp [hf] at h
      | some c =>
        simp [hf] at h
        rw [mkdirs_dir_cons]
        simp only [childOr, hf, Option.getD_some, ih c h, Option.map_some, Kids.set_find_self k0 s c hf]

theorem mkdirs_all {P : Name → Prop} (t t' : Node) (p : List Name) (ht : t.All P)
    (hp : ∀ s ∈ p, P s) (h : t.mkdirs p = some t') : t'.All P := by
  induction p generalizing t t' with
  | nil =>
    cases t with
    | file d => simp [mkdirs_file] at h
    | dir k => simp [mkdirs_dir_nil] at h; subst h; exact ht
  | cons s rest ih =>
    cases t with
    | file d => simp [mkdirs_file] at h
    | dir k =>
      rw [mkdirs_dir_cons] at h
      cases hc : (childOr k s).mkdirs rest with
      | none => simp [hc] at h
      | some c' =>
        simp [hc] at h; subst h
        have hk := (all_dir ..).mp ht
        have hchild : (childOr k s).All P := by
          simp only [childOr]
          cases hf : k.find s with
          | none => simp
          | some c => simpa using (Kids.all_find k s c hk hf).2
        exact (all_dir ..).mpr (Kids.all_set k s c' hk (hp s (by simp))
          (ih _ _ hchild (fun x hx => hp x (List.mem_cons_of_mem _ hx)) hc))

theorem mkdirs_nodup (t t' : Node) (p : List Name) (ht : t.NoDup) (h : t.mkdirs p = some t') :
    t'.NoDup := by
  induction p generalizing t t' with
  | nil =>
    cases t with
    | file d => simp [mkdirs_file] at h
    | dir k => simp [mkdirs_dir_nil] at h; subst h; exact ht
  | cons s rest ih =>
    cases t with
    | file d => simp [mkdirs_file] at h
    | dir k =>
      rw [mkdirs_dir_cons] at h
      cases hc : (childOr k s).mkdirs rest with
      | none => simp [hc] at h
      | some c' =>
        simp [hc] at h; subst h
        have hk := (nodup_dir ..).mp ht
        have hchild : (childOr k s).NoDup := by
          simp only [childOr]
          cases hf : k.find s with
          | none => simp
          | some c => simpa using Kids.nodup_find k s c hk hf
        exact (nodup_dir ..).mpr (Kids.nodup_set k s c' hk (ih _ _ hchild hc))

/-! ### update -/

theorem update_file (d : Bytes) (p : List Name) (f : Kids → Option Kids) :
    (Node.file d).update p f = none := by cases p <;> rfl

theorem update_dir_nil (k : Kids) (f : Kids → Option Kids) :
    (Node.dir k).update [] f = (f k).map .dir := by
  simp only [update]; cases f k <;> rfl

theorem update_dir_cons (k : Kids) (s : Name) (rest : List Name) (f : Kids → Option Kids) :
    (Node.dir k).update (s :: rest) f =
      (k.find s).bind fun c => (c.update rest f).map fun c' => .dir (k.set s c') := by
  simp only [update]
  cases k.find s with
  | none => rfl
  | some c => simp only [Option.bind_some]; cases c.update rest f <;> rfl

/-- `update` succeeds exactly when `p` is a directory and `f` accepts its children -/
theorem update_eq_some (t t' : Node) (p : List Name) (f : Kids → Option Kids)
    (h : t.update p f = some t') :
    ∃ k k', t.lookup p = some (.dir k) ∧ f k = some k' ∧ t'.lookup p = some (.dir k') := by
  induction p generalizing t t' with
  | nil =>
    cases t with
    | file d => simp [update_file] at h
    | dir k =>
      rw [update_dir_nil] at h
      cases hf : f k with
      | none => simp [hf] at h
      | some k' => simp [hf] at h; subst h; exact ⟨k, k', by simp, hf, by simp⟩
  | cons s rest ih =>
    cases t with
    | file d => simp [update_file] at h
    | dir k0 =>
      rw [update_dir_cons] at h
      cases hf : k0.find s with
      | none => simp [hf] at h
      | some c =>
        simp only [hf, Option.bind_some] at h
        cases hu : c.update rest f with
        | none => simp [hu] at h
        | some c' =>
          simp [hu] at h; subst h
          obtain ⟨k, k', h1, h2, h3⟩ := ih c c' hu
          refine ⟨k, k', ?_, h2, ?_⟩
          · rw [lookup_dir_cons, hf]; simpa using h1
          · rw [lookup_dir_cons, Kids.find_set_same]; simpa using h3

theorem update_of_lookup (t : Node) (p : List Name) (f : Kids → Option Kids) (k k' : Kids)
    (h1 : t.lookup p = some (.dir k)) (h2 : f k = some k') : ∃ t', t.update p f = some t' := by
  induction p generalizing t with
  | nil => simp at h1; subst h1; exact ⟨.dir k', by simp [update_dir_nil, h2]⟩
  | cons s rest ih =>
    cases t with
    | file d => simp at h1
    | dir k0 =>
      rw [lookup_dir_cons] at h1
      cases hf : k0.find s with
      | none => simp [hf] at h1
      | some c =>
        simp [hf] at h1
        obtain ⟨c', hc'⟩ := ih c h1
        exact ⟨.dir (k0.set s c'), by rw [update_dir_cons, hf]; simp [hc']⟩

/-- `update` fails exactly when `p` is not a directory or `f` refuses its children -/
theorem update_eq_none (t : Node) (p : List Name) (f : Kids → Option Kids)
    (h : t.update p f = none) : ∀ k, t.lookup p = some (.dir k) → f k = none := by
  intro k hk
  cases hf : f k with
  | none => rfl
  | some k' =>
    obtain ⟨t', ht'⟩ := update_of_lookup t p f k k' hk hf
    rw [h] at ht'; cases ht'

/-- below the updated directory -/
theorem lookup_update_under (t' : Node) (p r : List Name) (k' : Kids)
    (hk : t'.lookup p = some (.dir k')) :
    t'.lookup (p ++ r) = (Node.dir k').lookup r := by
  rw [lookup_append, hk]; rfl

/-- paths that are neither above nor below the updated directory are untouched -/
theorem lookup_update_other (t t' : Node) (p q : List Name) (f : Kids → Option Kids)
    (h : t.update p f = some t') (h1 : ¬ p <+: q) (h2 : ¬ q <+: p) : t'.lookup q = t.lookup q := by
  induction p generalizing t t' q with
  | nil => exact absurd List.nil_prefix h1
  | cons s rest ih =>
    cases t with
    | file d => simp [update_file] at h
    | dir k0 =>
      rw [update_dir_cons] at h
      cases hf : k0.find s with
      | none => simp [hf] at h
      | some c =>
        simp only [hf, Option.bind_some] at h
        cases hu : c.update rest f with
        | none => simp [hu] at h
        | some c' =>
          simp [hu] at h; subst h
          cases q with
          | nil => exact absurd List.nil_prefix h2
          | cons s2 q' =>
            rw [lookup_dir_cons, lookup_dir_cons, Kids.find_set]
            by_cases e : s = s2
            · subst e
              simp only [if_true, Option.bind_some, hf]
              exact ih c c' q' hu (fun hp => h1 (by simpa using hp)) (fun hp => h2 (by simpa using hp))
            · simp [e]

/-- a proper prefix of the updated path is a directory before and after -/
theorem lookup_update_prefix (t t' : Node) (p q : List Name) (f : Kids → Option Kids)
    (h : t.update p f = some t') (hq : q <+: p) :
    ∃ k1 k2, t.lookup q = some (.dir k1) ∧ t'.lookup q = some (.dir k2) := by
  induction p generalizing t t' q with
  | nil =>
    have : q = [] := List.prefix_nil.mp hq
    subst this
    obtain ⟨k, k', a, _, c⟩ := update_eq_some t t' [] f h
    exact ⟨k, k', a, c⟩
  | cons s rest ih =>
    cases t with
    | file d => simp [update_file] at h
    | dir k0 =>
      rw [update_dir_cons] at h
      cases hf : k0.find s with
      | none => simp [hf] at h
      | some c =>
        simp only [hf, Option.bind_some] at h
        cases hu : c.update rest f with
        | none => simp [hu] at h
        | some c' =>
          simp [hu] at h; subst h
          cases q with
          | nil => exact ⟨k0, k0.set s c', by simp, by simp⟩
          | cons s2 q' =>
            obtain ⟨e, hq'⟩ := List.cons_prefix_cons.mp hq
            subst e
            rw [lookup_dir_cons, lookup_dir_cons, Kids.find_set_same, hf]
            simpa using ih c c' q' hu hq'

theorem update_all {P : Name → Prop} (t t' : Node) (p : List Name) (f : Kids → Option Kids)
    (ht : t.All P) (hf : ∀ k k', Kids.All P k → f k = some k' → Kids.All P k')
    (h : t.update p f = some t') : t'.All P := by
  induction p generalizing t t' with
  | nil =>
    cases t with
    | file d => simp [update_file] at h
    | dir k =>
      rw [update_dir_nil] at h
      cases hk : f k with
      | none => simp [hk] at h
      | some k' => simp [hk] at h; subst h; exact (all_dir ..).mpr (hf k k' ((all_dir ..).mp ht) hk)
  | cons s rest ih =>
    cases t with
    | file d => simp [update_file] at h
    | dir k0 =>
      rw [update_dir_cons] at h
      cases hfi : k0.find s with
      | none => simp [hfi] at h
      | some c =>
        simp only [hfi, Option.bind_some] at h
        cases hu : c.update rest f with
        | none => simp [hu] at h
        | some c' =>
          simp [hu] at h; subst h
          have hk := (all_dir ..).mp ht
          have hc := Kids.all_find k0 s c hk hfi
          exact (all_dir ..).mpr (Kids.all_set k0 s c' hk hc.1 (ih c c' hc.2 hu))

theorem update_nodup (t t' : Node) (p : List Name) (f : Kids → Option Kids)
    (ht : t.NoDup) (hf : ∀ k k', Kids.NoDup k → f k = some k' → Kids.NoDup k')
    (h : t.update p f = some t') : t'.NoDup := by
  induction p generalizing t t' with
  | nil =>
    cases t with
    | file d => simp [update_file] at h
    | dir k =>
      rw [update_dir_nil] at h
      cases hk : f k with
      | none => simp [hk] at h
      | some k' => simp [hk] at h; subst h; exact (nodup_dir ..).mpr (hf k k' ((nodup_dir ..).mp ht) hk)
  | cons s rest ih =>
    cases t with
    | file d => simp [update_file] at h
    | dir k0 =>
      rw [update_dir_cons] at h
      cases hfi : k0.find s with
      | none => simp [hfi] at h
      | some c =>
        simp only [hfi, Option.bind_some] at h
        cases hu : c.update rest f with
        | none => simp [hu] at h
        | some c' =>
          simp [hu] at h; subst h
          have hk := (nodup_dir ..).mp ht
          exact (nodup_dir ..).mpr (Kids.nodup_set k0 s c' hk (ih c c' (Kids.nodup_find k0 s c hk hfi) hu))

end Node
end Goat
