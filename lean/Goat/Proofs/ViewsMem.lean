/-
The view-stack model over the memory filespace, and consequences of `run_outcome` in the words of property
C03 (helper lemmas; the property statements are in `Goat/Props/C03.lean`).

  `memBottom_refines`   the memory root filespace (C01: `step_refines`) is a bottom that refines the
                        specification at `[]`
  `step_climbing`       in the specification, a call with a climbing argument fails cleanly
  `step_root_removal`   … and so does the removal of the view's own root
  `outcome_confined`    every outcome of a call through a stack leaves everything outside the stack's root as it was
-/
import Goat.Proofs.ViewsStack
import Goat.Proofs.MemFSStep

namespace Goat
namespace Views

open Path (Name norm split join reduceAbsPath slash Reduced)
open FS

theorem memBottom_refines : Refines memBottom [] MemFS.Inv abs where
  step := fun t op ht => (MemFS.step_refines .root [] rfl t ht op).1
  good := fun t op ht =>
    (MemFS.step_refines .root [] rfl t ht op).2.1.inv ht (by
      intro s hs
      exact MemFS.opSegs_plain op s (by simpa using hs))

/-- the specification refuses a climbing argument (any method, either argument of a copy) -/
theorem step_climbing (b : List Name) (S : State) (op : Op) (r : Result) (S' : State) (raw : Bytes)
    (hraw : raw ∈ opArgs op) (hn : norm raw = none) (h : Step b S op r S') : Fails S op r S' := by
  cases op <;> simp only [opArgs, List.mem_cons, List.not_mem_nil, or_false] at hraw
  case copy s d =>
    rcases hraw with rfl | rfl
    · simpa [Step, hn, Fails, failResult] using h
    · cases hs : norm s <;> simpa [Step, hn, hs, Fails, failResult] using h
  case copyDirectory s d =>
    rcases hraw with rfl | rfl
    · simpa [Step, hn, Fails, failResult] using h
    · cases hs : norm s <;> simpa [Step, hn, hs, Fails, failResult] using h
  case copyFile s d =>
    rcases hraw with rfl | rfl
    · simpa [Step, hn, Fails, failResult] using h
    · cases hs : norm s <;> simpa [Step, hn, hs, Fails, failResult] using h
  all_goals
    subst hraw
    first
      | simpa [Step, hn, Fails, failResult] using h
      | simpa [Step, hn, Fails, failResult, and_comm] using h

/-- the specification refuses the removal of the view's own root -/
theorem step_root_removal (b : List Name) (S : State) (raw : Bytes) (r : Result) (S' : State)
    (hn : norm raw = some []) :
    (Step b S (.remove raw) r S' → r = .err ∧ S' = S) ∧ (Step b S (.removeAll raw) r S' → r = .err ∧ S' = S) := by
  constructor <;> intro h <;> simpa [Step, hn, Mut] using h

/-- every outcome is confined to the root of the stack -/
theorem outcome_confined (root : Option (List Name)) (ro : Bool) (b0 : List Name) (S : State) (op : Op)
    (r : Result) (S' : State) (h : Outcome root ro b0 S op r S')
    (hroot : ∀ b, root = some b → RootDirs (b0 ++ b) S) (q : List Name)
    (hq : ∀ b, root = some b → ¬ (b0 ++ b) <+: q) : S' q = S q := by
  cases root with
  | none => rw [h.2]
  | some b =>
    simp only [Outcome] at h
    split at h
    · rw [h.2]
    · exact step_confined (b0 ++ b) S op r S' h (hroot b rfl) q (hq b rfl)

/-- a memory wrapper layer over the memory root is the child view of the C01 model (`MemFS.step (.wrap …)`) -/
theorem wrapper_is_memfs_view (dir : Bytes) (t : Node) (op : Op) (hop : NotFilespace op) :
    run memBottom [⟨.memWrapper, dir⟩] t op = MemFS.step (.wrap (dir ++ [slash])) t op := by
  cases op with
  | filespace raw => exact absurd rfl (hop raw)
  | copy s d =>
    simp only [run, Layer.down, Wrapper.down, prefixOp, rebase2, rebase, MemFS.step, MemFS.Wrap.copy, MemFS.Wrap.on2,
      memBottom, failResult]
    cases reduceAbsPath s <;> cases reduceAbsPath d <;> rfl
  | copyDirectory s d =>
    simp only [run, Layer.down, Wrapper.down, prefixOp, rebase2, rebase, MemFS.step, MemFS.Wrap.copyDirectory,
      MemFS.Wrap.on2, memBottom, failResult]
    cases reduceAbsPath s <;> cases reduceAbsPath d <;> rfl
  | copyFile s d =>
    simp only [run, Layer.down, Wrapper.down, prefixOp, rebase2, rebase, MemFS.step, MemFS.Wrap.copyFile,
      MemFS.Wrap.on2, memBottom, failResult]
    cases reduceAbsPath s <;> cases reduceAbsPath d <;> rfl
  | remove p =>
    simp only [run, Layer.down, Wrapper.down, prefixOp, rebaseNonRoot, MemFS.step, MemFS.Wrap.remove, memBottom,
      failResult]
    cases reduceAbsPath p with
    | none => rfl
    | some j => by_cases e : j = [] <;> simp [e] <;> rfl
  | removeAll p =>
    simp only [run, Layer.down, Wrapper.down, prefixOp, rebaseNonRoot, MemFS.step, MemFS.Wrap.removeAll, memBottom,
      failResult]
    cases reduceAbsPath p with
    | none => rfl
    | some j => by_cases e : j = [] <;> simp [e] <;> rfl
  | readDir p =>
    simp only [run, Layer.down, Wrapper.down, prefixOp, rebase, MemFS.step, MemFS.Wrap.readDir, MemFS.Wrap.on1,
      memBottom, failResult]
    cases reduceAbsPath p <;> rfl
  | isExist p =>
    simp only [run, Layer.down, Wrapper.down, prefixOp, rebase, MemFS.step, MemFS.Wrap.isExist, MemFS.Wrap.on1,
      memBottom, failResult]
    cases reduceAbsPath p <;> rfl
  | isFile p =>
    simp only [run, Layer.down, Wrapper.down, prefixOp, rebase, MemFS.step, MemFS.Wrap.isFile, MemFS.Wrap.on1,
      memBottom, failResult]
    cases reduceAbsPath p <;> rfl
  | isDir p =>
    simp only [run, Layer.down, Wrapper.down, prefixOp, rebase, MemFS.step, MemFS.Wrap.isDir, MemFS.Wrap.on1,
      memBottom, failResult]
    cases reduceAbsPath p <;> rfl
  | mkdirAll p =>
    simp only [run, Layer.down, Wrapper.down, prefixOp, rebase, MemFS.step, MemFS.Wrap.mkdirAll, MemFS.Wrap.on1,
      memBottom, failResult]
    cases reduceAbsPath p <;> rfl
  | readFile p =>
    simp only [run, Layer.down, Wrapper.down, prefixOp, rebase, MemFS.step, MemFS.Wrap.readFile, MemFS.Wrap.on1,
      memBottom, failResult]
    cases reduceAbsPath p <;> rfl
  | writeFile p data =>
    simp only [run, Layer.down, Wrapper.down, prefixOp, rebase, MemFS.step, MemFS.Wrap.writeFile, MemFS.Wrap.on1,
      memBottom, failResult]
    cases reduceAbsPath p <;> rfl
  | reader p sizes =>
    simp only [run, Layer.down, Wrapper.down, prefixOp, rebase, MemFS.step, MemFS.Wrap.reader, MemFS.Wrap.on1,
      memBottom, failResult]
    cases reduceAbsPath p <;> rfl
  | writer p chunks =>
    simp only [run, Layer.down, Wrapper.down, prefixOp, rebase, MemFS.step, MemFS.Wrap.writer, MemFS.Wrap.on1,
      memBottom, failResult]
    cases reduceAbsPath p <;> rfl
  | lstat p =>
    simp only [run, Layer.down, Wrapper.down, prefixOp, rebase, MemFS.step, MemFS.Wrap.lstat, MemFS.Wrap.on1,
      memBottom, failResult]
    cases reduceAbsPath p <;> rfl

/-! ### concrete values used by the non-vacuity examples of `Props/C03.lean` -/

/-- encrypted view of a sub-path view `./in/` of the memory wrapper at `in`: rooted at `in/in` -/
def demoStack : List Layer := [newEncrypted, newSubFS [46, 47, 105, 110, 47], ⟨.memWrapper, [105, 110]⟩]

/-- the same below a read-only mask (depth 4) -/
def demoRO : List Layer := newReadOnly :: demoStack

/-- secret at `s`, a file `in/a`, a file `in/in/a` -/
def demoTree : Node :=
  (MemFS.step .root (MemFS.step .root (MemFS.step .root Node.empty
    (.writeFile [115] [83])).1 (.writeFile [105, 110, 47, 97] [1])).1 (.writeFile [105, 110, 47, 105, 110, 47, 97] [2])).1


end Views
end Goat
