/-
Semantic confinement on the specification `FS.Step` (helper lemmas of property C03).

  `AgreeUnder base S₁ S₂`   the two trees coincide at every path at or below `base`
  `RootDirs base S`         the view's root path exists: `base` and all its ancestors are directories
  `step_confined`           a call through a view rooted at `base` leaves every path that is not at or below
                            `base` as it was (all 16 methods, both arguments of the copies)
  `step_confined_rootless`  without `RootDirs`: the only other thing that can happen is that missing ancestors
                            of the root come into being as directories ("resolved inside the root")
  `step_local`              the answer and the tree below `base` afterwards are a function of the tree below
                            `base` before: nothing outside is read or listed
-/
import Goat.Spec.FS

namespace Goat
namespace Views

open Path (Name norm)
open FS

def AgreeUnder (base : List Name) (S₁ S₂ : State) : Prop := ∀ q, base <+: q → S₁ q = S₂ q

def RootDirs (base : List Name) (S : State) : Prop := ∀ q, q <+: base → S q = some .dir

theorem AgreeUnder.refl (base : List Name) (S : State) : AgreeUnder base S S := fun _ _ => rfl

/-! ### lists -/

theorem prefix_append_cases {α} {q base p : List α} (h : q <+: base ++ p) : q <+: base ∨ base <+: q :=
  List.prefix_or_prefix_of_prefix h (List.prefix_append base p)

theorem prefix_dropLast_append {α} {q base p : List α} (h : q <+: (base ++ p).dropLast) : q <+: base ∨ base <+: q :=
  prefix_append_cases (h.trans (List.dropLast_prefix _))

theorem base_prefix_append {α} (base p : List α) : base <+: base ++ p := List.prefix_append base p

theorem base_prefix_append2 {α} (base p r : List α) : base <+: base ++ p ++ r := by
  rw [List.append_assoc]; exact List.prefix_append base _

/-- a prefix of `(base ++ p).dropLast` that is at or below `base` -/
theorem not_under_of_not_prefix {α} {q base d : List α} (hq : ¬ base <+: q) (h : base ++ d <+: q) : False :=
  hq ((List.prefix_append base d).trans h)

/-! ### post-states outside the root -/

/-- outside the root, `mkdirSt` along a path through the root changes nothing or makes an ancestor of the
root a directory -/
theorem mkdirSt_outside (S : State) (base p q : List Name) (hq : ¬ base <+: q) :
    mkdirSt S (base ++ p) q = S q ∨ (q <+: base ∧ mkdirSt S (base ++ p) q = some .dir) := by
  unfold mkdirSt
  by_cases h : q <+: base ++ p
  · rcases prefix_append_cases h with h' | h'
    · exact Or.inr ⟨h', by simp [h]⟩
    · exact absurd h' hq
  · exact Or.inl (by simp [h])

theorem mkdirSt_dropLast_outside (S : State) (base p q : List Name) (hq : ¬ base <+: q) :
    mkdirSt S (base ++ p).dropLast q = S q ∨ (q <+: base ∧ mkdirSt S (base ++ p).dropLast q = some .dir) := by
  unfold mkdirSt
  by_cases h : q <+: (base ++ p).dropLast
  · rcases prefix_dropLast_append h with h' | h'
    · exact Or.inr ⟨h', by simp [h]⟩
    · exact absurd h' hq
  · exact Or.inl (by simp [h])

theorem writeSt_outside (S : State) (base p q : List Name) (d : Bytes) (hq : ¬ base <+: q) :
    writeSt S (base ++ p) d q = S q ∨ (q <+: base ∧ writeSt S (base ++ p) d q = some .dir) := by
  have hne : q ≠ base ++ p := fun e => hq (e ▸ base_prefix_append base p)
  unfold writeSt
  simp only [hne, if_false]
  exact mkdirSt_dropLast_outside S base p q hq

theorem removeSt_outside (S : State) (base p q : List Name) (hq : ¬ base <+: q) :
    removeSt S (base ++ p) q = S q := by
  have hne : q ≠ base ++ p := fun e => hq (e ▸ base_prefix_append base p)
  simp [removeSt, hne]

theorem removeAllSt_outside (S : State) (base p q : List Name) (hq : ¬ base <+: q) :
    removeAllSt S (base ++ p) q = S q := by
  have hne : ¬ base ++ p <+: q := fun h => not_under_of_not_prefix hq h
  simp [removeAllSt, hne]

theorem copySt_outside' (S : State) (base s d q : List Name) (hq : ¬ base <+: q) :
    copySt S (base ++ s) (base ++ d) q = S q ∨ (q <+: base ∧ copySt S (base ++ s) (base ++ d) q = some .dir) := by
  have hne : ¬ base ++ d <+: q := fun h => not_under_of_not_prefix hq h
  unfold copySt
  simp only [hne, if_false]
  exact mkdirSt_dropLast_outside S base d q hq

/-! ### confinement of one call -/

/-- what may happen at a path outside the root -/
def OutsideOK (base : List Name) (S S' : State) (q : List Name) : Prop :=
  S' q = S q ∨ (q <+: base ∧ S' q = some .dir)

theorem mut_outside {pre : Prop} {post S S' : State} {r : Result} {base q : List Name}
    (h : Mut pre post S r S') (hpost : OutsideOK base S post q) : OutsideOK base S S' q := by
  rcases h with ⟨_, _, e⟩ | ⟨_, _, e⟩
  · rw [e]; exact hpost
  · rw [e]; exact Or.inl rfl

theorem step_confined_rootless (base : List Name) (S : State) (op : Op) (r : Result) (S' : State)
    (h : Step base S op r S') (q : List Name) (hq : ¬ base <+: q) : OutsideOK base S S' q := by
  have same : ∀ {T : State}, T = S → OutsideOK base S T q := fun e => Or.inl (by rw [e])
  cases op with
  | writeFile raw data =>
    simp only [Step] at h
    split at h
    · exact same h.2
    · exact mut_outside h (writeSt_outside S base _ q data hq)
  | writer raw chunks =>
    simp only [Step] at h
    split at h
    · exact same h.2
    · exact mut_outside h (writeSt_outside S base _ q _ hq)
  | mkdirAll raw =>
    simp only [Step] at h
    split at h
    · exact same h.2
    · exact mut_outside h (mkdirSt_outside S base _ q hq)
  | remove raw =>
    simp only [Step] at h
    split at h
    · exact same h.2
    · exact mut_outside h (Or.inl (removeSt_outside S base _ q hq))
  | removeAll raw =>
    simp only [Step] at h
    split at h
    · exact same h.2
    · exact mut_outside h (Or.inl (removeAllSt_outside S base _ q hq))
  | copy rs rd =>
    simp only [Step] at h
    split at h
    · exact mut_outside h (copySt_outside' S base _ _ q hq)
    · exact same h.2
  | copyDirectory rs rd =>
    simp only [Step] at h
    split at h
    · exact mut_outside h (copySt_outside' S base _ _ q hq)
    · exact same h.2
  | copyFile rs rd =>
    simp only [Step] at h
    split at h
    · exact mut_outside h (copySt_outside' S base _ _ q hq)
    · exact same h.2
  | readFile raw => exact same h.1
  | reader raw sizes => exact same h.1
  | readDir raw => exact same h.1
  | isExist raw => exact same h.1
  | isFile raw => exact same h.1
  | isDir raw => exact same h.1
  | lstat raw => exact same h.1
  | filespace raw => exact same h.1

theorem step_confined (base : List Name) (S : State) (op : Op) (r : Result) (S' : State)
    (h : Step base S op r S') (hroot : RootDirs base S) (q : List Name) (hq : ¬ base <+: q) : S' q = S q := by
  rcases step_confined_rootless base S op r S' h q hq with e | ⟨hp, e⟩
  · exact e
  · rw [e, hroot q hp]

/-- the root path still exists after the call -/
theorem step_rootDirs (base : List Name) (S : State) (op : Op) (r : Result) (S' : State)
    (h : Step base S op r S') (hroot : RootDirs base S) : ∀ q, q <+: base → q ≠ base → S' q = some .dir := by
  intro q hq hne
  have hnot : ¬ base <+: q := fun h' => hne (hq.eq_of_length_le h'.length_le)
  rw [step_confined base S op r S' h hroot q hnot]
  exact hroot q hq

/-! ### locality: nothing outside is read -/

section Local
variable {base : List Name} {S₁ S₂ : State}

theorem mkdirOk_local (ha : AgreeUnder base S₁ S₂) (h1 : RootDirs base S₁) (h2 : RootDirs base S₂)
    (p : List Name) : mkdirOk S₁ (base ++ p) ↔ mkdirOk S₂ (base ++ p) := by
  have key : ∀ {T₁ T₂ : State}, AgreeUnder base T₁ T₂ → RootDirs base T₂ →
      mkdirOk T₁ (base ++ p) → mkdirOk T₂ (base ++ p) := by
    intro T₁ T₂ ha' h2' hok q hq d
    rcases prefix_append_cases hq with h' | h'
    · rw [h2' q h']; intro e; cases e
    · rw [← ha' q h']; exact hok q hq d
  exact ⟨key ha h2, key (fun q hq => (ha q hq).symm) h1⟩

theorem mkdirOk_dropLast_local (ha : AgreeUnder base S₁ S₂) (h1 : RootDirs base S₁) (h2 : RootDirs base S₂)
    (p : List Name) : mkdirOk S₁ (base ++ p).dropLast ↔ mkdirOk S₂ (base ++ p).dropLast := by
  have key : ∀ {T₁ T₂ : State}, AgreeUnder base T₁ T₂ → RootDirs base T₂ →
      mkdirOk T₁ (base ++ p).dropLast → mkdirOk T₂ (base ++ p).dropLast := by
    intro T₁ T₂ ha' h2' hok q hq d
    rcases prefix_dropLast_append hq with h' | h'
    · rw [h2' q h']; intro e; cases e
    · rw [← ha' q h']; exact hok q hq d
  exact ⟨key ha h2, key (fun q hq => (ha q hq).symm) h1⟩

theorem at_local (ha : AgreeUnder base S₁ S₂) (p : List Name) : S₁ (base ++ p) = S₂ (base ++ p) :=
  ha _ (base_prefix_append base p)

theorem at_local2 (ha : AgreeUnder base S₁ S₂) (p r : List Name) : S₁ (base ++ p ++ r) = S₂ (base ++ p ++ r) :=
  ha _ (base_prefix_append2 base p r)

theorem writeOk_local (ha : AgreeUnder base S₁ S₂) (h1 : RootDirs base S₁) (h2 : RootDirs base S₂)
    (p : List Name) : writeOk S₁ (base ++ p) ↔ writeOk S₂ (base ++ p) := by
  unfold writeOk
  rw [mkdirOk_dropLast_local ha h1 h2 p, at_local ha p]

theorem removeOk_local (ha : AgreeUnder base S₁ S₂) (p : List Name) :
    removeOk S₁ (base ++ p) ↔ removeOk S₂ (base ++ p) := by
  unfold removeOk
  rw [at_local ha p]
  have : ∀ n, S₁ (base ++ p ++ [n]) = S₂ (base ++ p ++ [n]) := fun n => at_local2 ha p [n]
  simp only [this]

theorem removeAllOk_local (ha : AgreeUnder base S₁ S₂) (p : List Name) :
    removeAllOk S₁ (base ++ p) ↔ removeAllOk S₂ (base ++ p) := by
  unfold removeAllOk
  rw [at_local ha p]

theorem copyOk_local (kind : CopyKind) (ha : AgreeUnder base S₁ S₂) (h1 : RootDirs base S₁) (h2 : RootDirs base S₂)
    (s d : List Name) : copyOk kind S₁ (base ++ s) (base ++ d) ↔ copyOk kind S₂ (base ++ s) (base ++ d) := by
  unfold copyOk
  rw [mkdirOk_dropLast_local ha h1 h2 d, at_local ha s, at_local ha d]

theorem isListing_local (ha : AgreeUnder base S₁ S₂) (p : List Name) (l : List (Name × Bool)) :
    IsListing S₁ (base ++ p) l ↔ IsListing S₂ (base ++ p) l := by
  unfold IsListing
  have : ∀ n, S₁ (base ++ p ++ [n]) = S₂ (base ++ p ++ [n]) := fun n => at_local2 ha p [n]
  simp only [this]

/-! post-states agree below the root -/

theorem mkdirSt_agree (ha : AgreeUnder base S₁ S₂) (p : List Name) :
    AgreeUnder base (mkdirSt S₁ p) (mkdirSt S₂ p) := by
  intro q hq
  simp only [mkdirSt, ha q hq]

theorem writeSt_agree (ha : AgreeUnder base S₁ S₂) (p : List Name) (d : Bytes) :
    AgreeUnder base (writeSt S₁ p d) (writeSt S₂ p d) := by
  intro q hq
  simp only [writeSt, mkdirSt_agree ha p.dropLast q hq]

theorem removeSt_agree (ha : AgreeUnder base S₁ S₂) (p : List Name) :
    AgreeUnder base (removeSt S₁ p) (removeSt S₂ p) := by
  intro q hq
  simp only [removeSt, ha q hq]

theorem removeAllSt_agree (ha : AgreeUnder base S₁ S₂) (p : List Name) :
    AgreeUnder base (removeAllSt S₁ p) (removeAllSt S₂ p) := by
  intro q hq
  simp only [removeAllSt, ha q hq]

theorem copySt_agree (ha : AgreeUnder base S₁ S₂) (s d : List Name) :
    AgreeUnder base (copySt S₁ (base ++ s) (base ++ d)) (copySt S₂ (base ++ s) (base ++ d)) := by
  intro q hq
  simp only [copySt]
  split
  · apply mkdirSt_agree ha
    rw [List.append_assoc]
    exact List.prefix_append base _
  · exact mkdirSt_agree ha _ q hq

/-- a mutating call: same verdict, and post-states that agree below the root -/
theorem mut_local {pre₁ pre₂ : Prop} {post₁ post₂ : State} {r : Result} {S₁' : State}
    (ha : AgreeUnder base S₁ S₂) (hpre : pre₁ ↔ pre₂) (hpost : AgreeUnder base post₁ post₂)
    (h : Mut pre₁ post₁ S₁ r S₁') : ∃ S₂', Mut pre₂ post₂ S₂ r S₂' ∧ AgreeUnder base S₁' S₂' := by
  rcases h with ⟨a, b, c⟩ | ⟨a, b, c⟩
  · exact ⟨post₂, Or.inl ⟨hpre.mp a, b, rfl⟩, by rw [c]; exact hpost⟩
  · exact ⟨S₂, Or.inr ⟨fun x => a (hpre.mpr x), b, rfl⟩, by rw [c]; exact ha⟩

end Local

/-- LOCALITY.  Two trees that coincide at and below the root of a view (and in both of which the root path
exists) give every call through the view the same possible answers, and the trees afterwards again coincide
at and below the root. -/
theorem step_local (base : List Name) (S₁ S₂ : State) (ha : AgreeUnder base S₁ S₂)
    (h1 : RootDirs base S₁) (h2 : RootDirs base S₂) (op : Op) (r : Result) (S₁' : State)
    (h : Step base S₁ op r S₁') : ∃ S₂', Step base S₂ op r S₂' ∧ AgreeUnder base S₁' S₂' := by
  have keep : ∀ {P : Prop}, S₁' = S₁ → P → ∃ S₂', (S₂' = S₂ ∧ P) ∧ AgreeUnder base S₁' S₂' :=
    fun e p => ⟨S₂, ⟨rfl, p⟩, by rw [e]; exact ha⟩
  cases op with
  | writeFile raw data =>
    simp only [Step] at h ⊢
    split
    · next hn =>
      simp only [hn] at h
      exact ⟨S₂, ⟨h.1, rfl⟩, by rw [h.2]; exact ha⟩
    · next p hn =>
      simp only [hn] at h
      exact mut_local ha (writeOk_local ha h1 h2 p) (writeSt_agree ha _ _) h
  | writer raw chunks =>
    simp only [Step] at h ⊢
    split
    · next hn =>
      simp only [hn] at h
      exact ⟨S₂, ⟨h.1, rfl⟩, by rw [h.2]; exact ha⟩
    · next p hn =>
      simp only [hn] at h
      exact mut_local ha (writeOk_local ha h1 h2 p) (writeSt_agree ha _ _) h
  | mkdirAll raw =>
    simp only [Step] at h ⊢
    split
    · next hn =>
      simp only [hn] at h
      exact ⟨S₂, ⟨h.1, rfl⟩, by rw [h.2]; exact ha⟩
    · next p hn =>
      simp only [hn] at h
      exact mut_local ha (mkdirOk_local ha h1 h2 p) (mkdirSt_agree ha _) h
  | remove raw =>
    simp only [Step] at h ⊢
    split
    · next hn =>
      simp only [hn] at h
      exact ⟨S₂, ⟨h.1, rfl⟩, by rw [h.2]; exact ha⟩
    · next p hn =>
      simp only [hn] at h
      exact mut_local ha (and_congr Iff.rfl (removeOk_local ha p)) (removeSt_agree ha _) h
  | removeAll raw =>
    simp only [Step] at h ⊢
    split
    · next hn =>
      simp only [hn] at h
      exact ⟨S₂, ⟨h.1, rfl⟩, by rw [h.2]; exact ha⟩
    · next p hn =>
      simp only [hn] at h
      exact mut_local ha (and_congr Iff.rfl (removeAllOk_local ha p)) (removeAllSt_agree ha _) h
  | copy rs rd =>
    simp only [Step] at h ⊢
    split
    · next s d hs hd =>
      simp only [hs, hd] at h
      exact mut_local ha (copyOk_local .any ha h1 h2 s d) (copySt_agree ha s d) h
    · next hno =>
      split at h
      · next s d hs hd => exact absurd hd (by intro hd'; exact hno s d hs hd')
      · exact ⟨S₂, ⟨h.1, rfl⟩, by rw [h.2]; exact ha⟩
  | copyDirectory rs rd =>
    simp only [Step] at h ⊢
    split
    · next s d hs hd =>
      simp only [hs, hd] at h
      exact mut_local ha (copyOk_local .dirOnly ha h1 h2 s d) (copySt_agree ha s d) h
    · next hno =>
      split at h
      · next s d hs hd => exact absurd hd (by intro hd'; exact hno s d hs hd')
      · exact ⟨S₂, ⟨h.1, rfl⟩, by rw [h.2]; exact ha⟩
  | copyFile rs rd =>
    simp only [Step] at h ⊢
    split
    · next s d hs hd =>
      simp only [hs, hd] at h
      exact mut_local ha (copyOk_local .fileOnly ha h1 h2 s d) (copySt_agree ha s d) h
    · next hno =>
      split at h
      · next s d hs hd => exact absurd hd (by intro hd'; exact hno s d hs hd')
      · exact ⟨S₂, ⟨h.1, rfl⟩, by rw [h.2]; exact ha⟩
  | readFile raw =>
    simp only [Step] at h ⊢
    refine keep h.1 ?_
    have h' := h.2
    cases hn : norm raw with
    | none => simpa [hn] using h'
    | some p => simp only [hn] at h' ⊢; rw [← at_local ha p]; exact h'
  | reader raw sizes =>
    simp only [Step] at h ⊢
    refine keep h.1 ?_
    have h' := h.2
    cases hn : norm raw with
    | none => simpa [hn] using h'
    | some p => simp only [hn] at h' ⊢; rw [← at_local ha p]; exact h'
  | readDir raw =>
    simp only [Step] at h ⊢
    refine keep h.1 ?_
    have h' := h.2
    cases hn : norm raw with
    | none => simpa [hn] using h'
    | some p =>
      simp only [hn] at h' ⊢
      rw [← at_local ha p]
      split at h'
      · next hd =>
        simp only [hd]
        obtain ⟨l, hl, hL⟩ := h'
        exact ⟨l, hl, (isListing_local ha p l).mp hL⟩
      · exact h'
  | isExist raw =>
    simp only [Step] at h ⊢
    refine keep h.1 ?_
    have h' := h.2
    cases hn : norm raw with
    | none => simpa [hn] using h'
    | some p => simp only [hn] at h' ⊢; rw [← at_local ha p]; exact h'
  | isFile raw =>
    simp only [Step] at h ⊢
    refine keep h.1 ?_
    have h' := h.2
    cases hn : norm raw with
    | none => simpa [hn] using h'
    | some p => simp only [hn] at h' ⊢; rw [← at_local ha p]; exact h'
  | isDir raw =>
    simp only [Step] at h ⊢
    refine keep h.1 ?_
    have h' := h.2
    cases hn : norm raw with
    | none => simpa [hn] using h'
    | some p => simp only [hn] at h' ⊢; rw [← at_local ha p]; exact h'
  | lstat raw =>
    simp only [Step] at h ⊢
    refine keep h.1 ?_
    have h' := h.2
    cases hn : norm raw with
    | none => simpa [hn] using h'
    | some p => simp only [hn] at h' ⊢; rw [← at_local ha p]; exact h'
  | filespace raw =>
    simp only [Step] at h ⊢
    exact keep h.1 h.2

end Views
end Goat
