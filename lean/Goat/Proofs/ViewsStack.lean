/-
The view-stack model (`Goat/Model/Views.lean`) against the specification: helper lemmas of property C03.

  lexical      `norm_dir_join` (a reduced path under ANY stored base string), `norm_clean` (`path.Clean` keeps the
               normal form of a non-climbing path), `rebase_norm`
  one layer    `prefixOp_refused` (what a layer refuses is a failing call of the specification),
               `prefixOp_step` (what it hands down is the same call of the specification, rooted deeper)
  the stack    `run_outcome` (induction on the stack: any depth), `downAll_args` (what reaches the bottom, whatever
               the bottom is), `run_eq_downAll`, `readonly_refuses`, `openView_under`
-/
import Goat.Model.Views
import Goat.Proofs.Path
import Goat.Proofs.ViewsSpec

namespace Goat
namespace Views

open Path (Name norm split join reduceAbsPath clean slash Reduced Plain NoSlash reduceGo cleanGo dotSeg dotdotSeg)
open FS

/-! ### lexical -/

theorem join_eq_nil {q : List Name} (hq : Reduced q) (h : join q = []) : q = [] := by
  cases q with
  | nil => rfl
  | cons s rest =>
    exfalso
    have hs := (hq s (by simp)).1.1
    cases rest with
    | nil => exact hs (by simpa [join] using h)
    | cons s' rest' =>
      simp only [join] at h
      cases s with
      | nil => exact hs rfl
      | cons c cs => simp at h

/-- the path string a view hands down: its stored base, `/`, the reduced argument — for ANY base string
(clean or not, climbing or not) -/
theorem norm_dir_join (dir : Bytes) (q : List Name) (hq : Reduced q) :
    norm (dir ++ slash :: join q) = (norm dir).map (· ++ q) := by
  unfold norm Path.reduceSegs
  rw [Path.split_append_slash, Path.reduceGo_append]
  cases h : reduceGo (split dir) [] with
  | none => simp
  | some d =>
    simp only [Option.bind_some, Option.map_some]
    rw [Path.split_join' q (fun s hs => (hq s hs).2)]
    split
    · next e => subst e; simp [reduceGo]
    · simpa using Path.reduceGo_of_plain q d.reverse (fun s hs => (hq s hs).1)

theorem reduceAbsPath_some {raw j : Bytes} (h : reduceAbsPath raw = some j) :
    ∃ p, norm raw = some p ∧ j = join p ∧ Reduced p := by
  unfold reduceAbsPath at h
  cases hn : norm raw with
  | none => simp [hn] at h
  | some p =>
    simp [hn] at h
    exact ⟨p, rfl, h.symm, Path.norm_reduced raw p hn⟩

theorem reduceAbsPath_none {raw : Bytes} (h : reduceAbsPath raw = none) : norm raw = none := by
  unfold reduceAbsPath at h
  cases hn : norm raw with
  | none => rfl
  | some p => simp [hn] at h

theorem rebase_some {dir raw x : Bytes} (h : rebase (dir ++ [slash]) raw = some x) :
    ∃ p, norm raw = some p ∧ norm x = (norm dir).map (· ++ p) := by
  unfold rebase at h
  split at h
  · cases h
  · next j hj =>
    obtain ⟨p, hn, rfl, hp⟩ := reduceAbsPath_some hj
    cases h
    refine ⟨p, hn, ?_⟩
    have : dir ++ [slash] ++ join p = dir ++ slash :: join p := by simp
    rw [this]
    exact norm_dir_join dir p hp

theorem rebase_none {base raw : Bytes} (h : rebase base raw = none) : norm raw = none := by
  unfold rebase at h
  split at h
  · next hj => exact reduceAbsPath_none hj
  · cases h

theorem rebaseNonRoot_some {dir raw x : Bytes} (h : rebaseNonRoot (dir ++ [slash]) raw = some x) :
    ∃ p, norm raw = some p ∧ p ≠ [] ∧ norm x = (norm dir).map (· ++ p) := by
  unfold rebaseNonRoot at h
  split at h
  · cases h
  · next j hj =>
    obtain ⟨p, hn, rfl, hp⟩ := reduceAbsPath_some hj
    split at h
    · cases h
    · next hne =>
      cases h
      refine ⟨p, hn, fun e => hne (by rw [e]; rfl), ?_⟩
      have : dir ++ [slash] ++ join p = dir ++ slash :: join p := by simp
      rw [this]
      exact norm_dir_join dir p hp

theorem rebaseNonRoot_none {base raw : Bytes} (h : rebaseNonRoot base raw = none) :
    norm raw = none ∨ norm raw = some [] := by
  unfold rebaseNonRoot at h
  split at h
  · next hj => exact Or.inl (reduceAbsPath_none hj)
  · next j hj =>
    obtain ⟨p, hn, rfl, hp⟩ := reduceAbsPath_some hj
    split at h
    · next e => exact Or.inr (by rw [hn, join_eq_nil hp e])
    · cases h

/-- on a path that never climbs, the element loop of `path.Clean` does what `ReduceAbsPath` does -/
theorem cleanGo_eq_reduceGo (rooted : Bool) (segs acc r : List Name) (hacc : ∀ s ∈ acc, Plain s)
    (h : reduceGo segs acc = some r) : cleanGo rooted segs acc = r := by
  induction segs generalizing acc with
  | nil => simpa [reduceGo, cleanGo] using h
  | cons s rest ih =>
    unfold reduceGo at h
    unfold cleanGo
    split
    · next hs => rw [if_pos hs] at h; exact ih acc hacc h
    · next hs =>
      rw [if_neg hs] at h
      split
      · next hdd =>
        rw [if_pos hdd] at h
        cases acc with
        | nil => simp at h
        | cons top acc' =>
          simp only at h
          have htop : top ≠ dotdotSeg := (hacc top (by simp)).2.2
          simp only [htop, if_false]
          exact ih acc' (fun x hx => hacc x (List.mem_cons_of_mem _ hx)) h
      · next hdd =>
        rw [if_neg hdd] at h
        apply ih (s :: acc) _ h
        intro x hx
        rcases List.mem_cons.mp hx with rfl | hx
        · exact ⟨fun e => hs (Or.inl e), fun e => hs (Or.inr e), hdd⟩
        · exact hacc x hx

/-- `path.Clean` keeps the normal form of a path that does not climb -/
theorem norm_clean (p : Bytes) (q : List Name) (h : norm p = some q) : norm (clean p) = some q := by
  have hq := Path.norm_reduced p q h
  cases p with
  | nil =>
    have : q = [] := by simpa [norm, Path.reduceSegs, split, Path.splitHT, reduceGo] using h.symm
    subst this
    decide
  | cons c rest =>
    have hc : ∀ rooted, cleanGo rooted (split (c :: rest)) [] = q :=
      fun rooted => cleanGo_eq_reduceGo rooted _ [] q (by simp) h
    simp only [clean, hc]
    split
    · have := Path.norm_base_join [] q Reduced.nil hq
      simpa [join] using this
    · split
      · next e =>
        have : q = [] := join_eq_nil hq e
        subst this
        decide
      · exact Path.norm_join q hq

/-! ### one layer -/

def NotFilespace (op : Op) : Prop := ∀ raw, op ≠ .filespace raw

theorem failResult_mutator {op : Op} (h : isMutator op = true) : failResult op = .err := by
  cases op <;> simp [isMutator] at h <;> rfl

/-- a call that a prefixing layer (memory wrapper, sub-path view, cache child, disk) refuses — climbing
argument, or removal of the view's own root — is a failing call of the specification at every root -/
theorem prefixOp_refused (base : Bytes) (op : Op) (hop : NotFilespace op) (h : prefixOp base op = none)
    (b : List Name) (S : State) : Step b S op (failResult op) S := by
  cases op with
  | filespace raw => exact absurd rfl (hop raw)
  | copy s d =>
    simp only [prefixOp, rebase2] at h
    have : norm s = none ∨ norm d = none := by
      split at h
      · next hs => exact Or.inl (rebase_none hs)
      · split at h
        · next hd => exact Or.inr (rebase_none hd)
        · cases h
    simp only [Step, failResult]
    rcases this with e | e
    · simp [e]
    · cases hs : norm s <;> simp [e]
  | copyDirectory s d =>
    simp only [prefixOp, rebase2] at h
    have : norm s = none ∨ norm d = none := by
      split at h
      · next hs => exact Or.inl (rebase_none hs)
      · split at h
        · next hd => exact Or.inr (rebase_none hd)
        · cases h
    simp only [Step, failResult]
    rcases this with e | e
    · simp [e]
    · cases hs : norm s <;> simp [e]
  | copyFile s d =>
    simp only [prefixOp, rebase2] at h
    have : norm s = none ∨ norm d = none := by
      split at h
      · next hs => exact Or.inl (rebase_none hs)
      · split at h
        · next hd => exact Or.inr (rebase_none hd)
        · cases h
    simp only [Step, failResult]
    rcases this with e | e
    · simp [e]
    · cases hs : norm s <;> simp [e]
  | readDir p => simp only [prefixOp, Option.map_eq_none_iff] at h; simp [Step, failResult, rebase_none h]
  | isExist p => simp only [prefixOp, Option.map_eq_none_iff] at h; simp [Step, failResult, rebase_none h]
  | isFile p => simp only [prefixOp, Option.map_eq_none_iff] at h; simp [Step, failResult, rebase_none h]
  | isDir p => simp only [prefixOp, Option.map_eq_none_iff] at h; simp [Step, failResult, rebase_none h]
  | mkdirAll p => simp only [prefixOp, Option.map_eq_none_iff] at h; simp [Step, failResult, rebase_none h]
  | readFile p => simp only [prefixOp, Option.map_eq_none_iff] at h; simp [Step, failResult, rebase_none h]
  | writeFile p data => simp only [prefixOp, Option.map_eq_none_iff] at h; simp [Step, failResult, rebase_none h]
  | reader p sizes => simp only [prefixOp, Option.map_eq_none_iff] at h; simp [Step, failResult, rebase_none h]
  | writer p chunks => simp only [prefixOp, Option.map_eq_none_iff] at h; simp [Step, failResult, rebase_none h]
  | lstat p => simp only [prefixOp, Option.map_eq_none_iff] at h; simp [Step, failResult, rebase_none h]
  | remove p =>
    simp only [prefixOp, Option.map_eq_none_iff] at h
    rcases rebaseNonRoot_none h with e | e
    · simp [Step, failResult, e]
    · simp [Step, failResult, e, Mut]
  | removeAll p =>
    simp only [prefixOp, Option.map_eq_none_iff] at h
    rcases rebaseNonRoot_none h with e | e
    · simp [Step, failResult, e]
    · simp [Step, failResult, e, Mut]

/-- what a prefixing layer with stored base `dir` hands down is, for the specification, the same call rooted
`norm dir` deeper; when `dir` climbs, the call handed down fails -/
structure HandsDown (dir : Bytes) (op op' : Op) : Prop where
  fail : failResult op' = failResult op
  mutates : isMutator op' = isMutator op
  notFs : NotFilespace op'
  live : ∀ d, norm dir = some d → ∀ c S r S', Step c S op' r S' ↔ Step (c ++ d) S op r S'
  dead : norm dir = none → ∀ c S r S', Step c S op' r S' → r = failResult op ∧ S' = S

theorem prefixOp_step (dir : Bytes) (op op' : Op) (h : prefixOp (dir ++ [slash]) op = some op') :
    HandsDown dir op op' := by
  cases op with
  | filespace raw => simp [prefixOp] at h
  | copy s d =>
    simp only [prefixOp, rebase2] at h
    split at h
    · cases h
    · next s' hs =>
      split at h
      · cases h
      · next d' hd =>
        cases h
        obtain ⟨ps, hns, hxs⟩ := rebase_some hs
        obtain ⟨pd, hnd, hxd⟩ := rebase_some hd
        refine ⟨rfl, rfl, (fun _ e => by cases e), ?_, ?_⟩
        · intro dd hdd c S r S'
          simp only [Step, hns, hnd, hxs, hxd, hdd, Option.map_some, List.append_assoc]
        · intro hdd c S r S' hs'
          simpa [Step, hxs, hxd, hdd, failResult] using hs'
  | copyDirectory s d =>
    simp only [prefixOp, rebase2] at h
    split at h
    · cases h
    · next s' hs =>
      split at h
      · cases h
      · next d' hd =>
        cases h
        obtain ⟨ps, hns, hxs⟩ := rebase_some hs
        obtain ⟨pd, hnd, hxd⟩ := rebase_some hd
        refine ⟨rfl, rfl, (fun _ e => by cases e), ?_, ?_⟩
        · intro dd hdd c S r S'
          simp only [Step, hns, hnd, hxs, hxd, hdd, Option.map_some, List.append_assoc]
        · intro hdd c S r S' hs'
          simpa [Step, hxs, hxd, hdd, failResult] using hs'
  | copyFile s d =>
    simp only [prefixOp, rebase2] at h
    split at h
    · cases h
    · next s' hs =>
      split at h
      · cases h
      · next d' hd =>
        cases h
        obtain ⟨ps, hns, hxs⟩ := rebase_some hs
        obtain ⟨pd, hnd, hxd⟩ := rebase_some hd
        refine ⟨rfl, rfl, (fun _ e => by cases e), ?_, ?_⟩
        · intro dd hdd c S r S'
          simp only [Step, hns, hnd, hxs, hxd, hdd, Option.map_some, List.append_assoc]
        · intro hdd c S r S' hs'
          simpa [Step, hxs, hxd, hdd, failResult] using hs'
  | readDir p =>
    simp only [prefixOp, Option.map_eq_some_iff] at h
    obtain ⟨x, hx, rfl⟩ := h
    obtain ⟨q, hn, hnx⟩ := rebase_some hx
    refine ⟨rfl, rfl, (fun _ e => by cases e), ?_, ?_⟩
    · intro dd hdd c S r S'
      simp only [Step, hn, hnx, hdd, Option.map_some, List.append_assoc]
    · intro hdd c S r S' hs'
      simpa [Step, hnx, hdd, failResult, and_comm] using hs'
  | isExist p =>
    simp only [prefixOp, Option.map_eq_some_iff] at h
    obtain ⟨x, hx, rfl⟩ := h
    obtain ⟨q, hn, hnx⟩ := rebase_some hx
    refine ⟨rfl, rfl, (fun _ e => by cases e), ?_, ?_⟩
    · intro dd hdd c S r S'
      simp only [Step, hn, hnx, hdd, Option.map_some, List.append_assoc]
    · intro hdd c S r S' hs'
      simpa [Step, hnx, hdd, failResult, and_comm] using hs'
  | isFile p =>
    simp only [prefixOp, Option.map_eq_some_iff] at h
    obtain ⟨x, hx, rfl⟩ := h
    obtain ⟨q, hn, hnx⟩ := rebase_some hx
    refine ⟨rfl, rfl, (fun _ e => by cases e), ?_, ?_⟩
    · intro dd hdd c S r S'
      simp only [Step, hn, hnx, hdd, Option.map_some, List.append_assoc]
    · intro hdd c S r S' hs'
      simpa [Step, hnx, hdd, failResult, and_comm] using hs'
  | isDir p =>
    simp only [prefixOp, Option.map_eq_some_iff] at h
    obtain ⟨x, hx, rfl⟩ := h
    obtain ⟨q, hn, hnx⟩ := rebase_some hx
    refine ⟨rfl, rfl, (fun _ e => by cases e), ?_, ?_⟩
    · intro dd hdd c S r S'
      simp only [Step, hn, hnx, hdd, Option.map_some, List.append_assoc]
    · intro hdd c S r S' hs'
      simpa [Step, hnx, hdd, failResult, and_comm] using hs'
  | mkdirAll p =>
    simp only [prefixOp, Option.map_eq_some_iff] at h
    obtain ⟨x, hx, rfl⟩ := h
    obtain ⟨q, hn, hnx⟩ := rebase_some hx
    refine ⟨rfl, rfl, (fun _ e => by cases e), ?_, ?_⟩
    · intro dd hdd c S r S'
      simp only [Step, hn, hnx, hdd, Option.map_some, List.append_assoc]
    · intro hdd c S r S' hs'
      simpa [Step, hnx, hdd, failResult] using hs'
  | readFile p =>
    simp only [prefixOp, Option.map_eq_some_iff] at h
    obtain ⟨x, hx, rfl⟩ := h
    obtain ⟨q, hn, hnx⟩ := rebase_some hx
    refine ⟨rfl, rfl, (fun _ e => by cases e), ?_, ?_⟩
    · intro dd hdd c S r S'
      simp only [Step, hn, hnx, hdd, Option.map_some, List.append_assoc]
    · intro hdd c S r S' hs'
      simpa [Step, hnx, hdd, failResult, and_comm] using hs'
  | writeFile p data =>
    simp only [prefixOp, Option.map_eq_some_iff] at h
    obtain ⟨x, hx, rfl⟩ := h
    obtain ⟨q, hn, hnx⟩ := rebase_some hx
    refine ⟨rfl, rfl, (fun _ e => by cases e), ?_, ?_⟩
    · intro dd hdd c S r S'
      simp only [Step, hn, hnx, hdd, Option.map_some, List.append_assoc]
    · intro hdd c S r S' hs'
      simpa [Step, hnx, hdd, failResult] using hs'
  | reader p sizes =>
    simp only [prefixOp, Option.map_eq_some_iff] at h
    obtain ⟨x, hx, rfl⟩ := h
    obtain ⟨q, hn, hnx⟩ := rebase_some hx
    refine ⟨rfl, rfl, (fun _ e => by cases e), ?_, ?_⟩
    · intro dd hdd c S r S'
      simp only [Step, hn, hnx, hdd, Option.map_some, List.append_assoc]
    · intro hdd c S r S' hs'
      simpa [Step, hnx, hdd, failResult, and_comm] using hs'
  | writer p chunks =>
    simp only [prefixOp, Option.map_eq_some_iff] at h
    obtain ⟨x, hx, rfl⟩ := h
    obtain ⟨q, hn, hnx⟩ := rebase_some hx
    refine ⟨rfl, rfl, (fun _ e => by cases e), ?_, ?_⟩
    · intro dd hdd c S r S'
      simp only [Step, hn, hnx, hdd, Option.map_some, List.append_assoc]
    · intro hdd c S r S' hs'
      simpa [Step, hnx, hdd, failResult] using hs'
  | lstat p =>
    simp only [prefixOp, Option.map_eq_some_iff] at h
    obtain ⟨x, hx, rfl⟩ := h
    obtain ⟨q, hn, hnx⟩ := rebase_some hx
    refine ⟨rfl, rfl, (fun _ e => by cases e), ?_, ?_⟩
    · intro dd hdd c S r S'
      simp only [Step, hn, hnx, hdd, Option.map_some, List.append_assoc]
    · intro hdd c S r S' hs'
      simpa [Step, hnx, hdd, failResult, and_comm] using hs'
  | remove p =>
    simp only [prefixOp, Option.map_eq_some_iff] at h
    obtain ⟨x, hx, rfl⟩ := h
    obtain ⟨q, hn, hq, hnx⟩ := rebaseNonRoot_some hx
    refine ⟨rfl, rfl, (fun _ e => by cases e), ?_, ?_⟩
    · intro dd hdd c S r S'
      have : dd ++ q ≠ [] := by simp [hq]
      simp only [Step, hn, hnx, hdd, Option.map_some, List.append_assoc, ne_eq, this, hq, not_false_eq_true,
        true_and]
    · intro hdd c S r S' hs'
      simpa [Step, hnx, hdd, failResult] using hs'
  | removeAll p =>
    simp only [prefixOp, Option.map_eq_some_iff] at h
    obtain ⟨x, hx, rfl⟩ := h
    obtain ⟨q, hn, hq, hnx⟩ := rebaseNonRoot_some hx
    refine ⟨rfl, rfl, (fun _ e => by cases e), ?_, ?_⟩
    · intro dd hdd c S r S'
      have : dd ++ q ≠ [] := by simp [hq]
      simp only [Step, hn, hnx, hdd, Option.map_some, List.append_assoc, ne_eq, this, hq, not_false_eq_true,
        true_and]
    · intro hdd c S r S' hs'
      simpa [Step, hnx, hdd, failResult] using hs'

/-! ### every layer kind -/

theorem down_failResult (l : Layer) (op op' : Op) (h : l.down op = some op') : failResult op' = failResult op := by
  obtain ⟨kind, dir⟩ := l
  cases kind <;> simp only [Layer.down, Wrapper.down, SubFS.down, Disk.down, Encrypted.down] at h
  · exact (prefixOp_step dir op op' h).fail
  · exact (prefixOp_step dir op op' h).fail
  · cases op <;> simp [ReadOnly.down] at h <;> subst h <;> rfl
  · cases h; rfl
  · exact (prefixOp_step dir op op' h).fail
  · exact (prefixOp_step dir op op' h).fail

theorem down_mutates (l : Layer) (op op' : Op) (h : l.down op = some op') : isMutator op' = isMutator op := by
  obtain ⟨kind, dir⟩ := l
  cases kind <;> simp only [Layer.down, Wrapper.down, SubFS.down, Disk.down, Encrypted.down] at h
  · exact (prefixOp_step dir op op' h).mutates
  · exact (prefixOp_step dir op op' h).mutates
  · cases op <;> simp [ReadOnly.down] at h <;> subst h <;> rfl
  · cases h; rfl
  · exact (prefixOp_step dir op op' h).mutates
  · exact (prefixOp_step dir op op' h).mutates

theorem readOnly_down_mutator (op : Op) (h : isMutator op = true) : ReadOnly.down op = none := by
  cases op <;> simp [isMutator] at h <;> rfl

theorem readOnly_down_query (op op' : Op) (h : ReadOnly.down op = some op') :
    op' = op ∧ isMutator op = false ∧ NotFilespace op := by
  cases op <;> simp [ReadOnly.down] at h <;> subst h <;> exact ⟨rfl, rfl, fun _ e => by cases e⟩

/-! ### the stack -/

/-- the bottom filespace behaves, for the states `Good`, as the specification says a filespace rooted at
`b0` does (`b0 = []`: a root filespace), seen through the abstraction `α` -/
structure Refines {σ : Type} (B : Bottom σ) (b0 : List Name) (Good : σ → Prop) (α : σ → State) : Prop where
  step : ∀ s op, Good s → Step b0 (α s) op (B.step s op).2 (α (B.step s op).1)
  good : ∀ s op, Good s → Good (B.step s op).1

/-- the call fails cleanly: the failing answer of its method, nothing changed -/
def Fails (S : State) (op : Op) (r : Result) (S' : State) : Prop := r = failResult op ∧ S' = S

/-- what a call through a stack rooted at `root` (`none`: dead) with or without a read-only mask is -/
def Outcome (root : Option (List Name)) (ro : Bool) (b0 : List Name) (S : State) (op : Op) (r : Result)
    (S' : State) : Prop :=
  match root with
  | none => Fails S op r S'
  | some b => if ro = true ∧ isMutator op = true then Fails S op r S' else Step (b0 ++ b) S op r S'

theorem rootOf_cons (l : Layer) (ls : List Layer) : rootOf (l :: ls) = rootPlus (rootOf ls) l.segs := rfl

theorem rootPlus_nil (root : Option (List Name)) : rootPlus root (some []) = root := by
  cases root <;> simp [rootPlus]

theorem outcome_prefix_refused (dir : Bytes) (op : Op) (hop : NotFilespace op)
    (h : prefixOp (dir ++ [slash]) op = none) (root : Option (List Name)) (ro : Bool) (b0 : List Name) (S : State) :
    Outcome (rootPlus root (norm dir)) ro b0 S op (failResult op) S := by
  unfold Outcome
  split
  · exact ⟨rfl, rfl⟩
  · split
    · exact ⟨rfl, rfl⟩
    · exact prefixOp_refused _ op hop h _ S

theorem outcome_prefix_down (dir : Bytes) (op op' : Op) (h : prefixOp (dir ++ [slash]) op = some op')
    (root : Option (List Name)) (ro : Bool) (b0 : List Name) (S : State) (r : Result) (S' : State)
    (ih : Outcome root ro b0 S op' r S') : Outcome (rootPlus root (norm dir)) ro b0 S op r S' := by
  have hd := prefixOp_step dir op op' h
  have fails : Fails S op' r S' → Fails S op r S' := fun f => ⟨by rw [f.1, hd.fail], f.2⟩
  cases root with
  | none => exact fails ih
  | some b =>
    simp only [Outcome, hd.mutates] at ih
    cases hn : norm dir with
    | none =>
      simp only [rootPlus, Outcome]
      split at ih
      · exact fails ih
      · exact hd.dead hn _ _ _ _ ih
    | some d =>
      simp only [rootPlus, Outcome]
      split
      · next hro => rw [if_pos hro] at ih; exact fails ih
      · next hro =>
        rw [if_neg hro] at ih
        have := (hd.live d hn (b0 ++ b) S r S').mp ih
        rwa [List.append_assoc] at this

theorem outcome_query_ro (root : Option (List Name)) (ro ro' : Bool) (b0 : List Name) (S : State) (op : Op)
    (r : Result) (S' : State) (hq : isMutator op = false) (h : Outcome root ro b0 S op r S') :
    Outcome root ro' b0 S op r S' := by
  cases root with
  | none => exact h
  | some b => simpa [Outcome, hq] using h

/-- THE STACK THEOREM: by induction on the list of layers (any depth, any kinds in any order, any stored base
strings).  A call through the stack is the specification's call at the root of the stack; or it fails
cleanly (dead stack, or a mutation through a stack that contains a read-only mask). -/
theorem run_outcome {σ : Type} (B : Bottom σ) (b0 : List Name) (Good : σ → Prop) (α : σ → State)
    (hB : Refines B b0 Good α) (ls : List Layer) :
    ∀ (s : σ) (op : Op), Good s → NotFilespace op →
      Good (run B ls s op).1 ∧
      Outcome (rootOf ls) (hasReadOnly ls) b0 (α s) op (run B ls s op).2 (α (run B ls s op).1) := by
  induction ls with
  | nil =>
    intro s op hs _
    refine ⟨hB.good s op hs, ?_⟩
    simpa [Outcome, rootOf, hasReadOnly, run] using hB.step s op hs
  | cons l ls ih =>
    intro s op hs hop
    have prefixCase : ∀ dir : Bytes, l.down op = prefixOp (dir ++ [slash]) op → l.segs = norm dir →
        hasReadOnly (l :: ls) = hasReadOnly ls →
        Good (run B (l :: ls) s op).1 ∧
        Outcome (rootOf (l :: ls)) (hasReadOnly (l :: ls)) b0 (α s) op (run B (l :: ls) s op).2
          (α (run B (l :: ls) s op).1) := by
      intro dir hdown hsegs hro
      rw [rootOf_cons, hsegs, hro]
      simp only [run, hdown]
      cases hp : prefixOp (dir ++ [slash]) op with
      | none => exact ⟨hs, outcome_prefix_refused dir op hop hp _ _ _ _⟩
      | some op' =>
        have := ih s op' hs (prefixOp_step dir op op' hp).notFs
        exact ⟨this.1, outcome_prefix_down dir op op' hp _ _ _ _ _ _ this.2⟩
    obtain ⟨kind, dir⟩ := l
    cases kind with
    | memWrapper => exact prefixCase dir rfl rfl (by simp [hasReadOnly])
    | subPath => exact prefixCase dir rfl rfl (by simp [hasReadOnly])
    | cacheChild => exact prefixCase dir rfl rfl (by simp [hasReadOnly])
    | diskRoot => exact prefixCase dir rfl rfl (by simp [hasReadOnly])
    | encrypted =>
      have hro : hasReadOnly (⟨.encrypted, dir⟩ :: ls) = hasReadOnly ls := by simp [hasReadOnly]
      rw [rootOf_cons, hro]
      simp only [run, Layer.down, Encrypted.down, Layer.segs, rootPlus_nil]
      exact ih s op hs hop
    | readOnly =>
      have hro : hasReadOnly (⟨.readOnly, dir⟩ :: ls) = true := by simp [hasReadOnly]
      rw [rootOf_cons, hro]
      simp only [run, Layer.down, Layer.segs, rootPlus_nil]
      cases hd : ReadOnly.down op with
      | none =>
        refine ⟨hs, ?_⟩
        by_cases hm : isMutator op = true
        · cases rootOf ls with
          | none => exact ⟨rfl, rfl⟩
          | some b => simp only [Outcome, hm, and_self, if_true]; exact ⟨rfl, rfl⟩
        · exfalso
          cases op <;> simp [ReadOnly.down] at hd <;> simp [isMutator] at hm
          exact hop _ rfl
      | some op' =>
        obtain ⟨rfl, hq, _⟩ := readOnly_down_query op op' hd
        have := ih s op' hs hop
        exact ⟨this.1, outcome_query_ro _ _ _ _ _ _ _ _ hq this.2⟩

/-! ### what reaches the bottom, whatever the bottom is -/

def opArgs : Op → List Bytes
  | .copy s d | .copyDirectory s d | .copyFile s d => [s, d]
  | .readDir p | .isExist p | .isFile p | .isDir p | .mkdirAll p | .readFile p | .writeFile p _
  | .filespace p | .reader p _ | .writer p _ | .remove p | .removeAll p | .lstat p => [p]

/-- where a raw argument given to a view rooted at `root` lies, in coordinates of the bottom filespace -/
def argAt (root : Option (List Name)) (n : Option (List Name)) : Option (List Name) :=
  root.bind fun b => n.map (b ++ ·)

theorem argAt_argAt (R D n : Option (List Name)) : argAt R (argAt D n) = argAt (rootPlus R D) n := by
  cases R <;> cases D <;> cases n <;> simp [argAt, rootPlus]

theorem prefixOp_args (dir : Bytes) (op op' : Op) (h : prefixOp (dir ++ [slash]) op = some op') :
    (opArgs op').map norm = (opArgs op).map fun raw => argAt (norm dir) (norm raw) := by
  have one : ∀ {raw x : Bytes}, rebase (dir ++ [slash]) raw = some x → norm x = argAt (norm dir) (norm raw) := by
    intro raw x hx
    obtain ⟨p, hn, hnx⟩ := rebase_some hx
    rw [hnx, hn]
    cases norm dir <;> simp [argAt]
  have oneNR : ∀ {raw x : Bytes}, rebaseNonRoot (dir ++ [slash]) raw = some x →
      norm x = argAt (norm dir) (norm raw) := by
    intro raw x hx
    obtain ⟨p, hn, _, hnx⟩ := rebaseNonRoot_some hx
    rw [hnx, hn]
    cases norm dir <;> simp [argAt]
  have two : ∀ {s d : Bytes} (k : Bytes → Bytes → Op), (∀ a b, opArgs (k a b) = [a, b]) →
      rebase2 (dir ++ [slash]) s d k = some op' →
      (opArgs op').map norm = [argAt (norm dir) (norm s), argAt (norm dir) (norm d)] := by
    intro s d k hk h
    unfold rebase2 at h
    split at h
    · cases h
    · next s' hs =>
      split at h
      · cases h
      · next d' hd =>
        cases h
        simp [hk, one hs, one hd]
  cases op with
  | filespace raw => simp [prefixOp] at h
  | copy s d => simpa [opArgs] using two Op.copy (fun _ _ => rfl) (by simpa [prefixOp] using h)
  | copyDirectory s d => simpa [opArgs] using two Op.copyDirectory (fun _ _ => rfl) (by simpa [prefixOp] using h)
  | copyFile s d => simpa [opArgs] using two Op.copyFile (fun _ _ => rfl) (by simpa [prefixOp] using h)
  | readDir p => simp only [prefixOp, Option.map_eq_some_iff] at h; obtain ⟨x, hx, rfl⟩ := h; simp [opArgs, one hx]
  | isExist p => simp only [prefixOp, Option.map_eq_some_iff] at h; obtain ⟨x, hx, rfl⟩ := h; simp [opArgs, one hx]
  | isFile p => simp only [prefixOp, Option.map_eq_some_iff] at h; obtain ⟨x, hx, rfl⟩ := h; simp [opArgs, one hx]
  | isDir p => simp only [prefixOp, Option.map_eq_some_iff] at h; obtain ⟨x, hx, rfl⟩ := h; simp [opArgs, one hx]
  | mkdirAll p => simp only [prefixOp, Option.map_eq_some_iff] at h; obtain ⟨x, hx, rfl⟩ := h; simp [opArgs, one hx]
  | readFile p => simp only [prefixOp, Option.map_eq_some_iff] at h; obtain ⟨x, hx, rfl⟩ := h; simp [opArgs, one hx]
  | writeFile p data =>
    simp only [prefixOp, Option.map_eq_some_iff] at h; obtain ⟨x, hx, rfl⟩ := h; simp [opArgs, one hx]
  | reader p sizes =>
    simp only [prefixOp, Option.map_eq_some_iff] at h; obtain ⟨x, hx, rfl⟩ := h; simp [opArgs, one hx]
  | writer p chunks =>
    simp only [prefixOp, Option.map_eq_some_iff] at h; obtain ⟨x, hx, rfl⟩ := h; simp [opArgs, one hx]
  | lstat p => simp only [prefixOp, Option.map_eq_some_iff] at h; obtain ⟨x, hx, rfl⟩ := h; simp [opArgs, one hx]
  | remove p => simp only [prefixOp, Option.map_eq_some_iff] at h; obtain ⟨x, hx, rfl⟩ := h; simp [opArgs, oneNR hx]
  | removeAll p =>
    simp only [prefixOp, Option.map_eq_some_iff] at h; obtain ⟨x, hx, rfl⟩ := h; simp [opArgs, oneNR hx]

theorem argAt_nil (n : Option (List Name)) : argAt (some []) n = n := by
  cases n <;> simp [argAt]

theorem down_args (l : Layer) (op op' : Op) (h : l.down op = some op') :
    (opArgs op').map norm = (opArgs op).map fun raw => argAt l.segs (norm raw) := by
  obtain ⟨kind, dir⟩ := l
  cases kind <;> simp only [Layer.down, Wrapper.down, SubFS.down, Disk.down, Encrypted.down] at h
  · exact prefixOp_args dir op op' h
  · exact prefixOp_args dir op op' h
  · obtain ⟨rfl, _, _⟩ := readOnly_down_query op op' h
    simp [Layer.segs, argAt_nil]
  · cases h; simp [Layer.segs, argAt_nil]
  · exact prefixOp_args dir op op' h
  · exact prefixOp_args dir op op' h

/-- whatever the bottom filespace is: every path argument it is handed resolves (by `ReduceAbsPath`, which
every bottom applies) to the root of the stack followed by the normal form of the argument the caller gave;
it climbs exactly when the stack is dead -/
theorem downAll_args (ls : List Layer) : ∀ (op op' : Op), downAll ls op = some op' →
    (opArgs op').map norm = (opArgs op).map fun raw => argAt (rootOf ls) (norm raw) := by
  induction ls with
  | nil =>
    intro op op' h
    simp only [downAll, Option.some.injEq] at h
    subst h
    simp [rootOf, argAt_nil]
  | cons l ls ih =>
    intro op op' h
    simp only [downAll] at h
    split at h
    · cases h
    · next op1 h1 =>
      have e1 := down_args l op op1 h1
      have e2 := ih op1 op' h
      rw [e2]
      have : (opArgs op1).map (fun raw => argAt (rootOf ls) (norm raw))
          = ((opArgs op1).map norm).map (argAt (rootOf ls)) := by simp
      rw [this, e1, List.map_map, rootOf_cons]
      apply List.map_congr_left
      intro raw _
      simp [argAt_argAt]

theorem run_eq_downAll {σ : Type} (B : Bottom σ) (ls : List Layer) : ∀ (s : σ) (op : Op),
    run B ls s op = match downAll ls op with
      | none => (s, failResult op)
      | some op' => B.step s op' := by
  induction ls with
  | nil => intro s op; rfl
  | cons l ls ih =>
    intro s op
    simp only [run, downAll]
    cases hd : l.down op with
    | none => rfl
    | some op1 =>
      simp only [ih s op1]
      cases downAll ls op1 with
      | none => simp [down_failResult l op op1 hd]
      | some op' => rfl

/-- a mutation through a stack that contains a read-only mask never reaches the bottom -/
theorem readonly_refuses (ls : List Layer) : ∀ (op : Op), hasReadOnly ls = true → isMutator op = true →
    downAll ls op = none := by
  induction ls with
  | nil => intro op h; simp [hasReadOnly] at h
  | cons l ls ih =>
    intro op hro hm
    simp only [downAll]
    cases hd : l.down op with
    | none => rfl
    | some op1 =>
      simp only
      have hm1 : isMutator op1 = true := by rw [down_mutates l op op1 hd]; exact hm
      apply ih op1 _ hm1
      obtain ⟨kind, dir⟩ := l
      cases kind <;> simp [hasReadOnly] at hro ⊢ <;> try exact hro
      · simp [Layer.down, readOnly_down_mutator op hm] at hd

/-! ### views of views -/

/-- disk layers store what `filepath.Abs` returned: a path that does not climb -/
def DisksLive (ls : List Layer) : Prop := ∀ l ∈ ls, l.kind = .diskRoot → norm l.dir ≠ none

theorem rootPlus_some {R D : Option (List Name)} {b' : List Name} (h : rootPlus R D = some b') :
    ∃ b d, R = some b ∧ D = some d ∧ b' = b ++ d := by
  cases R <;> cases D <;> simp [rootPlus] at h
  exact ⟨_, _, rfl, rfl, h.symm⟩

theorem under_of_norm {dir : Bytes} {q : List Name} {R x : Option (List Name)} {b' : List Name}
    (hx : x = (norm dir).map (· ++ q)) (h : rootPlus R x = some b') :
    ∃ b, rootPlus R (norm dir) = some b ∧ b <+: b' := by
  obtain ⟨B, d', rfl, hd', rfl⟩ := rootPlus_some h
  rw [hx] at hd'
  cases hnd : norm dir with
  | none => simp [hnd] at hd'
  | some d =>
    simp only [hnd, Option.map_some, Option.some.injEq] at hd'
    subst hd'
    refine ⟨B ++ d, by simp [rootPlus], ?_⟩
    rw [← List.append_assoc]
    exact List.prefix_append _ _

/-- `Filespace(raw)` of a stack: the new view is rooted at or below the root of the stack it was opened from
(or it is dead), for every kind and every depth -/
theorem openView_under {σ : Type} (B : Bottom σ) (s : σ) (ls : List Layer) :
    ∀ (raw : Bytes) (ls' : List Layer), DisksLive ls → openView B s ls raw = some ls' →
      ∀ b', rootOf ls' = some b' → ∃ b, rootOf ls = some b ∧ b <+: b' := by
  induction ls with
  | nil => intro raw ls' _ _ b' _; exact ⟨[], rfl, List.nil_prefix⟩
  | cons l ls ih =>
    intro raw ls' hlive h b' hb'
    have hlive' : DisksLive ls := fun l' hl' => hlive l' (List.mem_cons_of_mem _ hl')
    obtain ⟨kind, dir⟩ := l
    cases kind <;> simp only [openView] at h
    · -- memory wrapper
      split at h
      · cases h
      · next j hj =>
        obtain ⟨q, hn, rfl, hq⟩ := reduceAbsPath_some hj
        simp only [Option.map_eq_some_iff] at h
        obtain ⟨l', hl', rfl⟩ := h
        unfold newWrapper at hl'
        split at hl'
        · cases hl'
        · next b2 hb2 =>
          cases hl'
          obtain ⟨p2, hn2, rfl, hp2⟩ := reduceAbsPath_some hb2
          have e : dir ++ [slash] ++ join q = dir ++ slash :: join q := by simp
          rw [e, norm_dir_join dir q hq] at hn2
          rw [rootOf_cons] at hb' ⊢
          exact under_of_norm (dir := dir) (q := q) (by simp [Layer.segs, Path.norm_join p2 hp2, hn2]) hb'
    · -- sub-path view
      split at h
      · cases h
      · next j hj =>
        obtain ⟨q, hn, rfl, hq⟩ := reduceAbsPath_some hj
        cases h
        have e : dir ++ [slash] ++ join q = dir ++ slash :: join q := by simp
        rw [rootOf_cons] at hb' ⊢
        exact under_of_norm (dir := dir) (q := q) (by simp [Layer.segs, e, norm_dir_join dir q hq]) hb'
    · -- read-only mask
      cases h
      rw [rootOf_cons, rootOf_cons] at hb'
      simp only [newReadOnly, Layer.segs, rootPlus_nil] at hb'
      obtain ⟨b, d, hb, _, rfl⟩ := rootPlus_some hb'
      rw [rootOf_cons]
      simp only [Layer.segs, rootPlus_nil]
      exact ⟨b, hb, List.prefix_append _ _⟩
    · -- encrypted view
      simp only [Option.map_eq_some_iff] at h
      obtain ⟨ls1, h1, rfl⟩ := h
      rw [rootOf_cons] at hb' ⊢
      simp only [Layer.segs, rootPlus_nil] at hb' ⊢
      exact ih raw ls1 hlive' h1 b' hb'
    · -- cache child
      split at h
      · cases h
      · next j hj =>
        obtain ⟨q, hn, rfl, hq⟩ := reduceAbsPath_some hj
        cases h
        have e : dir ++ [slash] ++ join q = dir ++ slash :: join q := by simp
        rw [rootOf_cons] at hb' ⊢
        exact under_of_norm (dir := dir) (q := q) (by simp [Layer.segs, e, norm_dir_join dir q hq]) hb'
    · -- disk
      split at h
      · cases h
      · next j hj =>
        obtain ⟨q, hn, rfl, hq⟩ := reduceAbsPath_some hj
        split at h
        · cases h
          have hd : norm dir ≠ none := hlive ⟨.diskRoot, dir⟩ (by simp) rfl
          cases hnd : norm dir with
          | none => exact absurd hnd hd
          | some d =>
            have e : dir ++ [slash] ++ join q = dir ++ slash :: join q := by simp
            have hfull : norm (dir ++ slash :: join q) = some (d ++ q) := by
              rw [norm_dir_join dir q hq, hnd]; rfl
            rw [rootOf_cons] at hb' ⊢
            exact under_of_norm (dir := dir) (q := q)
              (by simp [newDisk, Layer.segs, norm_clean _ _ hfull, hnd]) hb'
        · cases h

/-- the disk layers of the new stack are live again (so that `openView_under` applies to views of views of views …) -/
theorem openView_disksLive {σ : Type} (B : Bottom σ) (s : σ)
    (hview : ∀ raw l, B.view s raw = some l → l.kind ≠ .diskRoot) (ls : List Layer) :
    ∀ (raw : Bytes) (ls' : List Layer), DisksLive ls → openView B s ls raw = some ls' → DisksLive ls' := by
  induction ls with
  | nil =>
    intro raw ls' _ h
    simp only [openView, Option.map_eq_some_iff] at h
    obtain ⟨l, hl, rfl⟩ := h
    intro l' hl' hk
    simp only [List.mem_singleton] at hl'
    subst hl'
    exact absurd hk (hview raw l' hl)
  | cons l ls ih =>
    intro raw ls' hlive h
    have hlive' : DisksLive ls := fun l' hl' => hlive l' (List.mem_cons_of_mem _ hl')
    have keepTail : ∀ l0 : Layer, l0.kind ≠ .diskRoot → DisksLive (l0 :: ls) := by
      intro l0 hk l' hl' hk'
      rcases List.mem_cons.mp hl' with rfl | hl'
      · exact absurd hk' hk
      · exact hlive' l' hl' hk'
    obtain ⟨kind, dir⟩ := l
    cases kind <;> simp only [openView] at h
    · split at h
      · cases h
      · simp only [Option.map_eq_some_iff] at h
        obtain ⟨l', hl', rfl⟩ := h
        unfold newWrapper at hl'
        split at hl'
        · cases hl'
        · cases hl'; exact keepTail _ (by simp)
    · split at h
      · cases h
      · cases h; exact keepTail _ (by simp)
    · cases h
      intro l' hl' hk'
      rcases List.mem_cons.mp hl' with rfl | hl'
      · simp [newReadOnly] at hk'
      · exact keepTail (newSubFS raw) (by simp [newSubFS]) l' hl' hk'
    · simp only [Option.map_eq_some_iff] at h
      obtain ⟨ls1, h1, rfl⟩ := h
      have := ih raw ls1 hlive' h1
      intro l' hl' hk'
      rcases List.mem_cons.mp hl' with rfl | hl'
      · simp at hk'
      · exact this l' hl' hk'
    · split at h
      · cases h
      · cases h; exact keepTail _ (by simp)
    · split at h
      · cases h
      · next j hj =>
        obtain ⟨q, hn, rfl, hq⟩ := reduceAbsPath_some hj
        split at h
        · cases h
          have hd : norm dir ≠ none := hlive ⟨.diskRoot, dir⟩ (by simp) rfl
          intro l' hl' hk'
          rcases List.mem_cons.mp hl' with rfl | hl'
          · cases hnd : norm dir with
            | none => exact absurd hnd hd
            | some d =>
              have e : dir ++ [slash] ++ join q = dir ++ slash :: join q := by simp
              have hfull : norm (dir ++ slash :: join q) = some (d ++ q) := by
                rw [norm_dir_join dir q hq, hnd]; rfl
              simp [newDisk, norm_clean _ _ hfull]
          · exact hlive' l' hl' hk'
        · cases h

end Views
end Goat
