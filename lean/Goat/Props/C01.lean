/-
Property C01 — the in-memory filespace behaves as an abstract file tree on every history.

  "After any sequence of filespace operations on the in-memory filespace (directly or through a
   child view), every result and the whole observable tree equal those of a plain
   tree-of-named-nodes model: a write creates missing parents and replaces content, mkdir is
   idempotent, remove deletes a file or an empty directory only, recursive remove deletes the subtree,
   copies are deep, queries agree with the tree, and no node that was never created (such as an entry
   named '.') ever appears.  Byte slices and directory listings handed in or out are snapshots."

Stated over the executable model `Goat/Model/MemFS.lean` (one function per method of
`memfs.Filespace` / `FilespaceWrapper`, raw path *bytes* in, Go control flow) and the point-wise
specification `Goat/Spec/FS.lean`.  Everything below holds for path strings of any spelling
(`Op` carries the raw bytes; the only normalisation is `Path.norm` = `ReduceAbsPath`), byte contents
of any length, histories of any length, and child views of any depth.

Vocabulary (defined in `Goat/Spec/FS.lean`, `Goat/Base/*.lean`, `Goat/Proofs/*.lean`):
  `norm raw`          `none` when the raw path climbs above the root, else its reduced segment list
  `Plain s`           `s` is none of `""`, `.`, `..`;   `Reduced q`: every segment is `Plain` and `/`-free
  `walk segs cur`     resolve a relative path by walking from directory stack `cur`
  `abs t : State`     what stands at each path of the concrete tree `t` (`Path → Option Entry`)
  `Inv t`             root is a directory, sibling names unique, every name real (`Node.WF`)
  `ViewOK ref b`      handle `ref` is the root filespace (`b = []`) or a wrapper whose base path is
                      `join b ++ "/"` with `b` reduced: a child view rooted at `b`
  `step ref t op`     the model's call of `op` through handle `ref` on tree `t`: `(t', result)`
  `FS.Step b S op r S'`   the specification of one call through a view rooted at `b`
  `FS.Run views S ops rs S'`  … of a whole history;  `World.init.run ops` the model's history
  `Keeps t t' segs`   `t'` is still a directory with unique sibling names, and any predicate true of all
                      names of `t` and of `segs` is true of all names of `t'`
  `supplied ops`      every real name occurring in the normal forms of the path arguments of `ops`

SNAPSHOT CLAUSE — section 5 below, on the heap-level model `Goat/Model/MemFSHeap.lean`.
  The value-level model cannot express aliasing (its byte strings and listings are values), so the
  clause is carried by a second model of the same Go code in which every slice is an object in a heap
  (`BufId`), the caller holds handles, and "the caller writes into something it holds" is an operation:
     `snapshot_inv`        ∀ histories, caller-held ids ∩ ids reachable from the tree = ∅, no id is
                           reachable from two tree positions, everything reachable is allocated
     `snapshot_sim`        the heap model, dereferenced, IS the value model on every history — every
                           theorem of sections 2–4 transfers to it
     `handed_out_stable`, `handed_in_stable`, `copy_shares_nothing`   the three sentences of the clause
     `snapshot_prefix_variant_false`   for the code before c1f9074 / e4e01df the invariant is false
  The tie heap model ↔ /repo is the alias-probe differential of checks/c01.py (`m_fsheap`).
-/
import Goat.Proofs.MemFSCor
import Goat.Proofs.MemFSHeapSnap
import Goat.Proofs.MemFSHeapSync

namespace Goat.C01

open Goat Goat.Path Goat.FS Goat.MemFS

/-! ### 1. Path normalisation (`varutil.ReduceAbsPath`) -/

/-- Every segment of a reduced path is a real name: never `""`, `.` or `..`, and `/`-free. -/
theorem reduce_plain (p : Bytes) (q : List Name) (h : norm p = some q) : Reduced q :=
  norm_reduced p q h

/-- `ReduceAbsPath` is exactly "walk the segments from the root": it fails iff the walk leaves the
root, and otherwise yields the directory stack reached. -/
theorem reduce_eq_walk (p : Bytes) : norm p = (walk (split p) []).map List.reverse :=
  reduceGo_eq_walk (split p) []

/-- Reducing twice is reducing once. -/
theorem reduce_idem (p r : Bytes) (h : reduceAbsPath p = some r) : reduceAbsPath r = some r :=
  Path.reduce_idem p r h

/-- The path string a child view hands down, `base/` ++ reduced argument, reduces to the
concatenation of the two segment lists: views compose by appending paths. -/
theorem reduce_append (b q : List Name) (hb : Reduced b) (hq : Reduced q) :
    norm (join b ++ slash :: join q) = some (b ++ q) :=
  norm_base_join b q hb hq

-- "/a/./../b//" reduces to ["b"];  "a/../.." climbs out
example : norm [47, 97, 47, 46, 47, 46, 46, 47, 98, 47, 47] = some [[98]] := by decide
example : norm [97, 47, 46, 46, 47, 46, 46] = none := by decide
example : Reduced [[97], [46, 46, 46]] := by
  intro s hs; simp at hs; rcases hs with rfl | rfl <;> decide
example : reduceAbsPath [47, 97, 47, 47, 98] = some [97, 47, 98] := by decide

/-! ### 2. One call refines the abstract tree -/

/-- MAIN REFINEMENT.  Any of the 16 methods, with any raw path spelling, through the root filespace
or a child view rooted at `b`, on any well-formed tree: the result and the whole abstract tree
afterwards are those the point-wise specification prescribes (the tree after the call is given by
a formula over the tree before the call). -/
theorem memfs_refines (ref : FSRef) (b : List Name) (hv : ViewOK ref b) (t : Node) (ht : Inv t) (op : Op) :
    FS.Step b (abs t) op (step ref t op).2 (abs (step ref t op).1) :=
  (step_refines ref b hv t ht op).1

/-- Well-formedness (root is a directory, sibling names unique, all names real) is preserved by
every call. -/
theorem wf_preserved (ref : FSRef) (b : List Name) (hv : ViewOK ref b) (t : Node) (ht : Inv t) (op : Op) :
    Inv (step ref t op).1 :=
  (step_refines ref b hv t ht op).2.1.inv ht (by
    intro s hs
    rcases List.mem_append.mp hs with h | h
    · exact (hv.reduced s h).1
    · exact opSegs_plain op s h)

/-- A call that answers `err` leaves the concrete tree exactly as it was (no partial effects, e.g.
no parents left behind by a refused write or copy). -/
theorem failed_call_changes_nothing (ref : FSRef) (b : List Name) (hv : ViewOK ref b) (t : Node)
    (ht : Inv t) (op : Op) (h : (step ref t op).2 = .err) : (step ref t op).1 = t :=
  (step_refines ref b hv t ht op).2.2 h

/-- Child views: a call through a wrapper with base path `join b ++ "/"` is the specification's call
at `b ++ p` — in particular it is confined to what the root filespace does at that longer path. -/
theorem view_refines (b : List Name) (hb : Reduced b) (t : Node) (ht : Inv t) (op : Op) :
    FS.Step b (abs t) op (step (.wrap (join b ++ [slash])) t op).2
      (abs (step (.wrap (join b ++ [slash])) t op).1) :=
  (step_refines (.wrap (join b ++ [slash])) b (show Reduced b ∧ join b ++ [slash] = join b ++ [slash] from ⟨hb, rfl⟩) t ht op).1

/-- Views of views, to any depth: `Filespace(raw)` through a view rooted at `b` succeeds for every
non-climbing `raw` and yields a view rooted at `b ++ norm raw`. -/
theorem view_of_view (ref : FSRef) (b : List Name) (hv : ViewOK ref b) (raw : Bytes) (q : List Name)
    (hn : norm raw = some q) : ∃ v, openView ref raw = some v ∧ ViewOK v (b ++ q) :=
  openView_some ref b hv raw q hn

/-- …and for every other `raw` it FAILS, through any handle: a spelling whose walk passes the root of the
view it is given to is refused by `Filespace` whether or not the walk would still end inside the root
filespace (`../sibling`, `work/../../sibling`, `/../sibling` from a view one or more levels down) — the
reduction is relative to the view, not to the concatenated path.  With `view_of_view` this decides
`openView` for all byte strings; `memfs_run_refines` uses both (a refused call opens no handle). -/
theorem view_escape_refused (ref : FSRef) (raw : Bytes) (hn : norm raw = none) : openView ref raw = none :=
  openView_none ref raw hn

example : Inv Node.empty := inv_empty
example : ViewOK .root [] := rfl
-- "work/../../secret" and "/../secret" climb out of any view; base ++ raw would reduce inside the root filespace
example : norm [119, 111, 114, 107, 47, 46, 46, 47, 46, 46, 47, 115] = none
    ∧ norm ([97, 47, 98, 47] ++ [119, 111, 114, 107, 47, 46, 46, 47, 46, 46, 47, 115]) = some [[97], [115]] := by decide
example : openView (.wrap [97, 47, 98, 47]) [47, 46, 46, 47, 115] = none := by decide
example : ViewOK (.wrap [97, 47, 98, 47]) [[97], [98]] :=
  ⟨by intro s hs; simp at hs; rcases hs with rfl | rfl <;> decide, by decide⟩
-- from the view rooted at a/b: "c/./d/.." opens the view rooted at a/b/c, "../c" is refused
example : openView (.wrap [97, 47, 98, 47]) [99, 47, 46, 47, 100, 47, 46, 46]
    = some (.wrap [97, 47, 98, 47, 99, 47]) := by decide
example : openView (.wrap [97, 47, 98, 47]) [46, 46, 47, 99] = none := by decide

/-! ### 3. Every history -/

/-- ALL HISTORIES.  For every finite sequence of calls, each through any handle opened so far
(handle 0 = the root filespace, further handles = child views opened by earlier `Filespace` calls,
at any depth), the results produced by the model and the final tree are a run of the
specification from the empty filespace; and the final tree is well formed. -/
theorem memfs_run_refines (ops : List (Nat × Op)) :
    FS.Run [[]] State.empty ops (World.init.run ops).2 (abs (World.init.run ops).1.root)
    ∧ Inv (World.init.run ops).1.root := by
  have h := run_refines_from World.init worldOK_init ops
  have e : World.init.views.map baseOf = [[]] := rfl
  rw [e, show World.init.root = Node.empty from rfl, abs_empty] at h
  exact ⟨h.1, h.2.inv⟩

/-- The same from any reachable world (any tree satisfying the invariant, any set of open views). -/
theorem memfs_run_refines_from (w : World) (hw : WorldOK w) (ops : List (Nat × Op)) :
    FS.Run (w.views.map baseOf) (abs w.root) ops (w.run ops).2 (abs (w.run ops).1.root)
    ∧ WorldOK (w.run ops).1 :=
  run_refines_from w hw ops

-- write "a/b" through the root, open the view "a", read "./b" through it, remove "b", look again
example :
    (World.init.run [(0, .writeFile [97, 47, 98] [1, 2]), (0, .filespace [97]),
        (1, .readFile [46, 47, 98]), (1, .remove [98]), (0, .isExist [97, 47, 98]),
        (1, .remove []), (0, .readDir [])]).2
      = [.ok, .ok, .data [1, 2], .ok, .bool false, .err, .list [([97], true)]] := by decide

/-- SNAPSHOT CLAUSE, value-level part only.  In the value model every result handed out is a value:
whatever a history has answered is left unchanged by any continuation of the history.  The value model
has no heap, so it cannot say that a Go slice returned by `ReadFile`/`ReadDir` (or passed to
`WriteFile`) is not aliased by the tree; that is proved on the heap-level model in section 5
(`snapshot_inv`, `snapshot_sim`, `handed_out_stable`, `handed_in_stable`, `copy_shares_nothing`). -/
theorem snapshot_partial (w : World) (ops more : List (Nat × Op)) :
    (w.run (ops ++ more)).2 = (w.run ops).2 ++ ((w.run ops).1.run more).2 :=
  (run_append w ops more).1

example :
    (World.init.run ([(0, .writeFile [97] [1]), (0, .readFile [97])] ++ [(0, .writeFile [97] [2])])).2
      = [.ok, .data [1]] ++ [.ok] := by decide

/-! ### 4. The sentences of the property -/

-- the hypotheses used below are satisfiable by non-trivial values: a view rooted at `a`, an oddly
-- spelled path `./b//c`, a non-empty tree
example : norm [46, 47, 98, 47, 47, 99] = some [[98], [99]] := by decide
example : (step (.wrap [97, 47]) Node.empty (.writeFile [46, 47, 98, 47, 47, 99] [7])).2 = .ok := by decide
example : (step .root Node.empty (.mkdirAll [97, 47, 98])).2 = .ok := by decide
example :
    (step .root (step .root Node.empty (.writeFile [97, 47, 98] [1])).1 (.copy [97] [99, 47, 100])).2 = .ok := by
  decide
example :
    (step .root (step .root Node.empty (.writeFile [97, 47, 98] [1])).1 (.removeAll [47, 97, 47])).2 = .ok := by
  decide
example :
    (step (.wrap [97, 47]) (step .root Node.empty (.writeFile [97, 47, 98] [1])).1 (.remove [98])).2 = .ok := by
  decide

/-- "A write creates missing parents": after a successful `WriteFile` (any spelling, any handle)
the path holds exactly the data and every proper prefix of it is a directory. -/
theorem write_creates_parents (ref : FSRef) (b : List Name) (hv : ViewOK ref b) (t : Node) (ht : Inv t)
    (raw data : Bytes) (p : List Name) (hn : norm raw = some p)
    (hok : (step ref t (.writeFile raw data)).2 = .ok) :
    abs (step ref t (.writeFile raw data)).1 (b ++ p) = some (.file data)
    ∧ ∀ q, q <+: b ++ p → q ≠ b ++ p → abs (step ref t (.writeFile raw data)).1 q = some .dir := by
  rw [write_post ref b hv t ht raw data p hn hok]
  exact ⟨writeSt_at _ _ _, fun q h1 h2 => writeSt_parent _ _ q _ h1 h2⟩

/-- "… and replaces content": whatever stood at the path, afterwards it is the new data, and no path
other than the written one and its prefixes changes. -/
theorem write_replaces (ref : FSRef) (b : List Name) (hv : ViewOK ref b) (t : Node) (ht : Inv t)
    (raw data : Bytes) (p : List Name) (hn : norm raw = some p)
    (hok : (step ref t (.writeFile raw data)).2 = .ok) :
    abs (step ref t (.writeFile raw data)).1 (b ++ p) = some (.file data)
    ∧ ∀ q, ¬ q <+: b ++ p → abs (step ref t (.writeFile raw data)).1 q = abs t q := by
  rw [write_post ref b hv t ht raw data p hn hok]
  exact ⟨writeSt_at _ _ _, fun q h => writeSt_frame _ _ q _ h⟩

/-- A write succeeds exactly when the path is not the root, no node on the way is a file and the
path is not a directory. -/
theorem write_ok_iff (ref : FSRef) (b : List Name) (hv : ViewOK ref b) (t : Node) (ht : Inv t)
    (raw data : Bytes) (p : List Name) (hn : norm raw = some p) :
    (step ref t (.writeFile raw data)).2 = .ok ↔ FS.writeOk (abs t) (b ++ p) := by
  have := memfs_refines ref b hv t ht (.writeFile raw data)
  simp only [FS.Step, hn] at this
  exact mut_ok_iff this

/-- Streams: a `Writer` that is opened, fed any chunks and closed is a `WriteFile` of their
concatenation (it truncates; old content never survives) — same verdict, same tree. -/
theorem writer_exact (ref : FSRef) (b : List Name) (hv : ViewOK ref b) (t : Node) (ht : Inv t)
    (raw : Bytes) (chunks : List Bytes) :
    (step ref t (.writer raw chunks)).2 = (step ref t (.writeFile raw chunks.flatten)).2
    ∧ abs (step ref t (.writer raw chunks)).1 = abs (step ref t (.writeFile raw chunks.flatten)).1 :=
  writer_eq_write ref b hv t ht raw chunks

/-- "mkdir is idempotent": a `MkdirAll` that succeeded succeeds again and changes nothing. -/
theorem mkdir_idempotent (ref : FSRef) (b : List Name) (hv : ViewOK ref b) (t : Node) (ht : Inv t)
    (raw : Bytes) (hok : (step ref t (.mkdirAll raw)).2 = .ok) :
    (step ref (step ref t (.mkdirAll raw)).1 (.mkdirAll raw)).2 = .ok
    ∧ abs (step ref (step ref t (.mkdirAll raw)).1 (.mkdirAll raw)).1 = abs (step ref t (.mkdirAll raw)).1 :=
  mkdir_twice ref b hv t ht raw hok

/-- "remove deletes a file or an empty directory only": `Remove` succeeds exactly when the path is
not the (view's) root and holds a file or a directory without children; then that one path
disappears and every other path keeps its entry; otherwise the tree is untouched. -/
theorem remove_only_file_or_empty_dir (ref : FSRef) (b : List Name) (hv : ViewOK ref b) (t : Node)
    (ht : Inv t) (raw : Bytes) (p : List Name) (hn : norm raw = some p) :
    ((step ref t (.remove raw)).2 = .ok ↔
        p ≠ [] ∧ ((∃ d, abs t (b ++ p) = some (.file d))
                  ∨ (abs t (b ++ p) = some .dir ∧ ∀ n, abs t (b ++ p ++ [n]) = none)))
    ∧ ((step ref t (.remove raw)).2 = .ok →
        ∀ q, abs (step ref t (.remove raw)).1 q = if q = b ++ p then none else abs t q)
    ∧ ((step ref t (.remove raw)).2 ≠ .ok → (step ref t (.remove raw)).1 = t) := by
  obtain ⟨h1, h2, h3⟩ := remove_spec ref b hv t ht raw p hn
  refine ⟨?_, fun hok q => by rw [h2 hok]; rfl, h3⟩
  rw [h1]
  simp only [FS.removeOk]
  constructor
  · rintro ⟨a, _, c⟩; exact ⟨a, c⟩
  · rintro ⟨a, c⟩; exact ⟨a, by simp [a], c⟩

/-- "recursive remove deletes the subtree": `RemoveAll` succeeds exactly on an existing path other
than the (view's) root; then every path at or below it is gone and every other path keeps its entry. -/
theorem removeAll_subtree (ref : FSRef) (b : List Name) (hv : ViewOK ref b) (t : Node) (ht : Inv t)
    (raw : Bytes) (p : List Name) (hn : norm raw = some p) :
    ((step ref t (.removeAll raw)).2 = .ok ↔ p ≠ [] ∧ abs t (b ++ p) ≠ none)
    ∧ ((step ref t (.removeAll raw)).2 = .ok →
        ∀ q, abs (step ref t (.removeAll raw)).1 q = if b ++ p <+: q then none else abs t q)
    ∧ ((step ref t (.removeAll raw)).2 ≠ .ok → (step ref t (.removeAll raw)).1 = t) := by
  obtain ⟨h1, h2, h3⟩ := removeAll_spec ref b hv t ht raw p hn
  refine ⟨?_, fun hok q => by rw [h2 hok]; rfl, h3⟩
  rw [h1]
  simp only [FS.removeAllOk]
  constructor
  · rintro ⟨a, _, c⟩; exact ⟨a, c⟩
  · rintro ⟨a, c⟩; exact ⟨a, by simp [a], c⟩

/-- "copies are deep" (1): after a successful `Copy` of `s` to `d`, what stands at `d ++ r` is what
stood at `s ++ r`, for every `r` (when the source is not an ancestor of the destination; in general it
is the source as it is once the destination's missing parents exist), and nothing outside `d` and
its prefixes changes. -/
theorem copy_deep (ref : FSRef) (b : List Name) (hv : ViewOK ref b) (t : Node) (ht : Inv t)
    (rs rd : Bytes) (s d : List Name) (hs : norm rs = some s) (hd : norm rd = some d)
    (hok : (step ref t (.copy rs rd)).2 = .ok) :
    (∀ r, abs (step ref t (.copy rs rd)).1 (b ++ d ++ r)
            = FS.mkdirSt (abs t) (b ++ d).dropLast (b ++ s ++ r))
    ∧ (¬ (b ++ s) <+: (b ++ d) →
        ∀ r, abs (step ref t (.copy rs rd)).1 (b ++ d ++ r) = abs t (b ++ s ++ r))
    ∧ (∀ q, ¬ (b ++ d) <+: q → ¬ q <+: (b ++ d) → abs (step ref t (.copy rs rd)).1 q = abs t q) := by
  rw [(copy_spec ref b hv t ht rs rd s d hs hd).2 hok]
  exact ⟨fun r => copySt_under _ _ _ r, fun h r => copySt_under_plain _ _ _ r h,
    fun q h1 h2 => copySt_outside _ _ _ q h1 h2⟩

/-- "copies are deep" (2): the copy shares nothing with its source.  After the copy, a later write
anywhere outside `d` — in particular under the source `s` — changes nothing at or below `d`. -/
theorem copy_independent (ref : FSRef) (b : List Name) (hv : ViewOK ref b) (t' : Node) (ht' : Inv t')
    (raw data : Bytes) (w d r : List Name) (hn : norm raw = some w)
    (hok : (step ref t' (.writeFile raw data)).2 = .ok) (hout : ¬ d <+: b ++ w) :
    abs (step ref t' (.writeFile raw data)).1 (d ++ r) = abs t' (d ++ r) := by
  rw [write_post ref b hv t' ht' raw data w hn hok]
  exact writeSt_frame _ _ _ _ (fun hp => hout ((List.prefix_append d r).trans hp))

/-- `Copy` succeeds exactly when the destination is not the root, the source exists, no node on the
way to the destination is a file and the destination does not exist. -/
theorem copy_ok_iff (ref : FSRef) (b : List Name) (hv : ViewOK ref b) (t : Node) (ht : Inv t)
    (rs rd : Bytes) (s d : List Name) (hs : norm rs = some s) (hd : norm rd = some d) :
    (step ref t (.copy rs rd)).2 = .ok ↔ FS.copyOk .any (abs t) (b ++ s) (b ++ d) :=
  (copy_spec ref b hv t ht rs rd s d hs hd).1

/-- "queries agree with the tree": the seven read-type methods (and `Filespace`) never change the
tree; existence, file content and directory listings are those of the abstract tree (a listing is
duplicate-free and contains exactly the children with their kinds).  The remaining answers
(`IsFile`, `IsDir`, `Lstat`, `Reader`) are the clauses of `FS.Step` in `memfs_refines`. -/
theorem queries_agree (ref : FSRef) (b : List Name) (hv : ViewOK ref b) (t : Node) (ht : Inv t)
    (raw : Bytes) (p : List Name) (hn : norm raw = some p) :
    (∀ op, isQuery op = true → (step ref t op).1 = t)
    ∧ (step ref t (.isExist raw)).2 = .bool (abs t (b ++ p)).isSome
    ∧ (∀ d, abs t (b ++ p) = some (.file d) → (step ref t (.readFile raw)).2 = .data d)
    ∧ ((∀ d, abs t (b ++ p) ≠ some (.file d)) → (step ref t (.readFile raw)).2 = .err)
    ∧ (abs t (b ++ p) = some .dir →
        ∃ l, (step ref t (.readDir raw)).2 = .list l ∧ FS.IsListing (abs t) (b ++ p) l) :=
  ⟨fun op h => query_unchanged ref t op h, isExist_agrees ref b hv t ht raw p hn,
   fun d h => readFile_agrees ref b hv t ht raw p hn d h,
   fun h => readFile_fails ref b hv t ht raw p hn h,
   fun h => readDir_agrees ref b hv t ht raw p hn h⟩

/-- Read-after-write across spellings and handles: what any `WriteFile` stored is what a `ReadFile`
of any spelling of the same path returns, through any other handle that reaches that path. -/
theorem read_after_write (ref ref' : FSRef) (b b' : List Name) (hv : ViewOK ref b) (hv' : ViewOK ref' b')
    (t : Node) (ht : Inv t) (raw raw' data : Bytes) (p p' : List Name)
    (hn : norm raw = some p) (hn' : norm raw' = some p') (hsame : b ++ p = b' ++ p')
    (hok : (step ref t (.writeFile raw data)).2 = .ok) :
    (step ref' (step ref t (.writeFile raw data)).1 (.readFile raw')).2 = .data data := by
  have ht1 := wf_preserved ref b hv t ht (.writeFile raw data)
  apply readFile_agrees ref' b' hv' _ ht1 raw' p' hn'
  rw [← hsame]
  exact (write_creates_parents ref b hv t ht raw data p hn hok).1

/-- A path that climbs above the root of the handle it is given to is refused and has no effect. -/
theorem climbing_path_refused (ref : FSRef) (b : List Name) (hv : ViewOK ref b) (t : Node) (ht : Inv t)
    (raw data : Bytes) (hn : norm raw = none) :
    step ref t (.writeFile raw data) = (t, .err) ∧ (step ref t (.readFile raw)).2 = .err
    ∧ (step ref t (.isExist raw)).2 = .bool false :=
  climbing_refused ref b hv t ht raw data hn

/-- "No node that was never created ever appears": after any history, every segment of every
existing path is a real name (never `""`, `.`, `..`) that stands literally between two `/` in a
path argument of some call of the history. -/
theorem no_phantom (ops : List (Nat × Op)) (q : List Name)
    (h : abs (World.init.run ops).1.root q ≠ none) :
    ∀ s ∈ q, Plain s ∧ ∃ x ∈ ops, ∃ raw ∈ opPaths x.2, s ∈ split raw :=
  fun s hs => supplied_literal ops s (no_phantom_run ops q h s hs)

-- MkdirAll("."), WriteFile("a/../."), MkdirAll("./x/..") leave the tree empty (no node `.`)
example :
    (World.init.run [(0, .mkdirAll [46]), (0, .writeFile [97, 47, 46, 46, 47, 46] [1]),
        (0, .mkdirAll [46, 47, 120, 47, 46, 46]), (0, .readDir [])]).2
      = [.ok, .err, .ok, .list []] := by decide
-- remove: non-empty directory refused, file accepted, then the emptied directory accepted
example :
    (World.init.run [(0, .writeFile [97, 47, 98] []), (0, .remove [97]), (0, .remove [97, 47, 98]),
        (0, .remove [97]), (0, .remove [97])]).2 = [.ok, .err, .ok, .ok, .err] := by decide
-- copy a → c is deep: a later write under a is not seen under c
example :
    (World.init.run [(0, .writeFile [97, 47, 98] [1]), (0, .copy [97] [99]),
        (0, .writeFile [97, 47, 98] [2]), (0, .readFile [99, 47, 98]), (0, .readFile [97, 47, 98])]).2
      = [.ok, .ok, .ok, .data [1], .data [2]] := by decide
-- a Writer truncates: "hello" then a writer with chunks "a","b" leaves "ab"
example :
    (World.init.run [(0, .writeFile [102] [104, 101, 108, 108, 111]), (0, .writer [102] [[97], [98]]),
        (0, .readFile [102])]).2 = [.ok, .ok, .data [97, 98]] := by decide

/-! ### 5. The snapshot clause, on the heap-level model

`Goat/Model/MemFSHeap.lean` mirrors the same Go code one level lower: every `[]byte` and every
`[]os.FileInfo` is an object in a heap (`BufId`), a file node holds the id of its data array, a
directory node the id of its node array, the caller holds `Handle`s (buffers it made and handed in,
slices it was handed out) and can write through them (`HOp.mutate`) at any point of a history.
`cfg.old = false` selects the code as it is now (copies at `WriteFile`, `ReadFile`, `ReadDir`, `copyFile`);
`cfg.realloc` is Go's unspecified `append` growth policy — every theorem holds for every policy.

Vocabulary (`Goat/Model/MemFSHeap.lean`, `Goat/Proofs/MemFSHeap*.lean`):
  `HWorld.run cfg w ops`   a history of `HOp`s: filespace calls through any open handle (`.call n c`, byte
                           arguments are ids of caller buffers), `.alloc`, `.mutate`, `.keep`, `.recheck`
  `Sep w`                  ∀ held handle, its id ∉ `w.root.ids`;  `w.root.ids.Nodup`;  every id of the tree
                           and of a held handle is allocated;  held handles have pairwise different ids
  `deref w`                the value-level `World`: every id replaced by its content
  `traceOps`, `callResults`  the value-level history a heap-level history induces, and its results
  `view h hd`              what the caller sees through handle `hd` in heap `h`
  `applyOwn hd ops v`      `v` with the caller's own `mutate`s through `hd` applied, nothing else -/

section Snapshot
open Goat.MemFSHeap

/-- SNAPSHOT INVARIANT, all histories: after any sequence of filespace calls (16 methods, any handle,
any spelling), caller allocations and caller writes into anything the caller holds, no buffer or
listing held by the caller is reachable from the tree, no object is reachable from two positions of
the tree, and everything reachable is allocated. -/
theorem snapshot_inv (cfg : Cfg) (hc : cfg.old = false) (ops : List HOp) : Sep (HWorld.init.run cfg ops).1 :=
  sep_run cfg hc _ sep_init ops

/-- the invariant is inductive: it is kept by every single step from any world that has it -/
theorem snapshot_inv_step (cfg : Cfg) (hc : cfg.old = false) (w : HWorld) (hs : Sep w) (op : HOp) :
    Sep (w.step cfg op).1 :=
  sep_step cfg hc w hs op

/-- SIMULATION, all histories: dereferenced, the heap model is the value model — same tree, same open
handles, same results of all calls — where a `WriteFile`/`Write` passes the bytes its buffer holds at the
time of the call and every caller-side step is invisible.  Hence `memfs_run_refines` and every sentence
of section 4 hold of the heap model. -/
theorem snapshot_sim (cfg : Cfg) (hc : cfg.old = false) (ops : List HOp) :
    deref (HWorld.init.run cfg ops).1 = (World.init.run (traceOps cfg HWorld.init ops)).1
    ∧ callResults cfg HWorld.init ops = (World.init.run (traceOps cfg HWorld.init ops)).2 := by
  have h := sim_run cfg hc _ sep_init ops
  rwa [deref_init] at h

/-- … and therefore refines the abstract tree: the specification's run on the induced history -/
theorem snapshot_refines (cfg : Cfg) (hc : cfg.old = false) (ops : List HOp) :
    FS.Run [[]] State.empty (traceOps cfg HWorld.init ops) (callResults cfg HWorld.init ops)
      (abs (deref (HWorld.init.run cfg ops).1).root) := by
  rw [(snapshot_sim cfg hc ops).1, (snapshot_sim cfg hc ops).2]
  exact (memfs_run_refines _).1

/-- "a later operation on the tree does not change a buffer or listing the caller already holds":
whatever the caller holds after a history `pre` (handed out by `ReadFile`/`ReadDir`/`Read`, or made by
itself and handed in), what it sees through it after any further history `post` is what it saw, changed
only by its own `mutate`s through that handle — never by a filespace call. -/
theorem handed_out_stable (cfg : Cfg) (hc : cfg.old = false) (pre post : List HOp) (hd : Handle)
    (hh : hd ∈ (HWorld.init.run cfg pre).1.held) :
    view (HWorld.init.run cfg (pre ++ post)).1.heap hd
      = applyOwn hd post (view (HWorld.init.run cfg pre).1.heap hd) := by
  rw [(MemFSHeap.run_append cfg _ pre post).1]
  exact MemFSHeap.handed_out_stable cfg hc _ (snapshot_inv cfg hc pre) hd hh post

/-- what a call hands out is held from then on (so `handed_out_stable` applies to it) … -/
theorem handed_out_is_held (cfg : Cfg) (w : HWorld) (n : Nat) (c : HCall) :
    ∀ hd ∈ outHandles c (w.step cfg (.call n c)).2, hd ∈ (w.step cfg (.call n c)).1.held :=
  handed_out_held cfg w n c

/-- … and what `ReadFile` / `ReadDir` hand out shows exactly what they answered -/
theorem handed_out_shows_result (cfg : Cfg) (hc : cfg.old = false) (w : HWorld) (n : Nat) (p : Bytes) :
    (∀ hd ∈ outHandles (.readFile p) (w.step cfg (.call n (.readFile p))).2,
      view (w.step cfg (.call n (.readFile p))).1.heap hd = (w.step cfg (.call n (.readFile p))).2.res)
    ∧ (∀ hd ∈ outHandles (.readDir p) (w.step cfg (.call n (.readDir p))).2,
      view (w.step cfg (.call n (.readDir p))).1.heap hd = (w.step cfg (.call n (.readDir p))).2.res) :=
  ⟨MemFSHeap.handed_out_shows_result cfg hc w n _ (Or.inl ⟨p, rfl⟩),
   MemFSHeap.handed_out_shows_result cfg hc w n _ (Or.inr ⟨p, rfl⟩)⟩

/-- the node arrays are in step with the tree on every history: the directory `ReadDir` finds holds
exactly its entries in the first `len` places of its array (which `removeNodeByName` shifts in place and
`append` overwrites or reallocates) — the copy of `k.entries` the model's `ReadDir` hands out is the copy
of `d.nodes[:len]` the Go code makes. -/
theorem listing_sync (cfg : Cfg) (hc : cfg.old = false) (ops : List HOp) (p : Bytes) (l : BufId) (k : HKids)
    (hg : getDirByPath (HWorld.init.run cfg ops).1.root p = some (l, k)) :
    ((HWorld.init.run cfg ops).1.heap.lists l).take k.length = k.entries :=
  readDir_reads_array cfg hc ops p l k hg

/-- "a later mutation of the caller's buffer does not change the tree": after a successful
`WriteFile(raw, id)`, any sequence of caller-side steps (writes into `id` included) leaves
`ReadFile(raw)` = the bytes `id` held at the time of the call. -/
theorem handed_in_stable (cfg : Cfg) (hc : cfg.old = false) (pre : List HOp) (n : Nat) (raw : Bytes)
    (id : BufId) (hh : Handle.buf id ∈ (HWorld.init.run cfg pre).1.held) (muts : List HOp)
    (hm : ∀ op ∈ muts, op.isCaller = true)
    (hok : ((HWorld.init.run cfg pre).1.step cfg (.call n (.writeFile raw id))).2.res = .ok) :
    ((((HWorld.init.run cfg pre).1.step cfg (.call n (.writeFile raw id))).1.run cfg muts).1.step cfg
        (.call n (.readFile raw))).2.res
      = .data ((HWorld.init.run cfg pre).1.heap.bytes id) :=
  handed_in_stable_init cfg hc pre n raw id hh muts hm hok

/-- more generally no caller-side step is visible in the value-level world at all -/
theorem caller_steps_invisible (cfg : Cfg) (hc : cfg.old = false) (pre muts : List HOp)
    (hm : ∀ op ∈ muts, op.isCaller = true) :
    deref (HWorld.init.run cfg (pre ++ muts)).1 = deref (HWorld.init.run cfg pre).1 := by
  rw [(MemFSHeap.run_append cfg _ pre muts).1]
  exact caller_run_deref cfg hc _ (snapshot_inv cfg hc pre) muts hm

/-- "two nodes never share mutable storage", in particular source and destination of a copy: after
any history followed by a `Copy`/`CopyFile`/`CopyDirectory` (or any other call) the nodes at or below `s`
and the nodes at or below `d` have no heap object in common, for any two paths neither of which is a
prefix of the other. -/
theorem copy_shares_nothing (cfg : Cfg) (hc : cfg.old = false) (ops : List HOp) (n : Nat) (c : HCall)
    (s d r₁ r₂ : List Name) (a b : HNode) (h1 : ¬ s <+: d) (h2 : ¬ d <+: s)
    (ha : ((HWorld.init.run cfg ops).1.step cfg (.call n c)).1.root.lookup (s ++ r₁) = some a)
    (hb : ((HWorld.init.run cfg ops).1.step cfg (.call n c)).1.root.lookup (d ++ r₂) = some b) :
    ∀ id ∈ a.ids, id ∉ b.ids :=
  nodes_share_nothing _ (snapshot_inv_step cfg hc _ (snapshot_inv cfg hc ops) (.call n c)) _ _ a b ha hb
    (incomparable_append s d r₁ r₂ h1 h2) (incomparable_append d s r₂ r₁ h2 h1)

/-- THE PRE-FIX CODE (before c1f9074 "memfs copies file data on the way in and out" and e4e01df "ReadDir
returns a snapshot") does not have the invariant: without `cfg.old = false` the statement of
`snapshot_inv` is false, with the documented symptoms as witnesses — the file reads `Xello` after the
caller overwrote the buffer it had passed to `WriteFile`, `XYllo` after it overwrote the slice `ReadFile`
returned; a held listing `a b c` reads `b c c` after `Remove("a")`. -/
theorem snapshot_prefix_variant_false :
    (¬ ∀ (cfg : Cfg) (ops : List HOp), Sep (HWorld.init.run cfg ops).1)
    ∧ (HWorld.init.run Cfg.preFix aliasDataOps).2.map (·.res)
        = [.ok, .ok, .ok, .data [88, 101, 108, 108, 111], .ok, .data [88, 89, 108, 108, 111]]
    ∧ ((HWorld.init.run Cfg.preFix aliasListOps).2.map (·.res)).getLast?
        = some (.list [([98], false), ([99], false), ([99], false)]) :=
  ⟨fun h => prefix_variant_data.2 (h Cfg.preFix aliasDataOps), prefix_variant_data.1,
   by rw [prefix_variant_listing.1]; rfl⟩

-- non-vacuity: the repaired code (`Cfg.fixed`, doubling growth policy) on the two histories of the
-- corpus (02-data-alias, 03-listing-alias) with keep/mutate/recheck:
--   alloc "hello" (buffer 1); WriteFile("f", 1); buf1[0]='X'; ReadFile("f") = "hello" (handed out: 4);
--   buf4[1]='Y'; ReadFile("f") = "hello"; recheck 1 = "Xello"; recheck 4 = "hYllo"
example : (HWorld.init.run Cfg.fixed fixedDataOps).2.map (·.res)
    = [.ok, .ok, .ok, .data [104, 101, 108, 108, 111], .ok, .data [104, 101, 108, 108, 111],
       .data [88, 101, 108, 108, 111], .data [104, 89, 108, 108, 111]] := fixed_variant_histories.1
--   files a b c; ReadDir("") = a b c (handed out: listing 10, length 3); Remove("a");
--   recheck = a b c; ReadDir("") = b c
example : (HWorld.init.run Cfg.fixed fixedListOps).2.map (·.res)
    = [.ok, .ok, .ok, .ok, .ok, .ok, .list [([97], false), ([98], false), ([99], false)], .ok,
       .list [([97], false), ([98], false), ([99], false)], .list [([98], false), ([99], false)]] :=
  fixed_variant_histories.2
-- the hypotheses of `handed_out_stable` / `handed_in_stable` are satisfiable: buffer 1 and slice 4 are held
example : Handle.buf 1 ∈ (HWorld.init.run Cfg.fixed (fixedDataOps.take 1)).1.held
    ∧ Handle.buf 4 ∈ (HWorld.init.run Cfg.fixed (fixedDataOps.take 4)).1.held
    ∧ ((HWorld.init.run Cfg.fixed (fixedDataOps.take 1)).1.step Cfg.fixed (.call 0 (.writeFile [102] 1))).2.res = .ok := by
  decide
-- `applyOwn` is the caller's own writes: through slice 4, the rest of the data history is one write
example : applyOwn (.buf 4) (fixedDataOps.drop 4) (.data [104, 101, 108, 108, 111])
    = .data [104, 89, 108, 108, 111] := by decide
-- `copy_shares_nothing`: a/x copied to c — source [a] and destination [c] both exist, ids 2|3|… differ
example :
    let w := (HWorld.init.run Cfg.fixed [.alloc [1], .call 0 (.writeFile [97, 47, 120] 1), .call 0 (.copy [97] [99])]).1
    (w.root.lookup [[97]]).isSome ∧ (w.root.lookup [[99], [120]]).isSome ∧ ¬ [[97]] <+: [[99]] := by decide
-- `listing_sync`: after the listing history (three adds, one in-place removal) the root directory is found
example : (getDirByPath (HWorld.init.run Cfg.fixed fixedListOps).1.root []).isSome := by decide
-- the invariant itself on a concrete world, and its failure for the pre-fix code
example : Sep (HWorld.init.run Cfg.fixed fixedDataOps).1 := snapshot_inv Cfg.fixed rfl _
example : ¬ Sep (HWorld.init.run Cfg.preFix aliasDataOps).1 := prefix_variant_data.2

end Snapshot

end Goat.C01
