/- placeholder while the proofs are being written (replaced by the real property theorems) -/
import Goat.Model.MemFS

namespace Goat.C01
open Goat Goat.MemFS

theorem init_empty : World.init.root = Node.empty := rfl

end Goat.C01
