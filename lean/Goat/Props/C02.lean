/-
Property C02 — the disk filespace obeys the same contract as the in-memory one.

  "On every history of operations whose preconditions are met (source exists, destination parent exists,
   destination of a copy is absent), a disk filespace rooted in a directory returns the same results and
   ends with the same tree as the in-memory filespace, so code written against the Filespace interface may
   switch backend.  Outside those preconditions both backends must still fail cleanly: no panic and no
   change outside the addressed paths."

Stated over the executable model `Goat/Model/DiskFS.lean` — every method of `diskfs.Filespace` =
`ReduceAbsPath` (`Path.norm`) + the host calls it makes, `diskfs.WriteFile`, `Writer`,
`disk.Copy/CopyDirectory/CopyFile` step by step, over an explicit POSIX-like host (`Host`, a flat map from
absolute host paths to `file bytes | dir` with the failure conditions of the system calls used) — the
memory model `Goat/Model/MemFS.lean` of C01 and the point-wise specification `Goat/Spec/FS.lean`.
Everything below holds for raw path strings of any spelling, contents of any length, histories of any
length, child views of any depth, and any well-formed host around the root directory.

PARTIAL (what is assumed, not proved): that the Linux file system behaves like `Host`, and that the Go
code behaves like the two models.  Both are validated on every run by the differential of checks/c02.py.

Vocabulary (`Goat/Proofs/DiskFSDefs.lean`, `DiskFSRun.lean`, `DiskFSFrame.lean`, `DiskFSConfine.lean`):
  `Host.WF H`          one binding per path and the parent of every bound path is a directory
  `H.get p`            what stands at host path `p` (`/` is a directory)
  `step r H op`        the model's call of `op` through the disk filespace rooted at host path `r`:
                       `(host afterwards, Out.val result | Out.panic)`
  `World.init H r`, `World.run`   histories over the filespace and the views opened from it
  `Pre b S op`         THE PRECONDITION of the property, per method (see its definition): the filespace's
                       directory exists; Writer: the parent exists; RemoveAll: the path exists; Reader: not a
                       directory; Filespace: a directory; CopyFile / Copy of a file: parent exists and
                       destination absent; CopyDirectory / Copy of a directory: destination absent; Lstat:
                       not the root filespace's own root.  Calls with a climbing path are inside `Pre`.
  `AllPre w ops`       every call of the history is inside `Pre` in the state in which it is made
  `ResEq`              equal results; listings up to order (ReadDir as a set); Readers by the bytes each
                       Read delivered (io.EOF may come with the last bytes or with the next, empty Read)
  `AllAgree rs os`     the memory results `rs` and the disk outcomes `os` agree call by call, no panic
  `S.below r`          the tree `S` seen from `r`
  `Tolerated`          the five classes of calls outside `Pre` which the disk filespace carries out
  `opArgs r op`, `Addressed`, `Above`   the normalised arguments of a call; at or below one; strictly above one
-/
import Goat.Proofs.DiskFSConfine

namespace Goat.C02

open Goat Goat.Path Goat.FS Goat.DiskFS

/-! ### 1. One call inside the precondition -/

/-- DISK REFINES THE SPECIFICATION INSIDE `Pre`.  Any of the 16 methods, any spelling of its path
arguments, through a disk filespace rooted at host path `r` on any well-formed host: the call does not
panic, and its result and the whole host tree afterwards are those the point-wise specification `FS.Step`
prescribes for a filespace rooted at `r` (listings as sets: `FS.Step` specifies them so; a Reader's chunks
up to EOF timing: `ResEq`). -/
theorem disk_refines_pre (r : HPath) (H : Host) (hwf : H.WF) (op : Op) (hpre : Pre r H.get op) :
    ∃ res res', (step r H op).2 = .val res ∧ ResEq res' res ∧ FS.Step r H.get op res' (step r H op).1.get :=
  (step_pre r H hwf op hpre).2

/-- … and the host stays well formed, after every call whatsoever. -/
theorem disk_wf_preserved (r : HPath) (H : Host) (hwf : H.WF) (op : Op) : (step r H op).1.WF :=
  (step_clean r H hwf op).1

/-- The same seen from inside: a disk filespace rooted at `r0`, a view of it rooted at `b` (`[]` for the
filespace itself) — the call is the specification's call through base `b` on the tree seen from `r0`,
exactly the statement `C01.memfs_refines` makes about the memory filespace and its views. -/
theorem disk_view_refines_pre (r0 b : HPath) (H : Host) (hwf : H.WF) (op : Op)
    (hpre : Pre b (State.below H.get r0) op) :
    ∃ res res', (step (r0 ++ b) H op).2 = .val res ∧ ResEq res' res
      ∧ FS.Step b (State.below H.get r0) op res' (State.below (step (r0 ++ b) H op).1.get r0) := by
  have hroot : H.get r0 = some .dir := by
    have hT := Host.wf_treeLike hwf
    have hb : H.get (r0 ++ b) = some .dir := hpre.1
    by_cases he : b = []
    · subst he; simpa using hb
    · exact hT.anc_dir r0 b he (by simp [hb])
  obtain ⟨_, res, res', h1, h2, h3⟩ := step_pre (r0 ++ b) H hwf op (pre_host r0 b H.get op hpre)
  exact ⟨res, res', h1, h2, FS.Step_rebase r0 b _ _ op res' (Host.wf_treeLike hwf) hroot (pre_lstat hpre) h3⟩

-- the hypotheses are satisfiable: the host the drivers use (root/ empty, sentinels next to it) is well formed,
-- `Pre` holds of non-trivial calls, and the model answers them
example : demoHost.WF := by decide
example : Pre demoRoot demoHost.get (.writeFile [47, 97, 47, 46, 47, 98] [1, 2]) := by decide
example : Pre demoRoot (step demoRoot demoHost (.writeFile [97, 47, 98] [1, 2])).1.get (.copy [97] [97, 47, 99, 47, 100]) := by
  decide
example : (step demoRoot (step demoRoot demoHost (.writeFile [97, 47, 98] [1, 2])).1 (.copy [97] [97, 47, 99, 47, 100])).2
    = .val .ok := by decide
example : ¬ Pre demoRoot demoHost.get (.writer [97, 47, 98] [[1]]) := by decide

/-! ### 2. Every history inside the precondition: memory and disk agree -/

/-- MEMORY AND DISK AGREE ON EVERY HISTORY INSIDE `Pre`.  An empty memory filespace and a disk filespace
rooted in an empty directory `r0` of any well-formed host; any finite sequence of calls, each through any
handle opened so far (0 = the filespace, further handles = child views opened by earlier `Filespace`
calls, at any depth — opened on both sides); every call inside `Pre`.  Then the two models answer alike call
by call (no panic on disk; ReadDir as a set) and end with equal trees: what stands at `q` in memory stands
at `r0 ++ q` on the host.  (The memory side is C01's `memfs_run_refines` machinery: both models are runs
of `FS.Step`, and `FS.Step` is deterministic up to listing order.) -/
theorem mem_disk_agree (H0 : Host) (r0 : HPath) (hwf : H0.WF) (hroot : H0.get r0 = some .dir)
    (hempty : ∀ q, q ≠ [] → H0.get (r0 ++ q) = none) (ops : List (Nat × Op))
    (hpre : AllPre MemFS.World.init ops) :
    AllAgree (MemFS.World.init.run ops).2 ((World.init H0 r0).run ops).2
    ∧ ∀ q, abs (MemFS.World.init.run ops).1.root q = ((World.init H0 r0).run ops).1.host.get (r0 ++ q) := by
  obtain ⟨hs, ha⟩ := sim_run r0 _ _ (sim_init H0 r0 hwf hroot hempty) ops hpre
  exact ⟨ha, hs.state⟩

/- Backend pairs covered by `mem_disk_agree` / `mem_disk_agree_from`: (memory filespace, disk filespace
   rooted at ANY directory `r0` of the host — in particular a disk child view, which is a disk filespace of
   its own) and, for every view opened in the history, (memory view at `b`, disk view at `r0 ++ b`).
   Not stated: a memory CHILD VIEW as handle 0 against a disk filespace rooted in its own directory (an
   offset on the memory side).  It would follow the same way (`FS.Step_rebase` applied to the memory run),
   except that `Lstat("")` then names the view's base on one side and the directory on the other. -/

/-- The same from any pair of worlds that show the same tree with the same views open (`Sim`): backends
may be switched in mid-history. -/
theorem mem_disk_agree_from (r0 : HPath) (w : MemFS.World) (dw : World) (hsim : Sim r0 w dw)
    (ops : List (Nat × Op)) (hpre : AllPre w ops) :
    AllAgree (w.run ops).2 (dw.run ops).2 ∧ Sim r0 (w.run ops).1 (dw.run ops).1 := by
  obtain ⟨hs, ha⟩ := sim_run r0 w dw hsim ops hpre
  exact ⟨ha, hs⟩

/-- … in particular the views correspond: a `Filespace(raw)` inside `Pre` opens, on disk, the filespace
rooted at `r ++ norm raw`. -/
theorem disk_view_opens (r : HPath) (H : Host) (raw : Bytes) (p : List Name) (hroot : H.get r = some .dir)
    (hn : norm raw = some p) (hd : H.get (r ++ p) = some .dir) : openView r H raw = some (r ++ p) := by
  simp [openView, hn, (isDir_full hroot p).mpr hd]

-- the drivers' host satisfies the hypotheses; a history with odd spellings, a copy into the source and a
-- child view is inside `Pre`, and the two models answer it alike
example : demoHost.get demoRoot = some .dir := by decide
example : ∀ q, q ≠ [] → demoHost.get (demoRoot ++ q) = none := by
  intro q hq
  cases q with
  | nil => exact absurd rfl hq
  | cons a t => simp [demoHost, demoRoot, Host.get, Host.raw]
example :
    AllPre MemFS.World.init
      [(0, .writeFile [47, 97, 47, 46, 47, 98] [1, 2]), (0, .copy [97] [97, 47, 99, 47, 100]),
       (0, .filespace [97, 47, 99]), (1, .readFile [100, 47, 98]), (1, .remove [46, 46])] := by
  decide
example :
    ((World.init demoHost demoRoot).run
      [(0, .writeFile [47, 97, 47, 46, 47, 98] [1, 2]), (0, .copy [97] [97, 47, 99, 47, 100]),
       (0, .filespace [97, 47, 99]), (1, .readFile [100, 47, 98]), (1, .remove [46, 46])]).2
      = [.val .ok, .val .ok, .val .ok, .val (.data [1, 2]), .val .err] := by decide
example :
    (MemFS.World.init.run
      [(0, .writeFile [47, 97, 47, 46, 47, 98] [1, 2]), (0, .copy [97] [97, 47, 99, 47, 100]),
       (0, .filespace [97, 47, 99]), (1, .readFile [100, 47, 98]), (1, .remove [46, 46])]).2
      = [.ok, .ok, .ok, .data [1, 2], .err] := by decide

/-! ### 3. Every call, inside or outside the precondition: it fails cleanly -/

/-- NO PANIC.  The model has the outcome `Out.panic` where the Go code could dereference a nil `FileInfo`
(the callback of `filepath.Walk` in `disk.CopyDirectory`); it is unreachable, for every call in every
state. -/
theorem no_panic (r : HPath) (H : Host) (hwf : H.WF) (op : Op) : (step r H op).2 ≠ .panic :=
  (step_clean r H hwf op).2.1

/-- … and over every history. -/
theorem no_panic_run (H0 : Host) (r0 : HPath) (hwf : H0.WF) (hroot : H0.get r0 = some .dir)
    (ops : List (Nat × Op)) : ∀ o ∈ ((World.init H0 r0).run ops).2, o ≠ .panic :=
  (conf_run r0 H0 _ (conf_init H0 r0 hwf hroot) ops).2

/-- NO CHANGE OUTSIDE THE ADDRESSED PATHS.  For every call, with any arguments, in any state (no
precondition at all): a host path that is neither at or below a normalised argument of the call nor above
one keeps its entry; a path strictly above an argument keeps its entry or was missing and is now a
directory (a parent created by MkdirAll / WriteFile / CopyDirectory); whether the call succeeds or not. -/
theorem disk_fail_clean (r : HPath) (H : Host) (hwf : H.WF) (op : Op) :
    (∀ q, ¬ Addressed (opArgs r op) q → ¬ Above (opArgs r op) q → (step r H op).1.get q = H.get q)
    ∧ (∀ q, ¬ Addressed (opArgs r op) q → Above (opArgs r op) q →
        (step r H op).1.get q = H.get q ∨ (H.get q = none ∧ (step r H op).1.get q = some .dir)) :=
  step_frame r H hwf op

/- FULL STATEMENT (false): "outside `Pre` every call of the disk filespace is refused":
     ∀ r H op, H.WF → H.get r = some .dir → ¬ Pre r H.get op → (step r H op).2 = .val .err
   It fails in exactly the classes listed in `Tolerated` (RemoveAll of nothing succeeds, a file copy
   overwrites an existing file, a directory copy merges into an existing directory, a Reader of a
   directory that is never read is handed out, Lstat of `/`): `refused_outside_pre_full_false`. -/

/-- REFUSED OUTSIDE `Pre` (partial: the tolerated classes are excluded, see above).  With the
filespace's directory in place, a call outside `Pre` that is not tolerated answers `err` and leaves every
path of the host as it was. -/
theorem disk_refused_outside_pre_partial (r : HPath) (H : Host) (hwf : H.WF) (hroot : H.get r = some .dir)
    (op : Op) (hnp : ¬ Pre r H.get op) (hnt : ¬ Tolerated r H.get op) :
    (step r H op).2 = .val .err ∧ (step r H op).1.get = H.get :=
  step_refused r H hwf hroot op hnp hnt

/-- The full statement is false: `RemoveAll` of a path that does not exist is outside `Pre` and succeeds. -/
theorem refused_outside_pre_full_false :
    ¬ (∀ (r : HPath) (H : Host) (op : Op), H.WF → H.get r = some .dir → ¬ Pre r H.get op →
        (step r H op).2 = .val .err) := by
  intro h
  have := h demoRoot demoHost (.removeAll [122]) (by decide) (by decide) (by decide)
  revert this
  decide

-- a call that is outside `Pre` and not tolerated (a Writer below a missing directory; a file copy onto a
-- directory), and the tolerated classes at work
example : ¬ Pre demoRoot demoHost.get (.writer [97, 47, 98] [[1]])
    ∧ ¬ Tolerated demoRoot demoHost.get (.writer [97, 47, 98] [[1]]) := by decide
example : (step demoRoot demoHost (.removeAll [122])).2 = .val .ok := by decide
example :
    (World.init demoHost demoRoot |>.run
      [(0, .writeFile [102] [1]), (0, .writeFile [103] [2, 3]), (0, .copyFile [102] [103]), (0, .readFile [103]),
       (0, .mkdirAll [100]), (0, .reader [100] []), (0, .copyFile [102] [100])]).2
      = [.val .ok, .val .ok, .val .ok, .val (.data [1]), .val .ok, .val (.chunks []), .val .err] := by decide
-- a path that is neither addressed nor above an argument
example : ¬ Addressed (opArgs demoRoot (.copy [97] [98, 47, 99])) [[114, 111, 111, 116], [122]]
    ∧ ¬ Above (opArgs demoRoot (.copy [97] [98, 47, 99])) [[114, 111, 111, 116], [122]] := by
  decide

/-! ### 4. Nothing outside the root directory of the host -/

/-- HOST CONFINEMENT, one call.  A call through a disk filespace rooted at `r0`, or through a view of
it rooted anywhere below (`r0 ++ b`), with any arguments, in any state: no host path outside `r0` changes,
and `r0` is still a directory afterwards. -/
theorem host_confined (r0 b : HPath) (H : Host) (hwf : H.WF) (hroot : H.get r0 = some .dir) (op : Op) :
    (∀ q, ¬ r0 <+: q → (step (r0 ++ b) H op).1.get q = H.get q)
    ∧ (step (r0 ++ b) H op).1.get r0 = some .dir :=
  ⟨fun q hq => step_outside_root r0 b H hwf hroot op q hq, step_keeps_root r0 b H hwf hroot op⟩

/-- HOST CONFINEMENT, every history: whatever is called, through the filespace or any view opened from
it, the host outside the root directory is, at the end, what it was at the start. -/
theorem host_confined_run (H0 : Host) (r0 : HPath) (hwf : H0.WF) (hroot : H0.get r0 = some .dir)
    (ops : List (Nat × Op)) :
    (∀ q, ¬ r0 <+: q → ((World.init H0 r0).run ops).1.host.get q = H0.get q)
    ∧ ((World.init H0 r0).run ops).1.host.get r0 = some .dir :=
  let h := (conf_run r0 H0 _ (conf_init H0 r0 hwf hroot) ops).1
  ⟨h.outside, h.root⟩

/- FULL STATEMENT (reads): "no call reads host state outside the root directory", i.e. for ALL calls
     two hosts that agree below `r0` give the same result and the same tree below `r0`.
   Proved below for the calls inside `Pre` (where the answer is the specification's, a function of the
   tree below the root).  Missing: the calls outside `Pre`; there the property only asks for a clean
   failure, and the writes are confined by `host_confined`. -/

/-- HOST CONFINEMENT of reads (partial: calls inside `Pre`).  Two well-formed hosts that show the same
tree below `r0`: a call inside `Pre` through the filespace rooted at `r0 ++ b` answers alike on both and
leaves the same tree below `r0`. -/
theorem host_reads_confined_partial (r0 b : HPath) (H1 H2 : Host) (hwf1 : H1.WF) (hwf2 : H2.WF)
    (hr1 : H1.get r0 = some .dir) (hsame : ∀ q, H1.get (r0 ++ q) = H2.get (r0 ++ q)) (op : Op)
    (hpre : Pre (r0 ++ b) H1.get op)
    (hl : ∀ raw p, op = .lstat raw → norm raw = some p → b ++ p ≠ []) :
    (∃ res1 res2, (step (r0 ++ b) H1 op).2 = .val res1 ∧ (step (r0 ++ b) H2 op).2 = .val res2 ∧ ResEq res1 res2)
    ∧ ∀ q, (step (r0 ++ b) H1 op).1.get (r0 ++ q) = (step (r0 ++ b) H2 op).1.get (r0 ++ q) :=
  reads_confined r0 b H1 H2 hwf1 hwf2 hr1 hsame op hpre hl

-- climbing paths and the sentinels' names: nothing next to the root is touched
example :
    ((World.init demoHost demoRoot).run
      [(0, .writeFile [46, 46, 47, 104, 111, 115, 116, 115, 101, 99, 114, 101, 116] [9]),
       (0, .removeAll [46, 46, 47, 114, 111, 111, 116, 120]), (0, .removeAll []), (0, .remove [46]),
       (0, .copyDirectory [] [46, 46, 47, 122]), (0, .writeFile [120] [7])]).1.host.get [[114, 111, 111, 116, 120], [105, 110, 110, 101, 114]]
      = some (.file [120]) := by decide
example : ¬ demoRoot <+: [[104, 111, 115, 116, 115, 101, 99, 114, 101, 116]] := by decide

end Goat.C02
