/-
Property C02 — the disk filespace obeys the same contract as the in-memory one.

  "On every history of operations whose preconditions are met (source exists, destination parent exists,
   destination of a copy is absent), a disk filespace rooted in a directory returns the same results and
   ends with the same tree as the in-memory filespace, so code written against the Filespace interface may
   switch backend.  Outside those preconditions both backends must still fail cleanly: no panic and no
   change outside the addressed paths."

Stated over the executable model `Goat/Model/DiskFS.lean` — every method of `diskfs.Filespace` =
`ReduceAbsPath` (`Path.norm`) + the host calls it makes, `diskfs.WriteFile`, `Writer`,
`disk.Copy/CopyDirectory/CopyFile` step by step, over an explicit POSIX-like host (`Host`, a flat map from
absolute host paths to `file bytes | dir` with the failure conditions of the system calls used) — the
memory model `Goat/Model/MemFS.lean` of C01 and the point-wise specification `Goat/Spec/FS.lean`.
Everything below holds for raw path strings of any spelling, contents of any length, histories of any
length, child views of any depth, and any well-formed host around the root directory.

PARTIAL (what is assumed, not proved): that the Linux file system behaves like `Host`, and that the Go
code behaves like the two models.  Both are validated on every run by the differential of checks/c02.py.

Vocabulary (`Goat/Proofs/DiskFSDefs.lean`, `DiskFSRun.lean`, `DiskFSFrame.lean`, `DiskFSConfine.lean`):
  `Host.WF H`          one binding per path and the parent of every bound path is a directory
  `H.get p`            what stands at host path `p` (`/` is a directory)
  `step r H op`        the model's call of `op` through the disk filespace rooted at host path `r`:
                       `(host afterwards, Out.val result | Out.panic)`
  `World.init H r`, `World.run`   histories over the filespace and the views opened from it
  `Pre b S op`         THE PRECONDITION of the property, per method (see its definition): the filespace's
                       directory exists; Writer: the parent exists; RemoveAll: the path exists; Reader: not a
                       directory; Filespace: a directory; CopyFile / Copy of a file: parent exists and
                       destination absent; CopyDirectory / Copy of a directory: destination absent; Lstat:
                       not the root filespace's own root.  Calls with a climbing path are inside `Pre`.
  `AllPre w ops`       every call of the history is inside `Pre` in the state in which it is made
  `ResEq`              equal results; listings up to order (ReadDir as a set); Readers by the bytes each
                       Read delivered (io.EOF may come with the last bytes or with the next, empty Read)
  `AllAgree rs os`     the memory results `rs` and the disk outcomes `os` agree call by call, no panic
  `S.below r`          the tree `S` seen from `r`
  `Tolerated`          the five classes of calls outside `Pre` which the disk filespace carries out
  `opArgs r op`, `Addressed`, `Above`   the normalised arguments of a call; at or below one; strictly above one
-/
import Goat.Proofs.DiskFSReads

namespace Goat.C02

open Goat Goat.Path Goat.FS Goat.DiskFS

/-! ### 1. One call inside the precondition -/

/-- DISK REFINES THE SPECIFICATION INSIDE `Pre`.  Any of the 16 methods, any spelling of its path
arguments, through a disk filespace rooted at host path `r` on any well-formed host: the call does not
panic, and its result and the whole host tree afterwards are those the point-wise specification `FS.Step`
prescribes for a filespace rooted at `r` (listings as sets: `FS.Step` specifies them so; a Reader's chunks
up to EOF timing: `ResEq`). -/
theorem disk_refines_pre (r : HPath) (H : Host) (hwf : H.WF) (op : Op) (hpre : Pre r H.get op) :
    ∃ res res', (step r H op).2 = .val res ∧ ResEq res' res ∧ FS.Step r H.get op res' (step r H op).1.get :=
  (step_pre r H hwf op hpre).2

/-- … and the host stays well formed, after every call whatsoever. -/
theorem disk_wf_preserved (r : HPath) (H : Host) (hwf : H.WF) (op : Op) : (step r H op).1.WF :=
  (step_clean r H hwf op).1

/-- The same seen from inside: a disk filespace rooted at `r0`, a view of it rooted at `b` (`[]` for the
filespace itself) — the call is the specification's call through base `b` on the tree seen from `r0`,
exactly the statement `C01.memfs_refines` makes about the memory filespace and its views. -/
theorem disk_view_refines_pre (r0 b : HPath) (H : Host) (hwf : H.WF) (op : Op)
    (hpre : Pre b (State.below H.get r0) op) :
    ∃ res res', (step (r0 ++ b) H op).2 = .val res ∧ ResEq res' res
      ∧ FS.Step b (State.below H.get r0) op res' (State.below (step (r0 ++ b) H op).1.get r0) := by
  have hroot : H.get r0 = some .dir := by
    have hT := Host.wf_treeLike hwf
    have hb : H.get (r0 ++ b) = some .dir := hpre.1
    by_cases he : b = []
    · subst he; simpa using hb
    · exact hT.anc_dir r0 b he (by simp [hb])
  obtain ⟨_, res, res', h1, h2, h3⟩ := step_pre (r0 ++ b) H hwf op (pre_host r0 b H.get op hpre)
  exact ⟨res, res', h1, h2, FS.Step_rebase r0 b _ _ op res' (Host.wf_treeLike hwf) hroot (pre_lstat hpre) h3⟩

-- the hypotheses are satisfiable: the host the drivers use (root/ empty, sentinels next to it) is well formed,
-- `Pre` holds of non-trivial calls, and the model answers them
example : demoHost.WF := by decide
example : Pre demoRoot demoHost.get (.writeFile [47, 97, 47, 46, 47, 98] [1, 2]) := by decide
example : Pre demoRoot (step demoRoot demoHost (.writeFile [97, 47, 98] [1, 2])).1.get (.copy [97] [97, 47, 99, 47, 100]) := by
  decide
example : (step demoRoot (step demoRoot demoHost (.writeFile [97, 47, 98] [1, 2])).1 (.copy [97] [97, 47, 99, 47, 100])).2
    = .val .ok := by decide
example : ¬ Pre demoRoot demoHost.get (.writer [97, 47, 98] [[1]]) := by decide

/-! ### 2. Every history inside the precondition: memory and disk agree -/

/-- MEMORY AND DISK AGREE ON EVERY HISTORY INSIDE `Pre`.  An empty memory filespace and a disk filespace
rooted in an empty directory `r0` of any well-formed host; any finite sequence of calls, each through any
handle opened so far (0 = the filespace, further handles = child views opened by earlier `Filespace`
calls, at any depth — opened on both sides); every call inside `Pre`.  Then the two models answer alike call
by call (no panic on disk; ReadDir as a set) and end with equal trees: what stands at `q` in memory stands
at `r0 ++ q` on the host.  (The memory side is C01's `memfs_run_refines` machinery: both models are runs
of `FS.Step`, and `FS.Step` is deterministic up to listing order.) -/
theorem mem_disk_agree (H0 : Host) (r0 : HPath) (hwf : H0.WF) (hroot : H0.get r0 = some .dir)
    (hempty : ∀ q, q ≠ [] → H0.get (r0 ++ q) = none) (ops : List (Nat × Op))
    (hpre : AllPre MemFS.World.init ops) :
    AllAgree (MemFS.World.init.run ops).2 ((World.init H0 r0).run ops).2
    ∧ ∀ q, abs (MemFS.World.init.run ops).1.root q = ((World.init H0 r0).run ops).1.host.get (r0 ++ q) := by
  obtain ⟨hs, ha⟩ := sim_run r0 _ _ (sim_init H0 r0 hwf hroot hempty) ops hpre
  exact ⟨ha, hs.state⟩

/- Backend pairs covered by `mem_disk_agree` / `mem_disk_agree_from`: (memory filespace, disk filespace
   rooted at ANY directory `r0` of the host — in particular a disk child view, which is a disk filespace of
   its own) and, for every view opened in the history, (memory view at `b`, disk view at `r0 ++ b`).
   The remaining pairing — a memory CHILD VIEW as handle 0 against a disk filespace rooted in its own
   directory (an offset on the memory side) — and with it every pair of handles is section 5 (`pair_agree`):
   there `Lstat("")` names the view's base on one side and the directory on the other, which is the one
   difference and is stated as such. -/

/-- The same from any pair of worlds that show the same tree with the same views open (`Sim`): backends
may be switched in mid-history. -/
theorem mem_disk_agree_from (r0 : HPath) (w : MemFS.World) (dw : World) (hsim : Sim r0 w dw)
    (ops : List (Nat × Op)) (hpre : AllPre w ops) :
    AllAgree (w.run ops).2 (dw.run ops).2 ∧ Sim r0 (w.run ops).1 (dw.run ops).1 := by
  obtain ⟨hs, ha⟩ := sim_run r0 w dw hsim ops hpre
  exact ⟨ha, hs⟩

/-- … in particular the views correspond: a `Filespace(raw)` inside `Pre` opens, on disk, the filespace
rooted at `r ++ norm raw`. -/
theorem disk_view_opens (r : HPath) (H : Host) (raw : Bytes) (p : List Name) (hroot : H.get r = some .dir)
    (hn : norm raw = some p) (hd : H.get (r ++ p) = some .dir) : openView r H raw = some (r ++ p) := by
  simp [openView, hn, (isDir_full hroot p).mpr hd]

-- the drivers' host satisfies the hypotheses; a history with odd spellings, a copy into the source and a
-- child view is inside `Pre`, and the two models answer it alike
example : demoHost.get demoRoot = some .dir := by decide
example : ∀ q, q ≠ [] → demoHost.get (demoRoot ++ q) = none := by
  intro q hq
  cases q with
  | nil => exact absurd rfl hq
  | cons a t => simp [demoHost, demoRoot, Host.get, Host.raw]
example :
    AllPre MemFS.World.init
      [(0, .writeFile [47, 97, 47, 46, 47, 98] [1, 2]), (0, .copy [97] [97, 47, 99, 47, 100]),
       (0, .filespace [97, 47, 99]), (1, .readFile [100, 47, 98]), (1, .remove [46, 46])] := by
  decide
example :
    ((World.init demoHost demoRoot).run
      [(0, .writeFile [47, 97, 47, 46, 47, 98] [1, 2]), (0, .copy [97] [97, 47, 99, 47, 100]),
       (0, .filespace [97, 47, 99]), (1, .readFile [100, 47, 98]), (1, .remove [46, 46])]).2
      = [.val .ok, .val .ok, .val .ok, .val (.data [1, 2]), .val .err] := by decide
example :
    (MemFS.World.init.run
      [(0, .writeFile [47, 97, 47, 46, 47, 98] [1, 2]), (0, .copy [97] [97, 47, 99, 47, 100]),
       (0, .filespace [97, 47, 99]), (1, .readFile [100, 47, 98]), (1, .remove [46, 46])]).2
      = [.ok, .ok, .ok, .data [1, 2], .err] := by decide

/-! ### 3. Every call, inside or outside the precondition: it fails cleanly -/

/-- NO PANIC.  The model has the outcome `Out.panic` where the Go code could dereference a nil `FileInfo`
(the callback of `filepath.Walk` in `disk.CopyDirectory`); it is unreachable, for every call in every
state. -/
theorem no_panic (r : HPath) (H : Host) (hwf : H.WF) (op : Op) : (step r H op).2 ≠ .panic :=
  (step_clean r H hwf op).2.1

/-- … and over every history. -/
theorem no_panic_run (H0 : Host) (r0 : HPath) (hwf : H0.WF) (hroot : H0.get r0 = some .dir)
    (ops : List (Nat × Op)) : ∀ o ∈ ((World.init H0 r0).run ops).2, o ≠ .panic :=
  (conf_run r0 H0 _ (conf_init H0 r0 hwf hroot) ops).2

/-- NO CHANGE OUTSIDE THE ADDRESSED PATHS.  For every call, with any arguments, in any state (no
precondition at all): a host path that is neither at or below a normalised argument of the call nor above
one keeps its entry; a path strictly above an argument keeps its entry or was missing and is now a
directory (a parent created by MkdirAll / WriteFile / CopyDirectory); whether the call succeeds or not. -/
theorem disk_fail_clean (r : HPath) (H : Host) (hwf : H.WF) (op : Op) :
    (∀ q, ¬ Addressed (opArgs r op) q → ¬ Above (opArgs r op) q → (step r H op).1.get q = H.get q)
    ∧ (∀ q, ¬ Addressed (opArgs r op) q → Above (opArgs r op) q →
        (step r H op).1.get q = H.get q ∨ (H.get q = none ∧ (step r H op).1.get q = some .dir)) :=
  step_frame r H hwf op

/- FULL STATEMENT (false): "outside `Pre` every call of the disk filespace is refused":
     ∀ r H op, H.WF → H.get r = some .dir → ¬ Pre r H.get op → (step r H op).2 = .val .err
   It fails in exactly the classes listed in `Tolerated` (RemoveAll of nothing succeeds, a file copy
   overwrites an existing file, a directory copy merges into an existing directory, a Reader of a
   directory that is never read is handed out, Lstat of `/`): `refused_outside_pre_full_false`. -/

/-- REFUSED OUTSIDE `Pre` (partial: the tolerated classes are excluded, see above).  With the
filespace's directory in place, a call outside `Pre` that is not tolerated answers `err` and leaves every
path of the host as it was. -/
theorem disk_refused_outside_pre_partial (r : HPath) (H : Host) (hwf : H.WF) (hroot : H.get r = some .dir)
    (op : Op) (hnp : ¬ Pre r H.get op) (hnt : ¬ Tolerated r H.get op) :
    (step r H op).2 = .val .err ∧ (step r H op).1.get = H.get :=
  step_refused r H hwf hroot op hnp hnt

/-- The full statement is false: `RemoveAll` of a path that does not exist is outside `Pre` and succeeds. -/
theorem refused_outside_pre_full_false :
    ¬ (∀ (r : HPath) (H : Host) (op : Op), H.WF → H.get r = some .dir → ¬ Pre r H.get op →
        (step r H op).2 = .val .err) := by
  intro h
  have := h demoRoot demoHost (.removeAll [122]) (by decide) (by decide) (by decide)
  revert this
  decide

-- a call that is outside `Pre` and not tolerated (a Writer below a missing directory; a file copy onto a
-- directory), and the tolerated classes at work
example : ¬ Pre demoRoot demoHost.get (.writer [97, 47, 98] [[1]])
    ∧ ¬ Tolerated demoRoot demoHost.get (.writer [97, 47, 98] [[1]]) := by decide
example : (step demoRoot demoHost (.removeAll [122])).2 = .val .ok := by decide
example :
    (World.init demoHost demoRoot |>.run
      [(0, .writeFile [102] [1]), (0, .writeFile [103] [2, 3]), (0, .copyFile [102] [103]), (0, .readFile [103]),
       (0, .mkdirAll [100]), (0, .reader [100] []), (0, .copyFile [102] [100])]).2
      = [.val .ok, .val .ok, .val .ok, .val (.data [1]), .val .ok, .val (.chunks []), .val .err] := by decide
-- a path that is neither addressed nor above an argument
example : ¬ Addressed (opArgs demoRoot (.copy [97] [98, 47, 99])) [[114, 111, 111, 116], [122]]
    ∧ ¬ Above (opArgs demoRoot (.copy [97] [98, 47, 99])) [[114, 111, 111, 116], [122]] := by
  decide

/-! ### 4. Nothing outside the root directory of the host -/

/-- HOST CONFINEMENT, one call.  A call through a disk filespace rooted at `r0`, or through a view of
it rooted anywhere below (`r0 ++ b`), with any arguments, in any state: no host path outside `r0` changes,
and `r0` is still a directory afterwards. -/
theorem host_confined (r0 b : HPath) (H : Host) (hwf : H.WF) (hroot : H.get r0 = some .dir) (op : Op) :
    (∀ q, ¬ r0 <+: q → (step (r0 ++ b) H op).1.get q = H.get q)
    ∧ (step (r0 ++ b) H op).1.get r0 = some .dir :=
  ⟨fun q hq => step_outside_root r0 b H hwf hroot op q hq, step_keeps_root r0 b H hwf hroot op⟩

/-- HOST CONFINEMENT, every history: whatever is called, through the filespace or any view opened from
it, the host outside the root directory is, at the end, what it was at the start. -/
theorem host_confined_run (H0 : Host) (r0 : HPath) (hwf : H0.WF) (hroot : H0.get r0 = some .dir)
    (ops : List (Nat × Op)) :
    (∀ q, ¬ r0 <+: q → ((World.init H0 r0).run ops).1.host.get q = H0.get q)
    ∧ ((World.init H0 r0).run ops).1.host.get r0 = some .dir :=
  let h := (conf_run r0 H0 _ (conf_init H0 r0 hwf hroot) ops).1
  ⟨h.outside, h.root⟩

/- FULL STATEMENT (reads): "no call reads host state outside the root directory", i.e. for ALL calls
     two hosts that agree below `r0` give the same result and the same tree below `r0`.
   Proved below for the calls inside `Pre` (where the answer is the specification's, a function of the
   tree below the root).  The calls outside `Pre` are covered by section 6 (`host_reads_confined`), which
   proves the full statement — for every call, with equal outcomes — by a direct argument. -/

/-- HOST CONFINEMENT of reads (partial: calls inside `Pre`).  Two well-formed hosts that show the same
tree below `r0`: a call inside `Pre` through the filespace rooted at `r0 ++ b` answers alike on both and
leaves the same tree below `r0`. -/
theorem host_reads_confined_partial (r0 b : HPath) (H1 H2 : Host) (hwf1 : H1.WF) (hwf2 : H2.WF)
    (hr1 : H1.get r0 = some .dir) (hsame : ∀ q, H1.get (r0 ++ q) = H2.get (r0 ++ q)) (op : Op)
    (hpre : Pre (r0 ++ b) H1.get op)
    (hl : ∀ raw p, op = .lstat raw → norm raw = some p → b ++ p ≠ []) :
    (∃ res1 res2, (step (r0 ++ b) H1 op).2 = .val res1 ∧ (step (r0 ++ b) H2 op).2 = .val res2 ∧ ResEq res1 res2)
    ∧ ∀ q, (step (r0 ++ b) H1 op).1.get (r0 ++ q) = (step (r0 ++ b) H2 op).1.get (r0 ++ q) :=
  reads_confined r0 b H1 H2 hwf1 hwf2 hr1 hsame op hpre hl

-- climbing paths and the sentinels' names: nothing next to the root is touched
example :
    ((World.init demoHost demoRoot).run
      [(0, .writeFile [46, 46, 47, 104, 111, 115, 116, 115, 101, 99, 114, 101, 116] [9]),
       (0, .removeAll [46, 46, 47, 114, 111, 111, 116, 120]), (0, .removeAll []), (0, .remove [46]),
       (0, .copyDirectory [] [46, 46, 47, 122]), (0, .writeFile [120] [7])]).1.host.get [[114, 111, 111, 116, 120], [105, 110, 110, 101, 114]]
      = some (.file [120]) := by decide
example : ¬ demoRoot <+: [[104, 111, 115, 116, 115, 101, 99, 114, 101, 116]] := by decide

/-! ### 5. Every backend pair: any memory handle against any disk handle -/

/- Vocabulary (`Goat/Proofs/DiskFSPair.lean`):
  `SimG m0 r0 w dw`   THE PAIR: the memory world `w` and the disk world `dw` show the same tree, memory below
                      `m0`, the host below `r0`, and have the same views open: the memory handles have the bases
                      `m0 ++ c`, the disk handles the roots `r0 ++ c`, for the same list of `c`.  `m0 = []` is the
                      memory root filespace, any other `m0` a memory CHILD VIEW; `r0` is the directory of a disk
                      root filespace or of a disk child view (a disk view is a disk filespace rooted deeper).
  `PreN`, `AllPreN`   the precondition `Pre` WITHOUT its clause about `Lstat`
  `RootLstat m0 w h op`   the call is `Lstat` of the pair's own root (it normalises to `m0` itself)
  `AllAgreeG m0 r0 w ops rs os`   call by call: the two sides agree (`Agree`: same result up to `ResEq`, no panic)
                      OR the call is `RootLstat` and the memory side answers `stat (name of m0) dir`, the disk
                      side `stat (name of r0) dir` — the one and only difference between the backends. -/

/-- EVERY BACKEND PAIR.  A memory handle — root filespace or child view at any base `m0` — and a disk
handle — root filespace or child view, at any directory `r0` of any well-formed host — that show the same
tree, with the views opened from them in step (`SimG`); any history through any of these handles, inside the
precondition (`AllPreN`).  The two models end in the same tree again, and answer alike call by call, the ONLY
exception being `Lstat` of the pair's own root, where each names its own root directory. -/
theorem pair_agree (m0 r0 : HPath) (w : MemFS.World) (dw : World) (hsim : SimG m0 r0 w dw)
    (ops : List (Nat × Op)) (hpre : AllPreN w ops) :
    AllAgreeG m0 r0 w ops (w.run ops).2 (dw.run ops).2 ∧ SimG m0 r0 (w.run ops).1 (dw.run ops).1 := by
  obtain ⟨hs, ha⟩ := simG_run m0 r0 w dw hsim ops hpre
  exact ⟨ha, hs⟩

/-- … in particular the trees: what stands at `m0 ++ q` in memory stands at `r0 ++ q` on the host. -/
theorem pair_same_tree (m0 r0 : HPath) (w : MemFS.World) (dw : World) (hsim : SimG m0 r0 w dw)
    (ops : List (Nat × Op)) (hpre : AllPreN w ops) (q : HPath) :
    abs (w.run ops).1.root (m0 ++ q) = (dw.run ops).1.host.get (r0 ++ q) :=
  (simG_run m0 r0 w dw hsim ops hpre).1.state q

/-- One call of a pair, spelled out: the two sides agree, or the call is `Lstat` of the pair's own root and
the answers are exactly `stat <name of m0> dir` and `stat <name of r0> dir`. -/
theorem pair_step_only_difference (m0 r0 : HPath) (w : MemFS.World) (dw : World) (hsim : SimG m0 r0 w dw)
    (h : Nat) (op : Op) (hpre : PreAtN w h op) :
    Agree (w.step h op).2 (dw.step h op).2
    ∨ (RootLstat m0 w h op ∧ (w.step h op).2 = .stat (FS.statName m0) true 0
        ∧ (dw.step h op).2 = .val (.stat (DiskFS.statName r0) true 0)) :=
  (simG_step m0 r0 w dw hsim h op hpre).2

/-- When the two root directories carry the same name — or the history never asks for it — nothing
differs at all. -/
theorem pair_agree_same_names (m0 r0 : HPath) (w : MemFS.World) (dw : World) (hsim : SimG m0 r0 w dw)
    (ops : List (Nat × Op)) (hpre : AllPreN w ops)
    (hname : FS.statName m0 = DiskFS.statName r0 ∨ ∀ w' h' op', ¬ RootLstat m0 w' h' op') :
    AllAgree (w.run ops).2 (dw.run ops).2 :=
  allAgree_of_allAgreeG m0 r0 w ops _ _ (simG_run m0 r0 w dw hsim ops hpre).2 hname

/-- A memory handle `ref` (the root filespace or a child view at any base) of any well-formed tree `t`
and a disk filespace rooted at `r0` that show the same tree are a pair. -/
theorem pair_of_handles (t : Node) (ht : MemFS.Inv t) (ref : MemFS.FSRef) (hg : MemFS.GoodRef ref)
    (H0 : Host) (r0 : HPath) (hwf : H0.WF)
    (hstate : ∀ q, abs t (MemFS.baseOf ref ++ q) = H0.get (r0 ++ q)) :
    SimG (MemFS.baseOf ref) r0 ⟨t, [ref]⟩ (World.init H0 r0) :=
  simG_of_handles t ht ref hg H0 r0 hwf hstate

/-- `mem_disk_agree` is the pair `m0 = []`: there `Pre`'s own `Lstat` clause excludes the root. -/
theorem pair_of_sim (r0 : HPath) (w : MemFS.World) (dw : World) (h : Sim r0 w dw) : SimG [] r0 w dw :=
  ⟨h.mem, h.wf, fun q => by simpa using h.state q, w.views.map MemFS.baseOf, by simp, by simpa using h.views⟩

-- the pairing "memory CHILD VIEW as handle 0 against a disk ROOT": the tree { v/ }, the view `v`, the
-- drivers' host; the hypotheses of `pair_of_handles` hold, a history through the pair is inside `AllPreN`,
-- and `Lstat("")` is where the two differ (`v` against `root`)
example : MemFS.GoodRef (.wrap [118, 47]) := by
  have hb : MemFS.baseOf (.wrap [118, 47]) = [[118]] := by decide
  refine ⟨?_, by decide⟩
  rw [hb]
  intro s hs
  simp at hs; subst hs; decide
example : MemFS.baseOf (.wrap [118, 47]) = [[118]] := by decide
example : MemFS.Inv (MemFS.World.init.run [(0, .mkdirAll [118])]).1.root :=
  (MemFS.run_refines_from MemFS.World.init MemFS.worldOK_init [(0, .mkdirAll [118])]).2.inv
example : ∀ q, abs (MemFS.World.init.run [(0, .mkdirAll [118])]).1.root ([[118]] ++ q) = demoHost.get (demoRoot ++ q) := by
  intro q
  cases q with
  | nil => decide
  | cons a t =>
    show abs (Node.dir (.cons [118] (.dir .nil) .nil)) ([118] :: a :: t) = _
    simp [abs, Node.lookup, Kids.find, demoHost, demoRoot, Host.get, Host.raw]
example :
    AllPreN ⟨(MemFS.World.init.run [(0, .mkdirAll [118])]).1.root, [.wrap [118, 47]]⟩
      [(0, .writeFile [97, 47, 98] [1]), (0, .lstat []), (0, .filespace [97]), (1, .lstat []), (1, .readFile [98])] := by
  decide
example :
    ((⟨(MemFS.World.init.run [(0, .mkdirAll [118])]).1.root, [.wrap [118, 47]]⟩ : MemFS.World).run
      [(0, .writeFile [97, 47, 98] [1]), (0, .lstat []), (0, .filespace [97]), (1, .lstat []), (1, .readFile [98])]).2
      = [.ok, .stat [118] true 0, .ok, .stat [97] true 0, .data [1]] := by decide
example :
    ((World.init demoHost demoRoot).run
      [(0, .writeFile [97, 47, 98] [1]), (0, .lstat []), (0, .filespace [97]), (1, .lstat []), (1, .readFile [98])]).2
      = [.val .ok, .val (.stat [114, 111, 111, 116] true 0), .val .ok, .val (.stat [97] true 0), .val (.data [1])] := by
  decide
example : RootLstat [[118]] ⟨Node.empty, [.wrap [118, 47]]⟩ 0 (.lstat [46]) := by decide

/-! ### 6. Read confinement for every call -/

/- Vocabulary (`Goat/Proofs/DiskFSReads.lean`): `Eqv r0 A B` — two well-formed hosts carry the same entry at
   every path at or below `r0` and at every ancestor of `r0`.  Every system call of the model is shown to
   be a function of the entries at such paths (`step_eqv`). -/

/-- HOST CONFINEMENT OF READS, every call (this closes `host_reads_confined_partial`: no `Pre`, no
exception).  Two well-formed hosts in which `r0` is a directory and which show the same tree below `r0`:
every call, with any arguments, through a filespace rooted at `r0` or a view of it rooted anywhere below
(`r0 ++ b`), has the SAME outcome on both — the same result, listings in the same order, the same verdict of
a composite that fails half-way — and leaves the same tree below `r0`.  Nothing outside the root directory
is read into a result or into the tree. -/
theorem host_reads_confined (r0 b : HPath) (H1 H2 : Host) (hwf1 : H1.WF) (hwf2 : H2.WF)
    (hr1 : H1.get r0 = some .dir) (hsame : ∀ q, H1.get (r0 ++ q) = H2.get (r0 ++ q)) (op : Op) :
    (step (r0 ++ b) H1 op).2 = (step (r0 ++ b) H2 op).2
    ∧ ∀ q, (step (r0 ++ b) H1 op).1.get (r0 ++ q) = (step (r0 ++ b) H2 op).1.get (r0 ++ q) := by
  obtain ⟨h1, h2⟩ := step_eqv r0 b H1 H2 (eqv_of_below r0 H1 H2 hwf1 hwf2 hr1 hsame) op
  exact ⟨h1, fun q => h2.at (List.prefix_append _ _)⟩

/-- … and every history, through the filespace and every view opened from it. -/
theorem host_reads_confined_run (r0 : HPath) (H1 H2 : Host) (hwf1 : H1.WF) (hwf2 : H2.WF)
    (hr1 : H1.get r0 = some .dir) (hsame : ∀ q, H1.get (r0 ++ q) = H2.get (r0 ++ q)) (ops : List (Nat × Op)) :
    ((World.init H1 r0).run ops).2 = ((World.init H2 r0).run ops).2
    ∧ ∀ q, ((World.init H1 r0).run ops).1.host.get (r0 ++ q) = ((World.init H2 r0).run ops).1.host.get (r0 ++ q) := by
  obtain ⟨h1, h2, _⟩ := run_eqv r0 (World.init H1 r0) (World.init H2 r0)
    (eqv_of_below r0 H1 H2 hwf1 hwf2 hr1 hsame) rfl
    (by intro v hv; simp [World.init] at hv; subst hv; exact List.prefix_refl _) ops
  exact ⟨h1, fun q => h2.at (List.prefix_append _ _)⟩

/-- The hypothesis "`r0` is a directory" cannot be dropped: when the root directory itself is missing,
`MkdirAll` (and with it `WriteFile`, `CopyDirectory`) and `RemoveAll` look at the ANCESTORS of `r0` — a
missing ancestor is created / is "nothing to remove", an ancestor that is a file is `ENOTDIR`.  Witness: root
`x/y` missing on both hosts, `x` missing on one and a file on the other, `MkdirAll("")`. -/
theorem host_reads_root_needed :
    ¬ (∀ (r0 : HPath) (H1 H2 : Host) (op : Op), H1.WF → H2.WF → (∀ q, H1.get (r0 ++ q) = H2.get (r0 ++ q)) →
        (step r0 H1 op).2 = (step r0 H2 op).2) := by
  intro h
  have := h [[120], [121]] [] [([[120]], .file [])] (.mkdirAll []) (by decide) (by decide)
    (by intro q; simp [Host.get, Host.raw])
  revert this
  decide

-- two different hosts around the same (empty) root directory: a history with escapes attempted answers alike
example : (∀ q, demoHost.get (demoRoot ++ q) = Host.get [([[114, 111, 111, 116]], .dir)] (demoRoot ++ q)) := by
  intro q
  cases q with
  | nil => decide
  | cons a t => simp [demoHost, demoRoot, Host.get, Host.raw]
example :
    ((World.init demoHost demoRoot).run
      [(0, .readFile [46, 46, 47, 104, 111, 115, 116, 115, 101, 99, 114, 101, 116]), (0, .isExist [46, 46]),
       (0, .writeFile [97, 47, 98] [1]), (0, .copy [46, 46, 47, 97] [99]), (0, .readDir [])]).2
    = ((World.init [([[114, 111, 111, 116]], .dir)] demoRoot).run
      [(0, .readFile [46, 46, 47, 104, 111, 115, 116, 115, 101, 99, 114, 101, 116]), (0, .isExist [46, 46]),
       (0, .writeFile [97, 47, 98] [1]), (0, .copy [46, 46, 47, 97] [99]), (0, .readDir [])]).2 := by decide

end Goat.C02
