/-
Property C03 — a filespace never reaches outside its root, whatever path it is given.

  "For every filespace and every child view obtained from it, no operation with any path argument can
   read, list, create, change or delete anything that is not under that view's own root: a path that would
   climb above the root is rejected with an error or resolved inside the root, and the rest of the parent
   tree stays byte-identical.  This holds uniformly for the memory, disk, encrypted, read-only, sub-path and
   cache-backed views and for views of views."

Stated over
  * the path functions of `Goat/Base/Path.lean` (`norm` = `varutil.ReduceAbsPath` as a segment list,
    `clean` = `path.Clean`),
  * the point-wise specification `FS.Step base S op r S'` of `Goat/Spec/FS.lean` (a call through a view rooted
    at `base`), and
  * the executable view-stack model `Goat/Model/Views.lean`: a stack is a `List Layer` of ANY depth, each layer a
    `(kind, stored base string)` with the path plumbing of its Go code, over a bottom filespace.

Everything below holds for all byte strings as paths, all 16 methods and both arguments of the three copies,
all stacks (any kinds in any order, any depth, any stored base strings — also climbing ones) and all states.

Vocabulary
  `norm raw`          `none` when the raw path climbs above the root, else its reduced segment list
  `Reduced q`         every segment of `q` is a real name (not `""`, `.`, `..`) without `/`
  `walk segs cur`     resolve a relative path by walking from directory stack `cur` (`none`: left the root)
  `RootDirs base S`   the root path of the view exists in `S` (`base` and its ancestors are directories)
  `AgreeUnder base S₁ S₂`   the two trees coincide at every path at or below `base`
  `Layer.down l op`   the call layer `l` hands to the filespace it wraps (`none`: refused by the layer itself)
  `downAll ls op`     … through the whole stack: the call that reaches the bottom filespace
  `run B ls s op`     the call through stack `ls` over bottom `B` in state `s`: `(state', result)`
  `rootOf ls`         where the stack is rooted, in coordinates of the bottom (`none`: a dead view — some layer
                      stores a climbing base, every call through it fails)
  `Refines B b0 Good α`   the bottom filespace `B` behaves as the specification says a filespace rooted at `b0`
                      does.  For the memory filespace this is a THEOREM (`memory_bottom`, from C01); for a disk
                      bottom (the host) and for the cache it is the assumption under which the semantic theorems
                      apply — the lexical theorem `stack_delegates_under` needs no assumption on the bottom.
  `Outcome root ro b0 S op r S'`   the call is the specification's call at `b0 ++ root`; or it fails cleanly (dead
                      stack; mutation through a stack with a read-only mask)
-/
import Goat.Proofs.ViewsMem

namespace Goat.C03

open Goat Goat.Path Goat.FS Goat.Views

/-! ### (a) The lexical core, for all byte strings -/

/-- `ReduceAbsPath` yields real names only, and the path string a view builds from it — ANY stored base
string `dir`, `/`, the reduced argument — resolves to the base's own normal form followed by the argument's:
it lies at or below the base, or (a climbing base) it climbs as a whole. -/
theorem reduce_stays_under_base (p : Bytes) (q : List Name) (h : norm p = some q) :
    Reduced q ∧ ∀ dir : Bytes, norm (dir ++ slash :: join q) = (norm dir).map (· ++ q) :=
  ⟨norm_reduced p q h, fun dir => norm_dir_join dir q (norm_reduced p q h)⟩

/-- … in particular under every reduced base `b`: the joined path is `b ++ q`, which has `b` as a prefix. -/
theorem reduce_stays_under_reduced_base (p : Bytes) (q : List Name) (h : norm p = some q) (b : List Name)
    (hb : Reduced b) : norm (join b ++ slash :: join q) = some (b ++ q) ∧ b <+: b ++ q :=
  ⟨norm_base_join b q hb (norm_reduced p q h), List.prefix_append b q⟩

/-- `ReduceAbsPath` fails exactly when walking the segments from the root leaves the root. -/
theorem climbs_iff_walk_leaves_root (p : Bytes) : norm p = none ↔ walk (split p) [] = none := by
  have h : norm p = (walk (split p) []).map List.reverse := reduceGo_eq_walk (split p) []
  rw [h]
  cases walk (split p) [] <;> simp

/-- When it succeeds it is the directory reached by that walk. -/
theorem reduce_eq_walk (p : Bytes) : norm p = (walk (split p) []).map List.reverse :=
  reduceGo_eq_walk (split p) []

/-- `path.Clean` (used by the sub-path view for its base) keeps the normal form of a path that does not climb. -/
theorem clean_keeps_normal_form (p : Bytes) (q : List Name) (h : norm p = some q) : norm (clean p) = some q :=
  norm_clean p q h

-- "in/./a/.." resolves to ["in"]; under the base "x/y" the joined string resolves to x/y/in; "a/../.." climbs
example : norm [105, 110, 47, 46, 47, 97, 47, 46, 46] = some [[105, 110]] := by decide
example : norm ([120, 47, 121] ++ slash :: join [[105, 110]]) = some [[120], [121], [105, 110]] := by decide
example : norm [97, 47, 46, 46, 47, 46, 46] = none ∧ walk (split [97, 47, 46, 46, 47, 46, 46]) [] = none := by decide
-- a climbing base: the joined string climbs as a whole
example : norm ([46, 46] ++ slash :: join [[97]]) = none := by decide
example : norm (clean [47, 105, 110, 47, 47, 46, 47]) = some [[105, 110]] := by decide

/-! ### (b) Semantic confinement on the specification -/

/-- NOTHING OUTSIDE CHANGES.  A call through a view rooted at `base` — any of the 16 methods, any raw path
spellings, both arguments of the copies — leaves every path that is not at or below `base` exactly as it was. -/
theorem confined (base : List Name) (S : State) (op : Op) (r : Result) (S' : State)
    (h : FS.Step base S op r S') (hroot : RootDirs base S) :
    ∀ q, ¬ base <+: q → S' q = S q :=
  fun q hq => step_confined base S op r S' h hroot q hq

/-- The same for a view opened on a path that does not exist yet (the memory wrapper and the sub-path view
allow it): the only other effect outside is that missing ancestors of the view's own root come into being as
directories on the first write — "resolved inside the root". -/
theorem confined_rootless (base : List Name) (S : State) (op : Op) (r : Result) (S' : State)
    (h : FS.Step base S op r S') :
    ∀ q, ¬ base <+: q → S' q = S q ∨ (q <+: base ∧ S' q = some .dir) :=
  fun q hq => step_confined_rootless base S op r S' h q hq

/-- Why `confined` asks for the root path to exist: the statement without that hypothesis,
     ∀ base S op r S', FS.Step base S op r S' → ∀ q, ¬ base <+: q → S' q = S q,
is FALSE in the specification (and in the code: the memory wrapper and the sub-path view may be opened on a path
that does not exist, and the first `MkdirAll("")` / write through them creates the missing ancestors of their own
root).  `confined_rootless` is the exact general statement. -/
theorem confined_needs_root :
    ¬ ∀ (base : List Name) (S : State) (op : Op) (r : Result) (S' : State),
        FS.Step base S op r S' → ∀ q, ¬ base <+: q → S' q = S q := by
  intro h
  have hstep : FS.Step [[97], [98]] State.empty (.mkdirAll []) .ok (mkdirSt State.empty ([[97], [98]] ++ [])) := by
    simp only [FS.Step, show norm [] = some [] from by decide]
    refine Or.inl ⟨?_, rfl, rfl⟩
    intro q _ d
    simp only [State.empty]
    split <;> intro e <;> cases e
  have := h _ _ _ _ _ hstep [[97]] (by decide)
  simp [mkdirSt, State.empty] at this

/-- NOTHING OUTSIDE IS READ OR LISTED.  Two trees that coincide at and below the root of the view (the root
path existing in both) give every call through the view the same possible answers, and the trees afterwards
coincide at and below the root again: answers and effects are a function of the tree below the root. -/
theorem result_local (base : List Name) (S₁ S₂ : State) (hagree : AgreeUnder base S₁ S₂)
    (h1 : RootDirs base S₁) (h2 : RootDirs base S₂) (op : Op) (r : Result) (S₁' : State)
    (h : FS.Step base S₁ op r S₁') :
    ∃ S₂', FS.Step base S₂ op r S₂' ∧ AgreeUnder base S₁' S₂' :=
  step_local base S₁ S₂ hagree h1 h2 op r S₁' h

/-- the view's root path is still there afterwards (so `confined` and `result_local` apply to the next call) -/
theorem root_path_kept (base : List Name) (S : State) (op : Op) (r : Result) (S' : State)
    (h : FS.Step base S op r S') (hroot : RootDirs base S) :
    ∀ q, q <+: base → q ≠ base → S' q = some .dir :=
  step_rootDirs base S op r S' h hroot

-- a tree with a secret next to the view root `in`; a copy inside the view; the secret and the root are untouched
example : RootDirs [[105, 110]] (fun q => if q = [] ∨ q = [[105, 110]] then some .dir else
    if q = [[115]] then some (.file [1]) else none) := by
  intro q hq
  have : q = [] ∨ q = [[105, 110]] := by
    obtain ⟨t, ht⟩ := hq
    cases q with
    | nil => exact Or.inl rfl
    | cons a r =>
      cases r with
      | nil => simp at ht; exact Or.inr (by rw [ht.1])
      | cons b r' => simp at ht
  simp [this]
example : ¬ ([[105, 110]] : List Name) <+: [[115]] := by decide
example : AgreeUnder [[105, 110]] (fun _ => none) (fun q => if q = [[115]] then some (.file [1]) else none) := by
  intro q hq
  have : q ≠ [[115]] := by rintro rfl; exact absurd hq (by decide)
  simp [this]

/-! ### (c) The view-stack model: every kind, views of views to any depth -/

/-- the memory root filespace is a bottom that refines the specification (C01 `memfs_refines`) -/
theorem memory_bottom : Refines memBottom [] MemFS.Inv abs := memBottom_refines

/-- STACK REFINEMENT (induction on the list of layers).  Over any bottom that refines the specification at `b0`,
a call (any method but `Filespace`, see `view_of_stack`) through a stack of layers with stored bases
`dir₁ … dirₙ`, any `n`, any kinds, is the specification's call at the root `b0 ++ norm dir₁ ++ … ++ norm dirₙ`;
or it fails cleanly — when some stored base climbs (dead view), or when it is a mutation and the stack contains a
read-only mask.  The bottom stays in its good states. -/
theorem stack_refines {σ : Type} (B : Bottom σ) (b0 : List Name) (Good : σ → Prop) (α : σ → State)
    (hB : Refines B b0 Good α) (ls : List Layer) (s : σ) (op : Op) (hs : Good s) (hop : NotFilespace op) :
    Good (run B ls s op).1 ∧
    Outcome (rootOf ls) (hasReadOnly ls) b0 (α s) op (run B ls s op).2 (α (run B ls s op).1) :=
  run_outcome B b0 Good α hB ls s op hs hop

/-- … hence CONFINED: whatever the call did, every path of the bottom filespace that is not at or below the
stack's root is as it was (for a dead stack: every path). -/
theorem stack_confined {σ : Type} (B : Bottom σ) (b0 : List Name) (Good : σ → Prop) (α : σ → State)
    (hB : Refines B b0 Good α) (ls : List Layer) (s : σ) (op : Op) (hs : Good s) (hop : NotFilespace op)
    (hroot : ∀ b, rootOf ls = some b → RootDirs (b0 ++ b) (α s)) (q : List Name)
    (hq : ∀ b, rootOf ls = some b → ¬ (b0 ++ b) <+: q) :
    α (run B ls s op).1 q = α s q :=
  outcome_confined _ _ _ _ _ _ _ (run_outcome B b0 Good α hB ls s op hs hop).2 hroot q hq

/-- the same, spelled out for the memory filespace: any stack over `memfs`, any well-formed tree -/
theorem memory_stack_confined (ls : List Layer) (t : Node) (ht : MemFS.Inv t) (op : Op) (hop : NotFilespace op)
    (b : List Name) (hb : rootOf ls = some b) (hroot : RootDirs b (abs t)) (q : List Name) (hq : ¬ b <+: q) :
    abs (run memBottom ls t op).1 q = abs t q := by
  apply stack_confined memBottom [] MemFS.Inv abs memBottom_refines ls t op ht hop
  · intro b' hb'; rw [hb] at hb'; cases hb'; simpa using hroot
  · intro b' hb'; rw [hb] at hb'; cases hb'; simpa using hq

/-- WHATEVER THE BOTTOM IS (memory, the host below a disk root, a cache, anything — no assumption): every path
argument that reaches the bottom filespace resolves, by the `ReduceAbsPath` every bottom applies, to the root of
the stack followed by the normal form of the argument the caller gave; it climbs exactly when the stack is dead
(a climbing caller argument never gets that far).  The bottom is only ever asked about paths at or below the
stack's root. -/
theorem stack_delegates_under (ls : List Layer) (op op' : Op) (h : downAll ls op = some op') :
    (opArgs op').map norm = (opArgs op).map fun raw => argAt (rootOf ls) (norm raw) :=
  downAll_args ls op op' h

/-- a call through the stack is: refused by some layer, or exactly one call of the bottom with those arguments -/
theorem stack_is_one_bottom_call {σ : Type} (B : Bottom σ) (ls : List Layer) (s : σ) (op : Op) :
    run B ls s op = match downAll ls op with
      | none => (s, failResult op)
      | some op' => B.step s op' :=
  run_eq_downAll B ls s op

/-- A PATH THAT WOULD CLIMB IS REJECTED: through any stack over a refining bottom, a call with a climbing
argument (either argument of a copy) answers the failure of its method and changes nothing. -/
theorem climbing_rejected {σ : Type} (B : Bottom σ) (b0 : List Name) (Good : σ → Prop) (α : σ → State)
    (hB : Refines B b0 Good α) (ls : List Layer) (s : σ) (op : Op) (hs : Good s) (hop : NotFilespace op)
    (raw : Bytes) (hraw : raw ∈ opArgs op) (hn : norm raw = none) :
    (run B ls s op).2 = failResult op ∧ α (run B ls s op).1 = α s := by
  have h := (run_outcome B b0 Good α hB ls s op hs hop).2
  cases hr : rootOf ls with
  | none => rw [hr] at h; exact h
  | some b =>
    rw [hr] at h
    simp only [Outcome] at h
    split at h
    · exact h
    · exact step_climbing _ _ _ _ _ raw hraw hn h

/-- ROOT REMOVAL IS REFUSED FOR EVERY KIND: `Remove`/`RemoveAll` of a spelling of the view's own root (`""`,
`.`, `a/..` …) through any stack answers an error and changes nothing. -/
theorem root_removal_refused {σ : Type} (B : Bottom σ) (b0 : List Name) (Good : σ → Prop) (α : σ → State)
    (hB : Refines B b0 Good α) (ls : List Layer) (s : σ) (hs : Good s) (raw : Bytes) (hn : norm raw = some []) :
    ((run B ls s (.remove raw)).2 = .err ∧ α (run B ls s (.remove raw)).1 = α s)
    ∧ ((run B ls s (.removeAll raw)).2 = .err ∧ α (run B ls s (.removeAll raw)).1 = α s) := by
  have h1 := (run_outcome B b0 Good α hB ls s (.remove raw) hs (fun _ e => by cases e)).2
  have h2 := (run_outcome B b0 Good α hB ls s (.removeAll raw) hs (fun _ e => by cases e)).2
  cases hr : rootOf ls with
  | none => rw [hr] at h1 h2; exact ⟨h1, h2⟩
  | some b =>
    rw [hr] at h1 h2
    simp only [Outcome] at h1 h2
    constructor
    · split at h1
      · exact h1
      · exact (step_root_removal _ _ raw _ _ hn).1 h1
    · split at h2
      · exact h2
      · exact (step_root_removal _ _ raw _ _ hn).2 h2

/-- THE READ-ONLY MASK NEVER MUTATES: through a stack that contains a read-only mask (at any position), none
of the eight mutating methods reaches the bottom filespace at all — whatever the bottom is; the state is
literally unchanged and the answer is an error. -/
theorem readonly_never_mutates {σ : Type} (B : Bottom σ) (ls : List Layer) (s : σ) (op : Op)
    (hro : hasReadOnly ls = true) (hm : isMutator op = true) :
    downAll ls op = none ∧ run B ls s op = (s, .err) := by
  have h := readonly_refuses ls op hro hm
  refine ⟨h, ?_⟩
  rw [run_eq_downAll, h, failResult_mutator hm]

/-- THE ENCRYPTED VIEW DELEGATES NAMES UNCHANGED: it hands every call down as it is, adds nothing to the root,
and a stack with it on top behaves as the stack below it. -/
theorem encrypted_delegates_names {σ : Type} (B : Bottom σ) (dir : Bytes) (ls : List Layer) (s : σ) (op : Op) :
    (⟨.encrypted, dir⟩ : Layer).down op = some op
    ∧ run B (⟨.encrypted, dir⟩ :: ls) s op = run B ls s op
    ∧ rootOf (⟨.encrypted, dir⟩ :: ls) = rootOf ls :=
  ⟨rfl, rfl, by rw [rootOf_cons]; exact rootPlus_nil _⟩

/-- The memory wrapper layer of this model over the memory root IS the child view of the C01 model. -/
theorem wrapper_layer_is_memfs_view (dir : Bytes) (t : Node) (op : Op) (hop : NotFilespace op) :
    run memBottom [⟨.memWrapper, dir⟩] t op = MemFS.step (.wrap (dir ++ [slash])) t op :=
  wrapper_is_memfs_view dir t op hop

/-- VIEWS OF VIEWS: `Filespace(raw)` through a stack (any kind on top, any depth) yields a stack that is rooted
at or below the root of the stack it was opened from — or is dead; and its disk layers are live again, so the
statement applies to the views of the new view in turn.  (`DisksLive`: a disk layer stores what `filepath.Abs`
returned, a path that does not climb.) -/
theorem view_of_stack {σ : Type} (B : Bottom σ) (s : σ)
    (hview : ∀ raw l, B.view s raw = some l → l.kind ≠ .diskRoot) (ls : List Layer) (raw : Bytes)
    (ls' : List Layer) (hlive : DisksLive ls) (h : openView B s ls raw = some ls') :
    (∀ b', rootOf ls' = some b' → ∃ b, rootOf ls = some b ∧ b <+: b') ∧ DisksLive ls' :=
  ⟨openView_under B s ls raw ls' hlive h, openView_disksLive B s hview ls raw ls' hlive h⟩

/-! ### non-vacuity: a concrete three-layer stack (a view of a view of a view) and climbing paths -/

-- `demoStack` = encrypted view of the sub-path view `./in/` of the memory wrapper at `in` (rooted at in/in),
-- `demoRO` = the same below a read-only mask (depth 4), `demoTree` = secret at `s`, files `in/a`, `in/in/a`
-- (definitions in `Goat/Proofs/ViewsMem.lean`)
example : rootOf demoStack = some [[105, 110], [105, 110]] := by decide
example : rootOf demoRO = some [[105, 110], [105, 110]] ∧ hasReadOnly demoRO = true := by decide
example : DisksLive demoStack := by intro l hl hk; simp [demoStack, newEncrypted, newSubFS] at hl; rcases hl with rfl | rfl | rfl <;> simp at hk
-- reads inside; `../a` and `../../s` are refused; nothing reaches the bottom for them
example : (run memBottom demoStack demoTree (.readFile [97])).2 = .data [2] := by decide
example : (run memBottom demoStack demoTree (.readFile [46, 46, 47, 97])).2 = .err := by decide
example : downAll demoStack (.readFile [46, 46, 47, 46, 46, 47, 115]) = none := by decide
example : (run memBottom demoStack demoTree (.copy [46, 46, 47, 46, 46, 47, 115] [120])).2 = .err := by decide
-- what reaches the bottom for `x/../a`: the path in/in/a (the sub-path view stores `path.Clean("./in/")` = in)
example : downAll demoStack (.readFile [120, 47, 46, 46, 47, 97])
    = some (.readFile [105, 110, 47, 105, 110, 47, 97]) := by decide
-- a write inside succeeds and the secret is still there; the view's own root cannot be removed
example : (run memBottom demoStack demoTree (.writeFile [98] [9])).2 = .ok := by decide
example : (MemFS.step .root (run memBottom demoStack demoTree (.writeFile [98] [9])).1 (.readFile [115])).2
    = .data [83] := by decide
example : (run memBottom demoStack demoTree (.removeAll [97, 47, 46, 46])).2 = .err := by decide
example : norm [97, 47, 46, 46] = some [] := by decide
-- the read-only stack refuses the write without reaching the bottom, and still reads
example : downAll demoRO (.writeFile [98] [9]) = none ∧ isMutator (.writeFile [98] [9]) = true := by decide
example : (run memBottom demoRO demoTree (.readFile [97])).2 = .data [2] := by decide
-- views of views: the read-only child is a read-only mask over a sub-path view; a dead child (`..`) fails every call
example : openView memBottom demoTree demoRO [105, 110]
    = some (newReadOnly :: newSubFS [105, 110] :: demoStack) := by decide
example : rootOf (newReadOnly :: newSubFS [46, 46] :: demoStack) = none := by decide
example : (run memBottom (newReadOnly :: newSubFS [46, 46] :: demoStack) demoTree (.readFile [97])).2 = .err := by
  decide
example : MemFS.Inv demoTree := by
  have h0 := MemFS.inv_empty
  have h1 := memBottom_refines.good Node.empty (.writeFile [115] [83]) h0
  have h2 := memBottom_refines.good _ (.writeFile [105, 110, 47, 97] [1]) h1
  exact memBottom_refines.good _ (.writeFile [105, 110, 47, 105, 110, 47, 97] [2]) h2
example : NotFilespace (.readFile [97]) := fun _ e => by cases e

end Goat.C03
