/-
Property C04 — streams and cross-filespace copies are byte-exact and replace old content.

  "Opening a writer on a path, writing any chunks and closing it leaves a file whose content is exactly
   the concatenation of the chunks, whether or not a (longer or shorter) file existed there before; a
   reader returns exactly the stored bytes for any read-buffer sizes.  Consequently the stream-based copy
   helpers reproduce a source file or tree byte-for-byte in any destination backend, and report an error
   whenever the destination is not a complete copy."

Stated over the executable model `Goat/Model/Stream.lean` (writer/reader handles of the memory and disk
backends, the `io.Copy` loop with an arbitrary chunking oracle, `fshelper.StreamCopy`, `fshelper.Copy` over an
arbitrary visiting order, `fshelper.Copier.Do`; filesystems are the point-wise states of `Goat/Spec/FS.lean`).
Every theorem quantifies over all byte contents, all chunkings / read-buffer sizes (`List Nat` of any
length), all pre-existing destination states (`State` is an arbitrary function `Path → Option Entry`), both
destination kinds and both reader styles, all source trees, all visiting orders, and ALL FAULT PLANS
`pl : Stage → Nat → Option Mode` — any set of failing calls at any stage and index, of which the single
injected fault `oneFault s k m` (`planOf (some (s, k))` in DESIGN's notation) is a special case.  Modes: `hard`
(the call does nothing and fails) and `short` (a read delivers part of its bytes with a non-EOF error; a write
stores part of the chunk and reports fewer bytes; a writer `Close` loses the last chunk written and fails).

Vocabulary (Model/Stream.lean, Proofs/StreamHandle.lean, Proofs/StreamCopy.lean):
  `WHandle.open kind old`      the writer handle opened where `old : Option Bytes` stands (what the CURRENT code
                               does: both backends truncate); `.writes chunks`, `.close` = stored content
  `RHandle.open style data`    a reader handle; `.reads sizes` = per `Read` the bytes delivered and whether
                               `io.EOF` came with them; `delivered out` = concatenation of the delivered bytes
  `ioCopy pl sizes c r w`      `io.Copy(w, r)`: `sizes` = how many bytes each `Read` delivers at most
  `streamCopy pl sizes c src dst p`     `.ok` = returned nil, `.dst` = destination afterwards
  `treeCopy pl sizes extra c src sb dst db order`   `fshelper.Copy` of the source view rooted at `sb` into the
                               destination view rooted at `db`, callbacks in `order`, `extra` callbacks after the
                               first error
  `copierDo …`                 `fshelper.Copier.Do`
  `nodesOf t`                  the nodes of tree `t` below its root as `(isDir, path)`; `stateOf t` its state
  `overlay srcv db S0`         `srcv` laid over `S0` at `db`: under `db` what the source holds if anything,
                               everywhere else what `S0` holds
  `Visits srcv order`          `order` hands out exactly the nodes of `srcv` (C08's guarantee; `visits_of_perm`)

  `Disc`, `Sys`, `readerRun cfg ws sizes s`, `streamCopyRW cfg pl sizes c ws s dst dp`   (Model/Stream.lean 10)
                               ONE memory file, an open reader and a thread that rewrites the same file through
                               `Writer(p)` / `Write`* / `Close`, interleaved by the schedule `ws` (how many steps
                               of the rewriter before each action of the reader's thread); `cfg` = the locking
                               discipline (`Disc.memfs` = the CURRENT code, `Disc.seeded` = snapshot + in-place)

Trusted/assumed (also in checks/c04.py): `io.Copy` is modelled (stdlib contract); the AEAD of the encrypted
filespace is opaque (enc∘X is X seen from the plain side); that the walk visits a permutation of the nodes
and runs callbacks one at a time (`Consumers: 1`) is C08's theorem, taken as the hypothesis `Perm`.
-/
import Goat.Proofs.StreamOk
import Goat.Proofs.StreamConc

namespace Goat.C04

open Goat Goat.Stream
open Goat.FS (State Entry)

/-! ### 1. Writers -/

/-- WRITER, handle level.  For the memory and the disk writer, whatever stood at the path before (`none`,
a shorter file, a longer file) and whatever the chunks: after open / write chunks / close the file holds
exactly the concatenation of the chunks. -/
theorem writer_exact (kind : Backend) (old : Option Bytes) (chunks : List Bytes) :
    ((WHandle.open kind old).writes chunks).close = chunks.flatten := by
  have h := (writes_appending chunks (WHandle.open kind old) (open_appending kind old).1).1
  rw [(open_appending kind old).2] at h
  simpa [WHandle.close] using h

-- memory over a longer file, disk over a longer file: no stale tail; three chunks, one of them empty
example : ((WHandle.open .mem (some [1, 2, 3, 4, 5])).writes [[7], [], [8, 9]]).close = [7, 8, 9] := by decide
example : ((WHandle.open .disk (some [1, 2, 3, 4, 5])).writes [[7], [], [8, 9]]).close = [7, 8, 9] := by decide
-- what the property excludes, shown on the same model with the truncation switched off (the code before the
-- repairs): a memory writer that appends, a disk writer that leaves the old tail
example : ((WHandle.openWith false .mem (some [1, 2, 3])).writes [[7]]).close = [1, 2, 3, 7] := by decide
example : ((WHandle.openWith false .disk (some [1, 2, 3])).writes [[7]]).close = [7, 2, 3] := by decide

/-- WRITER, filesystem level.  `Writer(p)`, any chunks, `Close` on any destination state: when the writer
can be opened the path holds exactly the concatenation afterwards, nothing that is not an ancestor of `p`
changes, and the kind of filesystem is what it was. -/
theorem writer_replaces (D D' : Dest) (p : Path) (chunks : List Bytes) (h : D.writer p chunks = some D') :
    D'.st p = some (.file chunks.flatten) ∧ (∀ q, ¬ q <+: p → D'.st q = D.st q) ∧ D'.kind = D.kind := by
  unfold Dest.writer at h
  cases ho : D.openWriter p with
  | none => rw [ho] at h; cases h
  | some x =>
    obtain ⟨d1, w⟩ := x
    rw [ho] at h
    simp only [Option.some.injEq] at h
    subst h
    obtain ⟨_, hw, hk, hst⟩ := openWriter_some D p d1 w ho
    have hc : (w.writes chunks).content = chunks.flatten := by
      rw [hw]; exact writer_exact D.kind _ chunks
    simp only [Dest.store, hc, hst, put_put]
    refine ⟨put_same _ _ _, ?_, hk⟩
    intro q hq
    have hqp : q ≠ p := fun e => hq (e ▸ List.prefix_refl _)
    rw [put_other _ _ _ _ hqp]
    unfold openBase
    cases D.kind
    · simp only [FS.mkdirSt]
      rw [if_neg (fun hh => hq (hh.trans (List.dropLast_prefix p)))]
    · rfl

/-- The writer can be opened exactly when the path is not the root, is not a directory, and — memory: no
node on the way is a file (missing parents are created); disk: the parent directory exists. -/
theorem writer_ok_iff (D : Dest) (p : Path) (chunks : List Bytes) :
    (D.writer p chunks).isSome ↔
      p ≠ [] ∧ D.st p ≠ some .dir ∧
        (match D.kind with
         | .mem => FS.mkdirOk D.st p.dropLast
         | .disk => D.st p.dropLast = some .dir) := by
  have hcan : (D.writer p chunks).isSome ↔ D.canOpen p = true := by
    unfold Dest.writer Dest.openWriter
    by_cases h : D.canOpen p = true
    · simp [h]
    · simp [h]
  rw [hcan]
  unfold Dest.canOpen
  cases hk : D.kind <;>
    simp only [Bool.and_eq_true, Bool.not_eq_true', ne_eq, mkdirOkB_iff, isDirB_iff,
      Bool.eq_false_iff, and_assoc, List.isEmpty_iff]

/-- A memory writer is the specification's `Writer` of C01 (`FS.writeSt`): same post-state. -/
theorem writer_mem_is_spec (S : State) (D' : Dest) (p : Path) (chunks : List Bytes)
    (h : (Dest.mk .mem S).writer p chunks = some D') : D'.st = FS.writeSt S p chunks.flatten := by
  unfold Dest.writer at h
  cases ho : (Dest.mk .mem S).openWriter p with
  | none => rw [ho] at h; cases h
  | some x =>
    obtain ⟨d1, w⟩ := x
    rw [ho] at h
    simp only [Option.some.injEq] at h
    subst h
    obtain ⟨_, hw, _, hst⟩ := openWriter_some _ p d1 w ho
    have hc : (w.writes chunks).content = chunks.flatten := by
      rw [hw]; exact writer_exact _ _ chunks
    simp only [Dest.store, hc, hst, put_put]
    funext q
    simp only [put, FS.writeSt, openBase]

/-- a state with a longer file at `a/f`, directory `a`, root -/
def exState : State := fun q =>
  if q = [] then some .dir else if q = [[97]] then some .dir
  else if q = [[97], [102]] then some (.file [1, 2, 3, 4, 5]) else none

example : (Dest.mk .disk exState).writer [[97], [102]] [[7], [8]] ≠ none := by decide
example : ∃ D', (Dest.mk .mem exState).writer [[98], [102]] [[7], [8]] = some D' := ⟨_, rfl⟩
-- a disk writer does not create a missing parent, a writer on a directory is refused
example : (Dest.mk .disk exState).writer [[98], [102]] [[7]] = none := by decide
example : (Dest.mk .mem exState).writer [[97]] [[7]] = none := by decide

/-! ### 2. Readers -/

/-- READER.  Any stored bytes, any positive read-buffer sizes, both EOF styles: the concatenation of the
delivered bytes is a prefix of the data; once `io.EOF` has been reported it is all of the data; and `io.EOF` is
reported exactly when the end is reached — by the read that delivers the last byte (memory, decrypting
reader) or by the first read that finds nothing left (`*os.File`). -/
theorem reader_exact (style : EofStyle) (data : Bytes) (sizes : List Nat) (hpos : ∀ n ∈ sizes, 0 < n) :
    let out := (RHandle.open style data).reads sizes
    delivered out <+: data
    ∧ ((∃ x ∈ out, x.2 = true) → delivered out = data)
    ∧ (∀ pre x post, out = pre ++ x :: post →
        (x.2 = true ↔ match style with
          | .eager => delivered (pre ++ [x]) = data
          | .lazy => delivered pre = data)) := by
  intro out
  have he : out = chunksOf style data sizes := reads_eq sizes _ (open_ok style data)
  rw [he]
  refine ⟨delivered_prefix style sizes data, eof_all style sizes data hpos, ?_⟩
  intro pre x post hsplit
  cases style with
  | eager => exact eof_iff_eager sizes data pre x post hsplit
  | lazy => exact eof_iff_lazy sizes data hpos pre x post hsplit

/-- A memory reader is the specification's `Reader` of C01 (`FS.readChunks`). -/
theorem reader_mem_is_spec (data : Bytes) (sizes : List Nat) :
    (RHandle.open .eager data).reads sizes = FS.readChunks data sizes :=
  reads_eager_eq_readChunks data sizes

/-- Reading on until `io.EOF`: whenever the sizes add up to at least the length, everything is delivered. -/
theorem reader_all (style : EofStyle) (data : Bytes) (sizes : List Nat)
    (h : ∃ x ∈ (RHandle.open style data).reads sizes, x.2 = true) (hpos : ∀ n ∈ sizes, 0 < n) :
    delivered ((RHandle.open style data).reads sizes) = data :=
  (reader_exact style data sizes hpos).2.1 h

example : (RHandle.open .eager [1, 2, 3, 4, 5]).reads [2, 2, 7, 1]
    = [([1, 2], false), ([3, 4], false), ([5], true), ([], true)] := by decide
example : (RHandle.open .lazy [1, 2, 3, 4, 5]).reads [2, 2, 7, 1]
    = [([1, 2], false), ([3, 4], false), ([5], false), ([], true)] := by decide
example : ∀ n ∈ [2, 2, 7, 1], 0 < n := by decide

/-! ### 3. io.Copy -/

/-- `io.Copy` with no fault: for EVERY chunking (the sizes need not even be positive), both reader styles
and both writer kinds, whatever stood at the destination, it reports success and the writer holds exactly
the reader's data. -/
theorem ioCopy_exact (style : EofStyle) (kind : Backend) (data : Bytes) (old : Option Bytes) (sizes : List Nat)
    (c : Calls) :
    (ioCopy noFault sizes c (RHandle.open style data) (WHandle.open kind old)).ok = true
    ∧ (ioCopy noFault sizes c (RHandle.open style data) (WHandle.open kind old)).w.close = data := by
  have hok := ioCopy_noFault_ok sizes c (RHandle.open style data) (WHandle.open kind old) (open_ok _ _)
  refine ⟨hok, ?_⟩
  have := (ioCopy_ok_content noFault sizes c _ _ (open_appending kind old).1 (open_ok style data) hok).1
  rw [(open_appending kind old).2, open_rest] at this
  simpa [WHandle.close] using this

/-- `io.Copy` under ANY fault plan: success is reported only if the writer holds exactly the reader's data
(a failed or short read, a failed or short write always surface as an error). -/
theorem ioCopy_ok_complete (pl : Plan) (style : EofStyle) (kind : Backend) (data : Bytes) (old : Option Bytes)
    (sizes : List Nat) (c : Calls)
    (hok : (ioCopy pl sizes c (RHandle.open style data) (WHandle.open kind old)).ok = true) :
    (ioCopy pl sizes c (RHandle.open style data) (WHandle.open kind old)).w.close = data := by
  have := (ioCopy_ok_content pl sizes c _ _ (open_appending kind old).1 (open_ok style data) hok).1
  rw [(open_appending kind old).2, open_rest] at this
  simpa [WHandle.close] using this

example : (ioCopy noFault [1, 2] Calls.zero (RHandle.open .lazy [1, 2, 3, 4, 5]) (WHandle.open .disk (some [9, 9, 9, 9, 9, 9, 9]))).w.close
    = [1, 2, 3, 4, 5] := by decide
-- a short write on the second Write: reported, and the destination is indeed incomplete
example : (ioCopy (oneFault .write 1 .short) [2] Calls.zero (RHandle.open .eager [1, 2, 3, 4, 5]) (WHandle.open .mem none)).ok = false
    ∧ (ioCopy (oneFault .write 1 .short) [2] Calls.zero (RHandle.open .eager [1, 2, 3, 4, 5]) (WHandle.open .mem none)).w.close
      = [1, 2, 3] := by decide

/-! ### 4. StreamCopy -/

/-- `StreamCopy` with no fault: whenever the source path is a file and the destination's writer can be
opened (see `writer_ok_iff`), it returns nil and the destination path holds the source's bytes — for every
chunking, reader style, destination kind and pre-existing destination state. -/
theorem streamCopy_exact (sizes : List Nat) (c : Calls) (src : Src) (dst : Dest) (p : Path) (d : Bytes)
    (hsrc : src.st p = some (.file d)) (hcan : dst.canOpen p = true) :
    (streamCopy noFault sizes c src dst p).ok = true
    ∧ (streamCopy noFault sizes c src dst p).dst.st p = src.st p := by
  have hok := streamCopy2_noFault sizes c src p dst p d hsrc hcan
  refine ⟨hok, ?_⟩
  obtain ⟨d', hs, _, _, hst⟩ := streamCopy2_ok noFault sizes c src p dst p hok
  unfold streamCopy
  rw [hst, put_same, hs]

/-- `StreamCopy` under EVERY fault plan — in particular every single injected fault at every stage
(`Reader`, `Writer`, each `Read`, each `Write`, short reads and writes, either `Close`) and every index:
if it returns nil, the destination path holds exactly what the source path holds (a file), nothing that is
not an ancestor of the path has changed.  So an error is reported whenever the destination is not a complete
copy. -/
theorem streamCopy_ok_complete (pl : Plan) (sizes : List Nat) (c : Calls) (src : Src) (dst : Dest) (p : Path)
    (hok : (streamCopy pl sizes c src dst p).ok = true) :
    (streamCopy pl sizes c src dst p).dst.st p = src.st p
    ∧ (∃ d, src.st p = some (.file d))
    ∧ (∀ q, ¬ q <+: p → (streamCopy pl sizes c src dst p).dst.st q = dst.st q) := by
  obtain ⟨d, hs, _, _, hst⟩ := streamCopy2_ok pl sizes c src p dst p hok
  unfold streamCopy
  rw [hst]
  refine ⟨by rw [put_same, hs], ⟨d, hs⟩, ?_⟩
  intro q hq
  have hqp : q ≠ p := fun e => hq (e ▸ List.prefix_refl _)
  rw [put_other _ _ _ _ hqp]
  unfold openBase
  cases dst.kind
  · simp only [FS.mkdirSt]
    rw [if_neg (fun hh => hq (hh.trans (List.dropLast_prefix p)))]
  · rfl

/-- The same, read the other way round, for a single injected fault: a destination that is not a complete
copy always comes with an error. -/
theorem streamCopy_incomplete_reports (s : Stage) (k : Nat) (m : Mode) (sizes : List Nat) (c : Calls) (src : Src)
    (dst : Dest) (p : Path)
    (hbad : (streamCopy (oneFault s k m) sizes c src dst p).dst.st p ≠ src.st p) :
    (streamCopy (oneFault s k m) sizes c src dst p).ok = false := by
  cases h : (streamCopy (oneFault s k m) sizes c src dst p).ok with
  | false => rfl
  | true => exact absurd (streamCopy_ok_complete _ sizes c src dst p h).1 hbad

/-- the source: `a/f` = 1 2 3 4 5 read lazily -/
def exSrc : Src := ⟨.lazy, fun q =>
  if q = [] then some .dir else if q = [[97]] then some .dir
  else if q = [[97], [102]] then some (.file [9, 8, 7]) else none, true⟩

example : (streamCopy noFault [2] Calls.zero exSrc ⟨.disk, exState⟩ [[97], [102]]).ok = true := by decide
example : (streamCopy noFault [2] Calls.zero exSrc ⟨.disk, exState⟩ [[97], [102]]).dst.st [[97], [102]]
    = some (.file [9, 8, 7]) := by decide
-- the writer's Close fails: reported
example : (streamCopy (oneFault .closeWriter 0 .hard) [2] Calls.zero exSrc ⟨.disk, exState⟩ [[97], [102]]).ok = false := by
  decide
-- the writer's Close loses the last chunk (a backend that delivers its last bytes on Close): reported, and
-- the destination is indeed incomplete
example : (streamCopy (oneFault .closeWriter 0 .short) [2] Calls.zero exSrc ⟨.disk, exState⟩ [[97], [102]]).ok = false
    ∧ (streamCopy (oneFault .closeWriter 0 .short) [2] Calls.zero exSrc ⟨.disk, exState⟩ [[97], [102]]).dst.st [[97], [102]]
      = some (.file [9, 8]) := by decide
-- a directory as source path of a disk filespace (os.OpenFile opens it, the first Read fails): reported
example : (streamCopy noFault [2] Calls.zero exSrc ⟨.mem, exState⟩ [[97]]).ok = false := by decide
-- the second Read fails: reported, destination truncated to the first chunk
example : (streamCopy (oneFault .read 1 .hard) [2] Calls.zero exSrc ⟨.mem, exState⟩ [[97], [102]]).ok = false
    ∧ (streamCopy (oneFault .read 1 .hard) [2] Calls.zero exSrc ⟨.mem, exState⟩ [[97], [102]]).dst.st [[97], [102]]
      = some (.file [9, 8]) := by decide

/-! ### 5. Tree copy (`fshelper.Copy`) -/

/-- TREE COPY under EVERY fault plan, EVERY visiting order, EVERY pre-existing destination.
Source: any tree `t` with unique sibling names, seen through a view rooted at `sb`; the callbacks run in
`order`, any permutation of the tree's nodes (C08); destination view rooted at `db`, an existing
directory below existing directories.  If `Copy` returns nil then
  * every node of the source stands in the destination, byte for byte,
  * the whole destination is the source laid over the old destination: a path under `db` that is not a
    node of the source holds what it held, and nothing outside `db` has changed. -/
theorem treeCopy_ok_complete (pl : Plan) (sizes : List Nat) (extra : Nat) (c : Calls) (src : Src) (sb : Path)
    (dst : Dest) (db : Path) (k : Kids) (order : List Item)
    (hnd : (Node.dir k).NoDup) (hsrc : ∀ q, src.st (sb ++ q) = stateOf (.dir k) q)
    (hroot : ∀ x, x <+: db → dst.st x = some .dir)
    (hperm : order.Perm (nodesOf (.dir k)))
    (hok : (treeCopy pl sizes extra c src sb dst db order).ok = true) :
    (∀ q, stateOf (.dir k) q ≠ none →
        (treeCopy pl sizes extra c src sb dst db order).dst.st (db ++ q) = src.st (sb ++ q))
    ∧ (∀ q, stateOf (.dir k) q = none →
        (treeCopy pl sizes extra c src sb dst db order).dst.st (db ++ q) = dst.st (db ++ q))
    ∧ (∀ x, ¬ db <+: x → (treeCopy pl sizes extra c src sb dst db order).dst.st x = dst.st x) := by
  have hfun : (fun q => src.st (sb ++ q)) = stateOf (.dir k) := funext hsrc
  have hpre : CopyPre (fun q => src.st (sb ++ q)) db dst.st order := by
    refine ⟨hroot, ?_, ?_⟩
    · exact (hsrc []).trans rfl
    · rw [hfun]; exact visits_of_perm k hnd order hperm
  obtain ⟨hst, _⟩ := treeCopy_ok_overlay pl sizes extra c src sb dst db order hpre hok
  rw [hst]
  refine ⟨?_, ?_, fun x hx => overlay_outside _ _ _ _ hx⟩
  · intro q hq
    rw [overlay_under, hsrc]
    cases h : stateOf (.dir k) q with
    | none => exact absurd h hq
    | some e => rfl
  · intro q hq
    rw [overlay_under, hsrc, hq]

/-- TREE COPY SUCCEEDS AND REPRODUCES.  With no fault, for every chunking, reader style, destination kind,
visiting order and every pre-existing destination that is COMPATIBLE with the source (wherever both hold
something under the destination root it is of the same kind — longer, shorter, other content are all fine):
`Copy` returns nil, and therefore (previous theorem) the destination holds the source tree byte for byte. -/
theorem treeCopy_reproduces (sizes : List Nat) (extra : Nat) (c : Calls) (src : Src) (sb : Path)
    (dst : Dest) (db : Path) (k : Kids) (order : List Item)
    (hnd : (Node.dir k).NoDup) (hsrc : ∀ q, src.st (sb ++ q) = stateOf (.dir k) q)
    (hroot : ∀ x, x <+: db → dst.st x = some .dir)
    (hperm : order.Perm (nodesOf (.dir k)))
    (hcompat : ∀ q e e', stateOf (.dir k) q = some e → dst.st (db ++ q) = some e' → e.isDir = e'.isDir) :
    (treeCopy noFault sizes extra c src sb dst db order).ok = true
    ∧ ∀ q, stateOf (.dir k) q ≠ none →
        (treeCopy noFault sizes extra c src sb dst db order).dst.st (db ++ q) = src.st (sb ++ q) := by
  have hfun : (fun q => src.st (sb ++ q)) = stateOf (.dir k) := funext hsrc
  have hpre : CopyPre (fun q => src.st (sb ++ q)) db dst.st order := by
    refine ⟨hroot, (hsrc []).trans rfl, ?_⟩
    rw [hfun]; exact visits_of_perm k hnd order hperm
  have hok : (treeCopy noFault sizes extra c src sb dst db order).ok = true := by
    apply treeCopy_noFault_ok sizes extra c src sb dst db order hpre
    · intro it hit hf
      rw [hsrc]
      exact nodesOf_file k hnd it (hperm.mem_iff.mp hit) hf
    · intro x e e' hx ho
      by_cases hd : db <+: x
      · obtain ⟨q, rfl⟩ := hd
        rw [overlay_under, hsrc] at ho
        cases hs : stateOf (.dir k) q with
        | none => rw [hs] at ho; rw [hx] at ho; simp only [Option.some.injEq] at ho; rw [ho]
        | some e0 =>
          rw [hs] at ho
          simp only [Option.some.injEq] at ho
          subst ho
          exact hcompat q e0 e' hs hx
      · rw [overlay_outside _ _ _ _ hd, hx] at ho
        simp only [Option.some.injEq] at ho
        rw [ho]
  exact ⟨hok, (treeCopy_ok_complete noFault sizes extra c src sb dst db k order hnd hsrc hroot hperm hok).1⟩

/-- TREE COPY, the statement of DESIGN C04 (root filespaces): for every source tree, every pre-existing
destination and every visiting order that is a permutation of the source's nodes, `Copy = ok` implies that
every path of the source stands in the destination with the source's entry. -/
theorem treeCopy_exact (sizes : List Nat) (extra : Nat) (c : Calls) (style : EofStyle) (dirOpens : Bool) (k : Kids) (dst : Dest)
    (order : List Item) (hnd : (Node.dir k).NoDup) (hroot : dst.st [] = some .dir)
    (hperm : order.Perm (nodesOf (.dir k)))
    (hok : (treeCopy noFault sizes extra c ⟨style, stateOf (.dir k), dirOpens⟩ [] dst [] order).ok = true) :
    ∀ p, stateOf (.dir k) p ≠ none →
      (treeCopy noFault sizes extra c ⟨style, stateOf (.dir k), dirOpens⟩ [] dst [] order).dst.st p = stateOf (.dir k) p := by
  intro p hp
  have := (treeCopy_ok_complete noFault sizes extra c ⟨style, stateOf (.dir k), dirOpens⟩ [] dst [] k order hnd
    (fun q => rfl) (by intro x hx; rw [List.prefix_nil.mp hx]; exact hroot) hperm hok).1 p hp
  simpa using this

/-- TREE COPY under every single injected fault (stage, index, hard or short): `Copy = ok` implies the
destination is complete. -/
theorem treeCopy_fault (s : Stage) (j : Nat) (m : Mode) (sizes : List Nat) (extra : Nat) (c : Calls)
    (style : EofStyle) (dirOpens : Bool) (k : Kids) (dst : Dest) (order : List Item) (hnd : (Node.dir k).NoDup)
    (hroot : dst.st [] = some .dir) (hperm : order.Perm (nodesOf (.dir k)))
    (hok : (treeCopy (oneFault s j m) sizes extra c ⟨style, stateOf (.dir k), dirOpens⟩ [] dst [] order).ok = true) :
    ∀ p, stateOf (.dir k) p ≠ none →
      (treeCopy (oneFault s j m) sizes extra c ⟨style, stateOf (.dir k), dirOpens⟩ [] dst [] order).dst.st p
        = stateOf (.dir k) p := by
  intro p hp
  have := (treeCopy_ok_complete (oneFault s j m) sizes extra c ⟨style, stateOf (.dir k), dirOpens⟩ [] dst [] k order hnd
    (fun q => rfl) (by intro x hx; rw [List.prefix_nil.mp hx]; exact hroot) hperm hok).1 p hp
  simpa using this

/-- the source tree  d/ , d/x = 1 2 3 , f = (empty) -/
def exTree : Kids :=
  .cons [100] (.dir (.cons [120] (.file [1, 2, 3]) .nil)) (.cons [102] (.file []) .nil)

/-- a destination that already holds a longer `d/x`, an unrelated `keep`, and nothing else -/
def exDst : State := fun q =>
  if q = [] then some .dir else if q = [[100]] then some .dir
  else if q = [[100], [120]] then some (.file [9, 9, 9, 9, 9, 9]) else if q = [[107]] then some (.file [5]) else none

/-- a visiting order that is not the pre-order: file `f`, then `d/x` before its directory `d` -/
def exOrder : List Item := [(false, [[102]]), (false, [[100], [120]]), (true, [[100]])]

example : (Node.dir exTree).NoDup := by simp [exTree, Node.NoDup, Kids.NoDup, Kids.find]
example : nodesOf (.dir exTree) = [(true, [[100]]), (false, [[100], [120]]), (false, [[102]])] := by decide
example : exOrder.Perm (nodesOf (.dir exTree)) := by decide
example : exDst [] = some .dir := by decide
example : (treeCopy noFault [2] 0 Calls.zero ⟨.eager, stateOf (.dir exTree), false⟩ [] ⟨.disk, exDst⟩ [] exOrder).ok = true := by
  decide
example : (treeCopy noFault [2] 0 Calls.zero ⟨.eager, stateOf (.dir exTree), false⟩ [] ⟨.disk, exDst⟩ [] exOrder).dst.st [[100], [120]]
    = some (.file [1, 2, 3]) := by decide
-- the example destination is compatible with the example tree (its `d/x` is a longer FILE, `d` a directory)
example : ∀ q e e', stateOf (.dir exTree) q = some e → exDst ([] ++ q) = some e' → e.isDir = e'.isDir := by
  intro q e e' h1 h2
  simp only [List.nil_append, exDst] at h2
  split at h2
  · next hq => subst hq; simp [stateOf] at h1; subst h1; simp at h2; subst h2; rfl
  · split at h2
    · next hq => subst hq; simp [stateOf, exTree, Node.lookup, Kids.find, entryOf] at h1; subst h1; simp at h2; subst h2; rfl
    · split at h2
      · next hq =>
        subst hq; simp [stateOf, exTree, Node.lookup, Kids.find, entryOf] at h1; subst h1; simp at h2; subst h2; rfl
      · split at h2
        · next hq => subst hq; simp [stateOf, exTree, Node.lookup, Kids.find] at h1
        · simp at h2
-- the unrelated file is kept
example : (treeCopy noFault [2] 0 Calls.zero ⟨.eager, stateOf (.dir exTree), false⟩ [] ⟨.disk, exDst⟩ [] exOrder).dst.st [[107]]
    = some (.file [5]) := by decide
-- the second MkdirAll fails / the walk's second listing fails / a short write: always reported
example : (treeCopy (oneFault .mkdir 1 .hard) [2] 1 Calls.zero ⟨.eager, stateOf (.dir exTree), false⟩ [] ⟨.mem, exDst⟩ [] exOrder).ok
    = false := by decide
example : (treeCopy (oneFault .list 1 .hard) [2] 1 Calls.zero ⟨.eager, stateOf (.dir exTree), false⟩ [] ⟨.mem, exDst⟩ [] exOrder).ok
    = false := by decide
example : (treeCopy (oneFault .write 1 .short) [2] 1 Calls.zero ⟨.eager, stateOf (.dir exTree), false⟩ [] ⟨.mem, exDst⟩ [] exOrder).ok
    = false := by decide
-- a fault position beyond the last call never fires: the copy succeeds
example : (treeCopy (oneFault .write 2 .hard) [2] 1 Calls.zero ⟨.eager, stateOf (.dir exTree), false⟩ [] ⟨.mem, exDst⟩ [] exOrder).ok
    = true := by decide

/-! ### 6. Copier.Do -/

/-- COPIER under EVERY fault plan.  `Copier{SrcFS, SrcPath, DestFS, DestPath}.Do()` returning nil means:
  * file source: the destination path holds exactly the source file's bytes, nothing that is not an ancestor
    of the destination path has changed;
  * directory source (any tree with unique sibling names standing at `SrcPath`, any visiting order that is a
    permutation of its nodes, any pre-existing destination): `DestPath` and its ancestors are directories,
    every node of the source subtree stands under `DestPath` byte for byte, every other path under `DestPath`
    holds what it held, and nothing outside `DestPath` other than its (created) ancestors has changed;
  * anything else at `SrcPath`: `Do` never returns nil. -/
theorem copier_exact (pl : Plan) (sizes : List Nat) (extra : Nat) (c : Calls) (src : Src) (sp : Path)
    (dst : Dest) (dp : Path) (order : List Item)
    (hok : (copierDo pl sizes extra c src sp dst dp order).ok = true) :
    (∀ d, src.st sp = some (.file d) →
        (copierDo pl sizes extra c src sp dst dp order).dst.st dp = some (.file d)
        ∧ ∀ q, ¬ q <+: dp → (copierDo pl sizes extra c src sp dst dp order).dst.st q = dst.st q)
    ∧ (∀ k, (Node.dir k).NoDup → (∀ q, src.st (sp ++ q) = stateOf (.dir k) q) → order.Perm (nodesOf (.dir k)) →
        (∀ q, stateOf (.dir k) q ≠ none →
            (copierDo pl sizes extra c src sp dst dp order).dst.st (dp ++ q) = src.st (sp ++ q))
        ∧ (∀ q, stateOf (.dir k) q = none →
            (copierDo pl sizes extra c src sp dst dp order).dst.st (dp ++ q) = dst.st (dp ++ q))
        ∧ (∀ x, ¬ dp <+: x → ¬ x <+: dp → (copierDo pl sizes extra c src sp dst dp order).dst.st x = dst.st x))
    ∧ src.st sp ≠ none := by
  refine ⟨?_, ?_, ?_⟩
  · intro d hd
    rw [copierDo_file pl sizes extra c src sp dst dp order d hd] at hok ⊢
    obtain ⟨d', hs, _, _, hst⟩ := streamCopy2_ok pl sizes c src sp dst dp hok
    rw [hd] at hs
    simp only [Option.some.injEq, Entry.file.injEq] at hs
    subst hs
    rw [hst]
    refine ⟨put_same _ _ _, ?_⟩
    intro q hq
    have hqp : q ≠ dp := fun e => hq (e ▸ List.prefix_refl _)
    rw [put_other _ _ _ _ hqp]
    unfold openBase
    cases dst.kind
    · simp only [FS.mkdirSt]
      rw [if_neg (fun hh => hq (hh.trans (List.dropLast_prefix dp)))]
    · rfl
  · intro k hnd hsrc hperm
    have hfun : (fun q => src.st (sp ++ q)) = stateOf (.dir k) := funext hsrc
    have hdir : src.st sp = some .dir := by
      have := hsrc []
      rw [List.append_nil] at this
      rw [this]; rfl
    have hv : Visits (fun q => src.st (sp ++ q)) order := by
      rw [hfun]; exact visits_of_perm k hnd order hperm
    obtain ⟨hst, _⟩ := copierDo_dir_ok pl sizes extra c src sp dst dp order hdir hv hok
    rw [hst]
    refine ⟨?_, ?_, ?_⟩
    · intro q hq
      rw [overlay_under, hsrc]
      cases h : stateOf (.dir k) q with
      | none => exact absurd h hq
      | some e => rfl
    · intro q hq
      rw [overlay_under, hsrc, hq]
      by_cases hqe : q = []
      · subst hqe
        -- `DestPath` itself: the source root is a directory, so this case does not arise
        exact absurd hq (by simp [stateOf])
      · simp only [FS.mkdirSt]
        rw [if_neg]
        intro hh
        have := hh.length_le
        rw [List.length_append] at this
        have : q.length = 0 := by omega
        exact hqe (List.length_eq_zero_iff.mp this)
    · intro x hx hx'
      rw [overlay_outside _ _ _ _ hx]
      simp only [FS.mkdirSt]
      rw [if_neg hx']
  · intro hn
    unfold copierDo at hok
    rw [hn] at hok
    simp at hok

/-- COPIER SUCCEEDS AND REPRODUCES (directory source).  With no fault, whenever `DestPath` can be made a
directory (no file on the way to it) and what already stands below it is compatible with the source subtree
(same kind wherever both hold something), `Do` returns nil and every node of the source subtree stands under
`DestPath` byte for byte — for every chunking, backend kind, visiting order. -/
theorem copier_reproduces (sizes : List Nat) (extra : Nat) (c : Calls) (src : Src) (sp : Path)
    (dst : Dest) (dp : Path) (k : Kids) (order : List Item)
    (hnd : (Node.dir k).NoDup) (hsrc : ∀ q, src.st (sp ++ q) = stateOf (.dir k) q)
    (hperm : order.Perm (nodesOf (.dir k))) (hmk : FS.mkdirOk dst.st dp)
    (hcompat : ∀ q e e', q ≠ [] → stateOf (.dir k) q = some e → dst.st (dp ++ q) = some e' → e.isDir = e'.isDir) :
    (copierDo noFault sizes extra c src sp dst dp order).ok = true
    ∧ ∀ q, stateOf (.dir k) q ≠ none →
        (copierDo noFault sizes extra c src sp dst dp order).dst.st (dp ++ q) = src.st (sp ++ q) := by
  have hfun : (fun q => src.st (sp ++ q)) = stateOf (.dir k) := funext hsrc
  have hdir : src.st sp = some .dir := by
    have := hsrc []
    rw [List.append_nil] at this
    rw [this]; rfl
  have hv : Visits (fun q => src.st (sp ++ q)) order := by
    rw [hfun]; exact visits_of_perm k hnd order hperm
  have hok : (copierDo noFault sizes extra c src sp dst dp order).ok = true := by
    apply copierDo_dir_noFault_ok sizes extra c src sp dst dp order hdir hv
    · intro it hit hf
      rw [hsrc]
      exact nodesOf_file k hnd it (hperm.mem_iff.mp hit) hf
    · exact (mkdirOkB_iff dst.st dp).mpr hmk
    · intro x e e' hx ho
      by_cases hd : dp <+: x
      · obtain ⟨q, rfl⟩ := hd
        rw [overlay_under, hsrc] at ho
        cases hs : stateOf (.dir k) q with
        | none => rw [hs] at ho; rw [hx] at ho; simp only [Option.some.injEq] at ho; rw [ho]
        | some e0 =>
          rw [hs] at ho
          simp only [Option.some.injEq] at ho
          subst ho
          by_cases hq : q = []
          · subst hq
            simp only [List.append_nil, FS.mkdirSt, List.prefix_refl, if_true, Option.some.injEq] at hx
            subst hx
            simp [stateOf] at hs
            subst hs
            rfl
          · have hx' : dst.st (dp ++ q) = some e' := by
              simp only [FS.mkdirSt] at hx
              rw [if_neg] at hx
              · exact hx
              · intro hh
                have := hh.length_le
                rw [List.length_append] at this
                exact hq (List.length_eq_zero_iff.mp (by omega))
            exact hcompat q e0 e' hq hs hx'
      · rw [overlay_outside _ _ _ _ hd, hx] at ho
        simp only [Option.some.injEq] at ho
        rw [ho]
  exact ⟨hok, ((copier_exact noFault sizes extra c src sp dst dp order hok).2.1 k hnd hsrc hperm).1⟩

/-- the destination's ancestors: `DestPath` and everything above it are directories after a successful
directory copy -/
theorem copier_makes_dest_dir (pl : Plan) (sizes : List Nat) (extra : Nat) (c : Calls) (src : Src) (sp : Path)
    (dst : Dest) (dp : Path) (order : List Item) (k : Kids) (hnd : (Node.dir k).NoDup)
    (hsrc : ∀ q, src.st (sp ++ q) = stateOf (.dir k) q) (hperm : order.Perm (nodesOf (.dir k)))
    (hok : (copierDo pl sizes extra c src sp dst dp order).ok = true) :
    ∀ x, x <+: dp → (copierDo pl sizes extra c src sp dst dp order).dst.st x = some .dir := by
  have hfun : (fun q => src.st (sp ++ q)) = stateOf (.dir k) := funext hsrc
  have hdir : src.st sp = some .dir := by
    have := hsrc []
    rw [List.append_nil] at this
    rw [this]; rfl
  have hv : Visits (fun q => src.st (sp ++ q)) order := by
    rw [hfun]; exact visits_of_perm k hnd order hperm
  obtain ⟨hst, _⟩ := copierDo_dir_ok pl sizes extra c src sp dst dp order hdir hv hok
  intro x hx
  rw [hst]
  by_cases hd : dp <+: x
  · have : x = dp := (List.IsPrefix.eq_of_length_le hd (hx.length_le)).symm
    subst this
    have := overlay_under (fun q => src.st (sp ++ q)) x [] (FS.mkdirSt dst.st x)
    rw [List.append_nil] at this
    rw [this]
    simp only [List.append_nil, hdir]
  · rw [overlay_outside _ _ _ _ hd]
    simp [FS.mkdirSt, hx]

/-- the source filespace holds the example tree at `s` -/
def exSrc2 : Src := ⟨.eager, fun q =>
  match q with
  | [] => some .dir
  | s :: r => if s = [115] then stateOf (.dir exTree) r else none, false⟩

example : ∀ q, exSrc2.st ([[115]] ++ q) = stateOf (.dir exTree) q := fun _ => rfl
-- directory source into `t/u` of a destination where neither exists; file source `s/f` to `g`
example : (copierDo noFault [1] 0 Calls.zero exSrc2 [[115]] ⟨.mem, exDst⟩ [[116], [117]] exOrder).ok = true := by decide
example : (copierDo noFault [1] 0 Calls.zero exSrc2 [[115]] ⟨.mem, exDst⟩ [[116], [117]] exOrder).dst.st
    [[116], [117], [100], [120]] = some (.file [1, 2, 3]) := by decide
example : (copierDo noFault [1] 0 Calls.zero exSrc2 [[115], [100], [120]] ⟨.mem, exDst⟩ [[103]] []).dst.st [[103]]
    = some (.file [1, 2, 3]) := by decide
-- neither file nor directory: refused; the destination view cannot be opened: reported
example : (copierDo noFault [1] 0 Calls.zero exSrc2 [[122]] ⟨.mem, exDst⟩ [[103]] []).ok = false := by decide
example : (copierDo (oneFault .dstView 0 .hard) [1] 0 Calls.zero exSrc2 [[115]] ⟨.mem, exDst⟩ [[116]] exOrder).ok = false := by
  decide

/-! ### 7. An open reader while the same file is rewritten -/

/-- READER ISOLATED FROM A REWRITE.  One memory file holding `old` (in an array with any spare capacity
`slack`); a reader's thread (`Reader(p)`, one `Read` per size, `Close`) and a rewriting thread (`Writer(p)`, one
`Write` per chunk, `Close`) run under ANY schedule `ws` (any number of rewriter steps before the open, before
every `Read`, before the `Close`; a thread that needs the lock waits), for EVERY discipline but snapshot +
in-place truncation — in particular the current memfs `Disc.memfs` (handles hold the file's lock from open to
Close) and `Disc.priv` (the decrypting reader, a cache reader of a remote file).  Then
  * what the reader delivers is exactly what a private sequential reader of `atOpen` — the content the file
    had when the reader was opened — delivers for the same buffer sizes (as `sizes` is arbitrary this holds at
    every point between open and Close): a prefix of that content, all of it once `io.EOF` has been reported;
  * that content is the old one or the chunks' concatenation, whole (never a mix), and the old one when the
    reader was opened before the rewriter made its first step;
  * nobody hangs, and after both have closed the file holds exactly the chunks' concatenation. -/
theorem reader_isolated_from_rewrite (cfg : Disc) (hsafe : cfg.safe = true) (old slack : Bytes)
    (chunks : List Bytes) (sizes ws : List Nat) :
    let r := readerRun cfg ws sizes (Sys.init old slack chunks)
    (r.atOpen = old ∨ r.atOpen = chunks.flatten)
    ∧ (ws.headD 0 = 0 → r.atOpen = old)
    ∧ r.out = (RHandle.open .eager r.atOpen).reads sizes
    ∧ delivered r.out <+: r.atOpen
    ∧ ((∀ n ∈ sizes, 0 < n) → (∃ x ∈ r.out, x.2 = true) → delivered r.out = r.atOpen)
    ∧ r.fin.cell.content = chunks.flatten ∧ r.fin.phase = .closed ∧ r.fin.cell.locked = false ∧ r.fin.rd = none := by
  intro r
  obtain ⟨h1, h2, h3, h4⟩ := readerRun_spec cfg hsafe old slack chunks sizes ws
  refine ⟨h1, h2, h3, ?_, ?_, h4⟩
  · rw [h3, reads_eq sizes _ (open_ok _ _)]; exact delivered_prefix .eager sizes _
  · intro hpos heof
    rw [h3] at heof ⊢
    exact (reader_exact .eager _ sizes hpos).2.1 heof

/-- THE WRITER WAITS (the code's discipline, `cfg.rd = lock`: `NewFileHandler` takes `dataMU.Lock()`, `Close`
gives it back).  A reader opened before the rewriter's first step keeps the rewriter before its open until the
reader's `Close`, whatever the schedule: just before that `Close` the rewriter has not truncated or written
anything — the file still holds `old` and all chunks are still to be written. -/
theorem writer_waits_for_open_reader (cfg : Disc) (hlock : cfg.rd = .lock) (old slack : Bytes) (chunks : List Bytes)
    (sizes ws : List Nat) (hfirst : ws.headD 0 = 0) :
    let r := readerRun cfg ws sizes (Sys.init old slack chunks)
    r.atOpen = old ∧ r.beforeClose.phase = .idle ∧ r.beforeClose.cell.content = old ∧ r.beforeClose.todo = chunks :=
  readerRun_writer_waits cfg hlock old slack chunks sizes ws hfirst

/-- the discipline of the current code, of the private-copy readers, and each half of the seeded change alone
are covered by the theorem; the seeded combination is not -/
example : Disc.memfs.safe = true ∧ Disc.priv.safe = true ∧ (Disc.mk .alias .fresh).safe = true
    ∧ (Disc.mk .lock .inPlace).safe = true ∧ (Disc.mk .copy .inPlace).safe = true ∧ Disc.seeded.safe = false := by decide

-- the hypotheses of `writer_waits_for_open_reader` hold for the current memfs and the schedules used below
example : Disc.memfs.rd = .lock ∧ ([0, 0, 50] : List Nat).headD 0 = 0 := ⟨rfl, rfl⟩
example : (readerRun Disc.memfs [0, 0, 50] [2, 2, 7] (Sys.init [1, 2, 3, 4, 5, 6] [] [[7, 8], [9]])).beforeClose.todo = [[7, 8], [9]] := by
  decide
-- the interleaving `open reader; read 1 buffer; (other thread) Writer … ; read the rest; Close`: under the
-- code's discipline the rewriter's 50 attempted steps change nothing, the reader delivers the old bytes, and
-- afterwards the file holds the new ones
example : (readerRun Disc.memfs [0, 0, 50] [2, 2, 7] (Sys.init [1, 2, 3, 4, 5, 6] [] [[7, 8], [9]])).out
    = [([1, 2], false), ([3, 4], false), ([5, 6], true)] := by decide
example : (readerRun Disc.memfs [0, 0, 50] [2, 2, 7] (Sys.init [1, 2, 3, 4, 5, 6] [] [[7, 8], [9]])).beforeClose.phase = .idle := by
  decide
example : (readerRun Disc.memfs [0, 0, 50] [2, 2, 7] (Sys.init [1, 2, 3, 4, 5, 6] [] [[7, 8], [9]])).fin.cell.content = [7, 8, 9] := by
  decide
-- a private-copy reader does not hold the rewriter up (it has finished before the reader closes): same bytes
example : (readerRun Disc.priv [0, 0, 50] [2, 2, 7] (Sys.init [1, 2, 3, 4, 5, 6] [] [[7, 8], [9]])).out
    = [([1, 2], false), ([3, 4], false), ([5, 6], true)]
    ∧ (readerRun Disc.priv [0, 0, 50] [2, 2, 7] (Sys.init [1, 2, 3, 4, 5, 6] [] [[7, 8], [9]])).beforeClose.phase = .closed := by
  decide
-- each half of the seeded change alone, same schedule: the old bytes
example : (readerRun ⟨.alias, .fresh⟩ [0, 0, 50] [2, 2, 7] (Sys.init [1, 2, 3, 4, 5, 6] [] [[7, 8], [9]])).out
    = [([1, 2], false), ([3, 4], false), ([5, 6], true)] := by decide
example : (readerRun ⟨.lock, .inPlace⟩ [0, 0, 50] [2, 2, 7] (Sys.init [1, 2, 3, 4, 5, 6] [] [[7, 8], [9]])).out
    = [([1, 2], false), ([3, 4], false), ([5, 6], true)] := by decide
-- the rewriter has opened first (one step): the reader waits for its Close and reads the new content, whole
example : (readerRun Disc.memfs [1] [2, 2] (Sys.init [1, 2, 3, 4, 5, 6] [] [[7, 8], [9]])).out
    = [([7, 8], false), ([9], true)]
    ∧ (readerRun Disc.memfs [1] [2, 2] (Sys.init [1, 2, 3, 4, 5, 6] [] [[7, 8], [9]])).atOpen = [7, 8, 9] := by decide
-- a rewrite that outgrows the old array (spare capacity 1): the same
example : (readerRun Disc.memfs [0, 0, 3, 9] [2, 2, 7] (Sys.init [1, 2, 3] [0] [[7, 8], [9, 9, 9]])).out
    = [([1, 2], false), ([3], true), ([], true)]
    ∧ (readerRun Disc.memfs [0, 0, 3, 9] [2, 2, 7] (Sys.init [1, 2, 3] [0] [[7, 8], [9, 9, 9]])).fin.cell.content
      = [7, 8, 9, 9, 9] := by decide

/-- STREAMCOPY WHOSE SOURCE IS REWRITTEN WHILE IT RUNS.  `fshelper.StreamCopy` from a memory file that another
thread rewrites (`Writer`, chunks, `Close`) under ANY schedule, ANY fault plan and chunking, any destination,
for every discipline but snapshot + in-place truncation: the helper's outcome — verdict, calls made,
destination — is EXACTLY that of the sequential `StreamCopy` (`streamCopy2`, the subject of
`streamCopy_ok_complete`) from a source holding `d`, where `d` is the old content or the chunks' concatenation,
whole (the old one if the copy's reader was opened before the rewriter's first step).  So it copies the old
content completely or the new content completely — never a mix — or reports an error; and the rewrite itself
is intact: afterwards the source holds the chunks' concatenation and nobody hangs. -/
theorem streamCopy_source_rewritten (cfg : Disc) (hsafe : cfg.safe = true) (pl : Plan) (sizes : List Nat) (c : Calls)
    (ws : List Nat) (old slack : Bytes) (chunks : List Bytes) (S : State) (sp : Path) (dst : Dest) (dp : Path) :
    let o := streamCopyRW cfg pl sizes c ws (Sys.init old slack chunks) dst dp
    (∃ d, (d = old ∨ d = chunks.flatten) ∧ (ws.headD 0 = 0 → d = old)
        ∧ o.1 = streamCopy2 pl sizes c ⟨.eager, put S sp d, false⟩ sp dst dp
        ∧ (o.1.ok = true → o.1.dst.st dp = some (.file d)))
    ∧ o.2.cell.content = chunks.flatten ∧ o.2.phase = .closed ∧ o.2.cell.locked = false ∧ o.2.rd = none := by
  intro o
  obtain ⟨d, hd, hfirst, heq, hfin⟩ := streamCopyRW_spec cfg hsafe pl sizes c ws old slack chunks S sp dst dp
  refine ⟨⟨d, hd, hfirst, heq, ?_⟩, hfin⟩
  intro hok
  have hok' : (streamCopy2 pl sizes c ⟨.eager, put S sp d, false⟩ sp dst dp).ok = true := by rw [← heq]; exact hok
  obtain ⟨d', hs, _, _, hst⟩ := streamCopy2_ok pl sizes c _ sp dst dp hok'
  have hdd : d' = d := by
    have : put S sp d sp = some (.file d') := hs
    rw [put_same] at this
    simpa using this.symm
  show (streamCopyRW cfg pl sizes c ws (Sys.init old slack chunks) dst dp).1.dst.st dp = _
  rw [heq, hst, put_same, hdd]

/-- a destination with only its root -/
def rootOnly : State := fun q => if q = [] then some .dir else none

-- the copy's reader has delivered one buffer when the rewriter tries: under the code's discipline the copy is the
-- old content, complete, and the source ends up with the new one
example : (streamCopyRW Disc.memfs noFault [2] Calls.zero [0, 0, 50] (Sys.init [1, 2, 3, 4, 5, 6] [] [[7, 8], [9]])
      ⟨.mem, rootOnly⟩ [[102]]).1.ok = true
    ∧ (streamCopyRW Disc.memfs noFault [2] Calls.zero [0, 0, 50] (Sys.init [1, 2, 3, 4, 5, 6] [] [[7, 8], [9]])
      ⟨.mem, rootOnly⟩ [[102]]).1.dst.st [[102]] = some (.file [1, 2, 3, 4, 5, 6])
    ∧ (streamCopyRW Disc.memfs noFault [2] Calls.zero [0, 0, 50] (Sys.init [1, 2, 3, 4, 5, 6] [] [[7, 8], [9]])
      ⟨.mem, rootOnly⟩ [[102]]).2.cell.content = [7, 8, 9] := by decide
-- the rewriter was first: the new content, complete; a failing second Read: reported
example : (streamCopyRW Disc.memfs noFault [2] Calls.zero [1] (Sys.init [1, 2, 3, 4, 5, 6] [] [[7, 8], [9]])
      ⟨.disk, rootOnly⟩ [[102]]).1.dst.st [[102]] = some (.file [7, 8, 9]) := by decide
example : (streamCopyRW Disc.memfs (oneFault .read 1 .hard) [2] Calls.zero [0, 0, 50]
      (Sys.init [1, 2, 3, 4, 5, 6] [] [[7, 8], [9]]) ⟨.mem, rootOnly⟩ [[102]]).1.ok = false := by decide

/-- SNAPSHOT + TRUNCATION IN PLACE MIXES (the seeded change C04-5, `Disc.seeded`: `Reader` keeps the slice
header `file.data` and lets go of the lock, `Writer` truncates with `file.data[:0]`).  Explicit witness: a file
of six bytes, a reader that has not read anything yet when the rewrite `78 | 9` happens, then reads on: it was
opened on the old content, reports `io.EOF`, and what it delivered is the new bytes followed by the old tail —
a prefix of neither the old nor the new content, bytes that were never the file's content.  `StreamCopy` under
the same schedule returns nil with a destination that is neither the old nor the new source, while the source
itself holds the new content. -/
theorem snapshot_truncate_in_place_mixes :
    ∃ (old : Bytes) (chunks : List Bytes) (sizes ws : List Nat),
      (let r := readerRun Disc.seeded ws sizes (Sys.init old [] chunks)
       r.atOpen = old ∧ (∃ x ∈ r.out, x.2 = true)
       ∧ ¬ delivered r.out <+: old ∧ ¬ delivered r.out <+: chunks.flatten
       ∧ delivered r.out = chunks.flatten ++ old.drop chunks.flatten.length
       ∧ r.fin.cell.content = chunks.flatten)
      ∧ (let o := streamCopyRW Disc.seeded noFault sizes Calls.zero ws (Sys.init old [] chunks) ⟨.mem, rootOnly⟩ [[102]]
         o.1.ok = true ∧ o.1.dst.st [[102]] ≠ some (.file old) ∧ o.1.dst.st [[102]] ≠ some (.file chunks.flatten)
         ∧ o.1.dst.st [[102]] = some (.file (chunks.flatten ++ old.drop chunks.flatten.length))
         ∧ o.2.cell.content = chunks.flatten) :=
  ⟨[1, 2, 3, 4, 5, 6], [[7, 8], [9]], [2, 2, 2], [0, 50], by decide⟩

-- the same with the reader in the middle of the file when the rewrite happens: old head, new middle, old tail
example : delivered (readerRun Disc.seeded [0, 0, 50] [2, 2, 7] (Sys.init [1, 2, 3, 4, 5, 6] [] [[7, 8], [9]])).out
    = [1, 2, 9, 4, 5, 6] := by decide
-- a rewrite that does not fit into the old array is not seen by the snapshot (the first chunk is: it fits)
example : delivered (readerRun Disc.seeded [0, 50] [7] (Sys.init [1, 2, 3] [] [[7, 8], [9, 9]])).out = [7, 8, 3] := by
  decide

end Goat.C04
