/-
Property C05 — encrypted filespace: round-trip, secrecy, integrity, no crash on bad data — stated over the
executable model `Goat/Model/Encrypt.lean`.

  "Whatever is written through the encrypted filespace (whole-file or stream) is read back identically
   through either path by a filespace with the same secret, salt and host binding, while the underlying
   filespace never contains the plaintext and two writes of the same data give different stored bytes.
   Stored bytes that were produced with another secret or salt, or were modified, truncated or emptied, are
   answered with an error - never with data and never with a panic; all name-space operations behave
   exactly as on the underlying filespace."

LEVEL: PARTIAL.  What is proved here is everything AROUND the AEAD: framing, totality (no panic, no leaked
handle), propagation of a refusal, which key reaches `open`, how the nonce enters the stored bytes, that the
plaintext enters them only through `seal`, delegation.  The primitives are parameters: `a : AEAD`
(`seal`/`open`/`nonceSize`/`overhead`), the key-material hash `H`, and `ent` — the bytes `crypto/rand`
delivers.  Their laws appear as HYPOTHESES (`a.Lawful` = `open_seal` + `len_seal`; "no collision of `H` on
this pair"), never as axioms, and `toyAEAD` (a lawful instance) makes every statement non-vacuous.
"Another key / modified bytes → error" therefore reduces to authenticity of AES-GCM, "no plaintext in the
store" to its confidentiality, "two writes differ" to freshness of `crypto/rand`: these are assumptions of
the trusted base, exercised on the real code by `harness/cmd/enc oracle`, not proved.

The unrestricted statement "another secret or salt is answered with an error" is FALSE for this code
(`key_concat_collision`, known finding KF-C05-1): the key material is the plain concatenation
`secret ++ host? ++ salt`.  `other_key` is proved under the negated defect predicate (different
concatenations).

Vocabulary (`Goat/Model/Encrypt.lean`, `Goat/Proofs/Encrypt*.lean`, namespace `Goat.Enc`):
  `mkCipher a H k`    the cipher of kind `k` (`raw` = aesgcm256cfs, `tagged` = extcfs default) of the current tree
  `c.writeVia wp km ent chunks`   bytes stored when `chunks` are written via `wp` (`whole`: one WriteFile of
                      `chunks.flatten`; `stream`: Writer, one Write per chunk, Close) with key material `km`
  `c.readVia rp km stored bad sizes`  reading `stored` via `rp` (`stream`: one `Read` per buffer size in `sizes`,
                      then the rest); `.res` = chunks delivered | error | panic, `.leak` = source handle left open;
                      `bad` = the underlying stream fails instead of reporting EOF
  `content cs`        the bytes delivered, concatenated;  `deliver rp d sizes` what a read delivers of content `d`
  `k.header`          `[]` for `raw`, the 4-byte little-endian tag `0` for `tagged`
  `keyMaterial host set`  `set.secret ++ (if set.hostOnly then host else []) ++ set.salt`
  `ofOpen`            `some p ↦ ok p`, `none ↦ err auth`
  `hstep c kms ent s st` / `hrun c kms ent s steps`  (`Goat/Model/EncHandles.lean`) one step / a history over a state
                      of files and numbered handles (`Handle.reader rest`, `Handle.writer fs file w`), filespace i has
                      key material `kms[i]`; `none` = not well formed; `st.handle?` the handle a step addresses
-/
import Goat.Proofs.EncryptFS
import Goat.Proofs.EncHandles

namespace Goat.C05

open Goat Goat.Enc

/-! ### 1. Round trip: all four write/read path pairs, any chunking, both ciphers -/

/-- Whatever is written (in any chunks, through either path) is delivered back (for any read buffer sizes,
through either path) by the same key material; nothing panics, no handle is left open. -/
theorem roundtrip (a : AEAD) (hl : a.Lawful) (H : Bytes → Bytes) (k : Kind) (wp rp : Path2)
    (km ent : Bytes) (chunks : List Bytes) (sizes : List Nat) (hent : a.nonceSize ≤ ent.length) :
    ∃ stored cs, (mkCipher a H k).writeVia wp km ent chunks = .ok stored ∧
      (mkCipher a H k).readVia rp km stored false sizes = { res := .ok cs, leak := false } ∧
      content cs = chunks.flatten :=
  roundtrip_of (mk_sound a H k) (mk_invertible a hl H k) wp rp km ent chunks sizes hent

/-- The same for the tag dispatch over ANY cipher map and ANY default tag (not only the shipped
`{0: aesgcm256cfs}`): it preserves the round trip of the ciphers it dispatches to. -/
theorem roundtrip_any_mapping (dflt : UInt32) (mapping : List (UInt32 × Cipher)) (e : Cipher) (ns : Nat)
    (he : extCipher Rev.fixed dflt mapping = some e)
    (hm : ∀ t c, lookupTag t mapping = some c → c.Sound ∧ c.Invertible ns)
    (wp rp : Path2) (km ent : Bytes) (chunks : List Bytes) (sizes : List Nat) (hent : ns ≤ ent.length) :
    ∃ stored cs, e.writeVia wp km ent chunks = .ok stored ∧
      e.readVia rp km stored false sizes = { res := .ok cs, leak := false } ∧
      content cs = chunks.flatten := by
  unfold extCipher at he
  cases hd : lookupTag dflt mapping with
  | none => rw [hd] at he; cases he
  | some d =>
    rw [hd] at he
    injection he with he
    subst he
    exact roundtrip_of (ext_sound (hm _ _ hd).1 (fun t c h => (hm t c h).1))
      (ext_invertible hd (hm _ _ hd).2) wp rp km ent chunks sizes hent

/-- Through the filespace: a filespace with the same settings (more generally: equal key material) over the
same base reads back what was written, for every base that returns what was stored. -/
theorem roundtrip_fs {β σ ρ : Type} (O : BaseOps β σ ρ) (hO : O.LoadStore)
    (a : AEAD) (hl : a.Lawful) (H : Bytes → Bytes) (k : Kind) (host : Bytes) (base : β) (set : Settings)
    (wp rp : Path2) (p ent : Bytes) (chunks : List Bytes) (sizes : List Nat) (s : σ)
    (hent : a.nonceSize ≤ ent.length) (hacc : ∀ d, ∃ s', O.store base p d s = some s') :
    ∃ s' cs, (newEncryptFS host base set (mkCipher a H k)).write O wp p ent chunks s = .ok s' ∧
      (newEncryptFS host base set (mkCipher a H k)).read O rp p sizes s' = { res := .ok cs, leak := false } ∧
      content cs = chunks.flatten :=
  fs_roundtrip O hO (mk_sound a H k) (mk_invertible a hl H k) host base set set rfl wp rp p ent chunks sizes s
    hent hacc

/-- Length of a stored file: header + nonce + plaintext + AEAD overhead. -/
theorem stored_length (a : AEAD) (hl : a.Lawful) (H : Bytes → Bytes) (k : Kind) (wp : Path2)
    (km ent : Bytes) (chunks : List Bytes) (hent : a.nonceSize ≤ ent.length) :
    ∃ stored, (mkCipher a H k).writeVia wp km ent chunks = .ok stored ∧
      stored.length = k.header.length + a.nonceSize + chunks.flatten.length + a.overhead := by
  refine ⟨_, write_shape a H k wp km ent chunks hent, ?_⟩
  simp only [List.length_append, hl.len_seal, take_length_of_le hent]
  omega

-- non-vacuity: the toy AEAD is lawful; a concrete stream-write / stream-read round trip, evaluated
example : toyAEAD.Lawful := toyAEAD_lawful
example :
    (mkCipher toyAEAD id .tagged).writeVia .stream [107] [1, 2, 3, 4, 5, 6, 7, 8, 9, 10, 11, 12, 13] [[104], [], [105, 33]]
      = .ok [0, 0, 0, 0, 1, 2, 3, 4, 5, 6, 7, 8, 9, 10, 11, 12, 104, 105, 33, 69, 13, 186, 3] := by decide
example :
    (mkCipher toyAEAD id .tagged).readVia .stream [107]
        [0, 0, 0, 0, 1, 2, 3, 4, 5, 6, 7, 8, 9, 10, 11, 12, 104, 105, 33, 69, 13, 186, 3] false [2, 0, 5]
      = { res := .ok [([104, 105], false), ([], false), ([33], true), ([], true)], leak := false } := by decide

/-! ### 2. Totality: every stored byte string of every length is answered with data or an error -/

/-- No slice expression and no nonce-length check of the code can panic, and the source handle is closed on
every path — for ALL stored bytes (length 0, 1, … included), either read path, either cipher, any read buffer
sizes, and also when the underlying stream fails.  No law of the AEAD is needed. -/
theorem framing_total (a : AEAD) (H : Bytes → Bytes) (k : Kind) (rp : Path2) (km stored : Bytes) (bad : Bool)
    (sizes : List Nat) :
    (∃ cs, ((mkCipher a H k).readVia rp km stored bad sizes).res = .ok cs ∨
      ∃ e, ((mkCipher a H k).readVia rp km stored bad sizes).res = .err e) ∧
    ((mkCipher a H k).readVia rp km stored bad sizes).res ≠ .panic ∧
    ((mkCipher a H k).readVia rp km stored bad sizes).leak = false := by
  have h := readVia_total (mk_sound a H k) rp km stored bad sizes
  refine ⟨?_, h.1, h.2⟩
  cases hr : ((mkCipher a H k).readVia rp km stored bad sizes).res with
  | ok cs => exact ⟨cs, Or.inl rfl⟩
  | err e => exact ⟨[], Or.inr ⟨e, rfl⟩⟩
  | panic => exact absurd hr h.1

/-- The same for the tag dispatch over any map of sound ciphers. -/
theorem framing_total_any_mapping (dflt : UInt32) (mapping : List (UInt32 × Cipher)) (e : Cipher)
    (he : extCipher Rev.fixed dflt mapping = some e) (hm : ∀ t c, lookupTag t mapping = some c → c.Sound)
    (rp : Path2) (km stored : Bytes) (bad : Bool) (sizes : List Nat) :
    (e.readVia rp km stored bad sizes).res ≠ .panic ∧ (e.readVia rp km stored bad sizes).leak = false := by
  unfold extCipher at he
  cases hd : lookupTag dflt mapping with
  | none => rw [hd] at he; cases he
  | some d =>
    rw [hd] at he
    injection he with he
    subst he
    exact readVia_total (ext_sound (hm _ _ hd) hm) rp km stored bad sizes

/-- Through the filespace (whatever the base holds under the path). -/
theorem framing_total_fs {β σ ρ : Type} (O : BaseOps β σ ρ) (a : AEAD) (H : Bytes → Bytes) (k : Kind)
    (host : Bytes) (base : β) (set : Settings) (rp : Path2) (p : Bytes) (sizes : List Nat) (s : σ) :
    ((newEncryptFS host base set (mkCipher a H k)).read O rp p sizes s).res ≠ .panic ∧
    ((newEncryptFS host base set (mkCipher a H k)).read O rp p sizes s).leak = false :=
  fs_read_total O (mk_sound a H k) _ rfl rp p sizes s

/-- The write side cannot panic either (it fails only when `crypto/rand` delivers too few bytes). -/
theorem write_total (a : AEAD) (H : Bytes → Bytes) (k : Kind) (wp : Path2) (km ent : Bytes)
    (chunks : List Bytes) : (mkCipher a H k).writeVia wp km ent chunks ≠ .panic := by
  rw [writeVia_eq (mk_sound a H k)]
  exact (mk_sound a H k).enc_total _ _ _

/-- Emptied or truncated below header + nonce: an error, on either path. -/
theorem short_is_error (a : AEAD) (H : Bytes → Bytes) (k : Kind) (rp : Path2) (km stored : Bytes)
    (sizes : List Nat) (h : stored.length < k.header.length + a.nonceSize) :
    ∃ e, (mkCipher a H k).readVia rp km stored false sizes = { res := .err e, leak := false } := by
  obtain ⟨e, he⟩ := decrypt_short a H k km stored h
  exact ⟨e, by rw [readVia_eq (mk_sound a H k), he]; rfl⟩

/-- A cipher tag that is not registered: an error, on either path. -/
theorem unknown_tag_is_error (a : AEAD) (H : Bytes → Bytes) (rp : Path2) (km x : Bytes) (t : UInt32)
    (ht : t ≠ 0) (sizes : List Nat) :
    (mkCipher a H .tagged).readVia rp km (tagBytes t ++ x) false sizes
      = { res := .err .unknownTag, leak := false } := by
  rw [readVia_eq (mk_sound a H .tagged), decrypt_unknown_tag a H km x t ht]; rfl

-- non-vacuity: the empty file, a 5-byte file, an unknown tag — evaluated on the toy instance; and the same
-- inputs on the model of the pinned base DO panic / leak (so `panic` and `leak` are not unreachable by
-- construction of the model)
example : (mkCipher toyAEAD id .tagged).readVia .stream [] [] false [] = { res := .err .short, leak := false } := by
  decide
example : (mkCipher toyAEAD id .raw).readVia .whole [] [1, 2, 3, 4, 5] false [] = { res := .err .short, leak := false } := by
  decide
example : (mkCipher toyAEAD id .tagged).readVia .stream [] [9, 0, 0, 0, 1] false []
    = { res := .err .unknownTag, leak := false } := by decide
theorem pinned_base_panics_and_leaks :
    aesDecrypt Rev.pinned toyAEAD id [] [1, 2, 3, 4, 5] = .panic ∧
    (mkCipherRev Rev.pinned toyAEAD id .tagged).decrypt [] [0, 0] = .panic ∧
    ((mkCipherRev Rev.pinned toyAEAD id .tagged).decryptReader [] { data := [], bad := false, closed := false }).leak
      = true :=
  ⟨pinned_aes_panics, pinned_ext_panics, pinned_ext_reader_leaks⟩

/-! ### 3. A refusal of the AEAD is an error of the read -/

/-- If the AEAD refuses (`open = none`) the nonce/ciphertext found in the file, the read fails — both read
paths, both ciphers; in particular no data is delivered. -/
theorem reject_propagates (a : AEAD) (H : Bytes → Bytes) (k : Kind) (rp : Path2) (km n c : Bytes)
    (sizes : List Nat) (hn : n.length = a.nonceSize) (hopen : a.open (H km) n c = none) :
    (mkCipher a H k).readVia rp km (k.header ++ (n ++ c)) false sizes = { res := .err .auth, leak := false } := by
  rw [read_frame a H k rp km n c sizes hn, hopen]; rfl

/-- Conversely data is delivered only if the AEAD accepted, and then it is exactly what the AEAD returned. -/
theorem data_only_from_open (a : AEAD) (H : Bytes → Bytes) (k : Kind) (rp : Path2) (km n c : Bytes)
    (sizes : List Nat) (hn : n.length = a.nonceSize) (cs : List (Bytes × Bool))
    (h : ((mkCipher a H k).readVia rp km (k.header ++ (n ++ c)) false sizes).res = .ok cs) :
    a.open (H km) n c = some (content cs) := by
  rw [read_frame a H k rp km n c sizes hn] at h
  cases ho : a.open (H km) n c with
  | none => rw [ho] at h; cases h
  | some p =>
    rw [ho] at h
    obtain ⟨cs', h1, h2⟩ := deliver_ok rp p sizes
    change deliver rp p sizes = .ok cs at h
    rw [h1] at h
    injection h with h
    rw [← h, h2]

-- non-vacuity: one flipped ciphertext byte is refused by the toy AEAD, hence by the read
example : toyAEAD.open [107] [1, 2, 3, 4, 5, 6, 7, 8, 9, 10, 11, 12] [104, 104, 33, 69, 13, 186, 3] = none := by
  decide
example :
    (mkCipher toyAEAD id .tagged).readVia .stream [107]
        [0, 0, 0, 0, 1, 2, 3, 4, 5, 6, 7, 8, 9, 10, 11, 12, 104, 104, 33, 69, 13, 186, 3] false [1]
      = { res := .err .auth, leak := false } := by decide

/-! ### 4. Which key reaches `open`: another secret / salt / host binding

Full-strength statement of the property's clause (NOT provable, see `other_key_full_false` /
`key_concat_collision` below — known finding KF-C05-1):

    ∀ s₁ s₂, (s₁.secret ≠ s₂.secret ∨ s₁.salt ≠ s₂.salt) →
      the key handed to `open` by a filespace with settings s₂ differs from the sealing key of s₁
      (and hence, by authenticity of the AEAD, the read is an error)

`other_key` is its `_partial` form: the same conclusion under the negated defect predicate
`secret₁ ++ host₁ ++ salt₁ ≠ secret₂ ++ host₂ ++ salt₂`. -/

/-- A filespace whose `secret ++ host? ++ salt` differs from the writer's hands a DIFFERENT key (provided `H`
does not collide on these two inputs) to `open`, together with the writer's nonce and sealed text; the
outcome of the read is the outcome of that `open`.  So "another secret or salt → error" is exactly the
authenticity of the AEAD under a wrong key (see `reject_propagates`). -/
theorem other_key (a : AEAD) (H : Bytes → Bytes) (host : Bytes) (s₁ s₂ : Settings)
    (hne : s₁.secret ++ (if s₁.hostOnly then host else []) ++ s₁.salt
         ≠ s₂.secret ++ (if s₂.hostOnly then host else []) ++ s₂.salt)
    (hcoll : H (keyMaterial host s₁) = H (keyMaterial host s₂) → keyMaterial host s₁ = keyMaterial host s₂)
    (k : Kind) (wp rp : Path2) (ent : Bytes) (chunks : List Bytes) (sizes : List Nat)
    (hent : a.nonceSize ≤ ent.length) :
    let n := ent.take a.nonceSize
    let key₁ := H (keyMaterial host s₁)
    let key₂ := H (keyMaterial host s₂)
    let stored := k.header ++ (n ++ a.seal key₁ n chunks.flatten)
    key₁ ≠ key₂ ∧
    (mkCipher a H k).writeVia wp (keyMaterial host s₁) ent chunks = .ok stored ∧
    (mkCipher a H k).readVia rp (keyMaterial host s₂) stored false sizes
      = { res := (ofOpen (a.open key₂ n (a.seal key₁ n chunks.flatten))).bind fun p => deliver rp p sizes,
          leak := false } := by
  refine ⟨fun h => hne (hcoll h), write_shape a H k wp _ ent chunks hent, ?_⟩
  exact read_frame a H k rp _ _ _ sizes (take_length_of_le hent)

/-- …and when the AEAD refuses the wrong key, the read is an error. -/
theorem other_key_rejected (a : AEAD) (H : Bytes → Bytes) (host : Bytes) (s₁ s₂ : Settings)
    (k : Kind) (wp rp : Path2) (ent : Bytes) (chunks : List Bytes) (sizes : List Nat)
    (hent : a.nonceSize ≤ ent.length)
    (hauth : a.open (H (keyMaterial host s₂)) (ent.take a.nonceSize)
        (a.seal (H (keyMaterial host s₁)) (ent.take a.nonceSize) chunks.flatten) = none) :
    ∃ stored, (mkCipher a H k).writeVia wp (keyMaterial host s₁) ent chunks = .ok stored ∧
      (mkCipher a H k).readVia rp (keyMaterial host s₂) stored false sizes = { res := .err .auth, leak := false } :=
  ⟨_, write_shape a H k wp _ ent chunks hent,
    reject_propagates a H k rp _ _ _ sizes (take_length_of_le hent) hauth⟩

-- non-vacuity: secret "a" vs secret "b" (no salt) on the toy instance: different concatenations, `id` does
-- not collide, the toy AEAD refuses
example : ([97] : Bytes) ++ (if false then [] else []) ++ [] ≠ [98] ++ (if false then [] else []) ++ [] := by decide
example :
    toyAEAD.open (id (keyMaterial [] ⟨[98], [], false⟩)) [1, 2, 3, 4, 5, 6, 7, 8, 9, 10, 11, 12]
      (toyAEAD.seal (id (keyMaterial [] ⟨[97], [], false⟩)) [1, 2, 3, 4, 5, 6, 7, 8, 9, 10, 11, 12] [104, 105])
      = none := by decide

/-- KNOWN FINDING KF-C05-1 — the DISPROOF of `other_key` without its hypothesis: the settings
(secret "st", salt "") and (secret "s", salt "t") are different, yet have the same key material, so (for
every lawful AEAD, every hash, both ciphers, all four path pairs) the second filespace reads what the first
wrote. -/
theorem key_concat_collision :
    kfA ≠ kfB ∧ kfA.secret = [115, 116] ∧ kfA.salt = [] ∧ kfB.secret = [115] ∧ kfB.salt = [116] ∧
    ∀ (a : AEAD) (_ : a.Lawful) (H : Bytes → Bytes) (k : Kind) (host : Bytes) (wp rp : Path2) (ent : Bytes)
      (chunks : List Bytes) (sizes : List Nat), a.nonceSize ≤ ent.length →
      ∃ stored cs, (mkCipher a H k).writeVia wp (keyMaterial host kfA) ent chunks = .ok stored ∧
        (mkCipher a H k).readVia rp (keyMaterial host kfB) stored false sizes = { res := .ok cs, leak := false } ∧
        content cs = chunks.flatten := by
  refine ⟨kf_settings_differ, rfl, rfl, rfl, rfl, ?_⟩
  intro a hl H k host wp rp ent chunks sizes hent
  rw [← kf_same_material host]
  exact roundtrip a hl H k wp rp _ ent chunks sizes hent

/-- Hence the unrestricted claim "settings with another secret or salt have other key material" is false. -/
theorem other_key_full_false :
    ¬ ∀ (host : Bytes) (s₁ s₂ : Settings), (s₁.secret ≠ s₂.secret ∨ s₁.salt ≠ s₂.salt) →
        keyMaterial host s₁ ≠ keyMaterial host s₂ := by
  intro h
  exact h [] kfA kfB (Or.inl (by decide)) (kf_same_material [])

/-- What the code does about host binding: `idutil.HostID()` returns `""`, so `HostOnly` changes nothing. -/
theorem host_binding_inert (secret salt : Bytes) :
    keyMaterial hostIDActual ⟨secret, salt, true⟩ = keyMaterial hostIDActual ⟨secret, salt, false⟩ := by
  simp [keyMaterial, hostIDActual]

/-- Key material is a VALUE fixed at construction: in a history in which any number of filespaces are built
from any settings (before or after this one), filespace `i` uses exactly the key material of ITS settings.
(The Go constructor must therefore copy the caller's `Secret`/`Salt` into a fresh slice; the correspondence
runs build the settings from shared buffers with spare capacity and overwrite them afterwards.) -/
theorem construction_independent {β : Type} (host : Bytes) (base : β) (c : Cipher) (sets : List Settings)
    (i : Nat) (h : i < sets.length) :
    ((sets.map fun s => newEncryptFS host base s c)[i]'(by simpa using h)).hash = keyMaterial host sets[i] := by
  simp [newEncryptFS]

example : (([⟨[115], [97], false⟩, ⟨[115], [98], false⟩] : List Settings).map
    fun s => newEncryptFS [] () s (mkCipher toyAEAD id .raw))[0].hash = [115, 97] := by decide

/-! ### 5. The nonce is stored in front: different nonces give different stored bytes -/

/-- Two writes whose `crypto/rand` draws differ in their first `nonceSize` bytes store different bytes —
whatever the data (equal or not), key material, path, cipher. -/
theorem fresh_nonce_distinct (a : AEAD) (H : Bytes → Bytes) (k : Kind) (wp₁ wp₂ : Path2)
    (km₁ km₂ ent₁ ent₂ : Bytes) (chunks₁ chunks₂ : List Bytes)
    (h₁ : a.nonceSize ≤ ent₁.length) (h₂ : a.nonceSize ≤ ent₂.length)
    (hne : ent₁.take a.nonceSize ≠ ent₂.take a.nonceSize) :
    (mkCipher a H k).writeVia wp₁ km₁ ent₁ chunks₁ ≠ (mkCipher a H k).writeVia wp₂ km₂ ent₂ chunks₂ := by
  rw [write_shape a H k wp₁ km₁ ent₁ chunks₁ h₁, write_shape a H k wp₂ km₂ ent₂ chunks₂ h₂]
  intro e
  injection e with e
  exact append_left_ne
    (nonce_prefix_ne (by rw [take_length_of_le h₁, take_length_of_le h₂]) hne) e

example : ([1, 2, 3, 4, 5, 6, 7, 8, 9, 10, 11, 12, 0] : Bytes).take toyAEAD.nonceSize
    ≠ ([1, 2, 3, 4, 5, 6, 7, 8, 9, 10, 11, 13, 0] : Bytes).take toyAEAD.nonceSize := by decide

/-! ### 6. The plaintext reaches the store only through `seal` -/

/-- The stored bytes are a fixed function of the nonce and of `seal key nonce plaintext` alone: the framing
adds nothing that depends on the plaintext or the key (so what the store reveals about the plaintext is what
the AEAD's output reveals). -/
theorem plaintext_only_via_seal (a : AEAD) (H : Bytes → Bytes) (k : Kind) :
    ∃ f : Bytes → Bytes → Bytes, ∀ (wp : Path2) (km ent : Bytes) (chunks : List Bytes),
      a.nonceSize ≤ ent.length →
      (mkCipher a H k).writeVia wp km ent chunks
        = .ok (f (ent.take a.nonceSize) (a.seal (H km) (ent.take a.nonceSize) chunks.flatten)) :=
  ⟨fun n c => k.header ++ (n ++ c), fun wp km ent chunks h => write_shape a H k wp km ent chunks h⟩

/-! ### 7. Name-space operations are the underlying filespace's -/

/-- Copy, CopyDirectory, CopyFile, ReadDir, IsExist, IsFile, IsDir, MkdirAll, Remove, RemoveAll, Lstat: result
and state change are exactly the base's (whatever the settings and the cipher); `Filespace(path)` is the base's
child wrapped with the same cipher and key material. -/
theorem namespace_ops_delegate {β σ ρ : Type} (O : BaseOps β σ ρ) (host : Bytes) (base : β) (set : Settings)
    (c : Cipher) (s : σ) :
    (∀ op : NsOp, (newEncryptFS host base set c).ns O op s = O.ns base op s) ∧
    (∀ p : Bytes, (newEncryptFS host base set c).sub O p s
        = (O.sub base p s).map fun b => newEncryptFS host b set c) :=
  ⟨fun _ => rfl, fun _ => rfl⟩

-- non-vacuity: a base that logs its calls; the encrypted filespace's Remove("x") is the base's Remove("x")
example :
    (newEncryptFS [] () ⟨[1], [2], false⟩ (mkCipher toyAEAD id .raw)).ns
        (⟨fun _ op log => (log.length, log ++ [op]), fun _ _ _ => some (), fun _ _ _ => none,
          fun _ _ _ _ => none⟩ : BaseOps Unit (List NsOp) Nat) (.remove [120]) [.isDir []]
      = (1, [.isDir [], .remove [120]]) := rfl

/-! ### 8. Several open handles: a reader is a snapshot of its file taken at open -/

/-- `Reader(path)` through a filespace whose key material wrote the file (whole-file or stream, any chunking):
the reader object holds exactly the content written. -/
theorem reader_holds_content_at_open (a : AEAD) (hl : a.Lawful) (H : Bytes → Bytes) (k : Kind) (wp : Path2)
    (kms : List Bytes) (fs file h : Nat) (km ent ent' : Bytes) (chunks : List Bytes) (s : HState) (stored : Bytes)
    (hkm : kms[fs]? = some km) (hent : a.nonceSize ≤ ent.length)
    (hw : (mkCipher a H k).writeVia wp km ent chunks = .ok stored) (hfile : s.file file = some stored)
    (hfree : s.busy file = false) (hfresh : s.handle h = none) :
    hstep (mkCipher a H k) kms ent' s (.openReader fs file h)
      = some (s.setHandle h (.reader chunks.flatten), .ok) :=
  openReader_on_written (mk_sound a H k) (mk_invertible a hl H k) wp kms fs file h km ent ent' chunks s stored
    hkm hent hw hfile hfree hfresh

/-- Whatever happens in between — a history of ANY length and ANY cipher, none of whose steps addresses handle `h`:
other readers opened, read, closed (on any file, through any filespace), whole-file writes to any file INCLUDING
the reader's own, writers opened, written, closed in any order — an open reader still holds, and on a
read-to-the-end delivers, exactly what it held. -/
theorem open_reader_untouched (c : Cipher) (kms : List Bytes) (ent : Bytes) (h : Nat) (d : Bytes)
    (steps : List HStep) (s s' : HState) (outs : List HOut)
    (hopen : s.handle h = some (.reader d)) (hother : ∀ st ∈ steps, st.handle? ≠ some h)
    (hr : hrun c kms ent s steps = some (s', outs)) :
    s'.handle h = some (.reader d) ∧
      hstep c kms ent s' (.readAll h) = some (s'.setHandle h (.reader []), .data d none) := by
  have hf := hrun_frame c kms ent h steps s s' outs hother hr
  rw [hopen] at hf
  exact ⟨hf, by simp [hstep, hf]⟩

/-- Both together: a reader opened on written content delivers THAT content after any such history. -/
theorem reader_delivers_content_at_open (a : AEAD) (hl : a.Lawful) (H : Bytes → Bytes) (k : Kind) (wp : Path2)
    (kms : List Bytes) (fs file h : Nat) (km ent ent' : Bytes) (chunks : List Bytes) (s s' : HState)
    (stored : Bytes) (steps : List HStep) (outs : List HOut)
    (hkm : kms[fs]? = some km) (hent : a.nonceSize ≤ ent.length)
    (hw : (mkCipher a H k).writeVia wp km ent chunks = .ok stored) (hfile : s.file file = some stored)
    (hfree : s.busy file = false) (hfresh : s.handle h = none)
    (hother : ∀ st ∈ steps, st.handle? ≠ some h)
    (hr : hrun (mkCipher a H k) kms ent' (s.setHandle h (.reader chunks.flatten)) steps = some (s', outs)) :
    hrun (mkCipher a H k) kms ent' s (.openReader fs file h :: steps ++ [.readAll h])
      = some (s'.setHandle h (.reader []), .ok :: outs ++ [.data chunks.flatten none]) := by
  have ho := reader_holds_content_at_open a hl H k wp kms fs file h km ent ent' chunks s stored hkm hent hw hfile
    hfree hfresh
  have hd := (open_reader_untouched (mkCipher a H k) kms ent' h chunks.flatten steps _ s' outs
    (handle_setHandle_self s h _) hother hr).2
  simp only [hrun, ho, List.cons_append]
  rw [hrun_append_one _ _ _ _ _ _ _ _ _ _ hr hd]

-- non-vacuity: two files, a reader on each (the second opened before the first is read), the first file is
-- overwritten, a writer on a third file is open meanwhile: reader 1 delivers what file 0 held when it was opened
example :
    (hrun (mkCipher toyAEAD id .tagged) [[1], [2]] [1, 2, 3, 4, 5, 6, 7, 8, 9, 10, 11, 12] HState.empty
      [.writeFile 0 0 [104, 105], .writeFile 0 1 [98, 121, 101], .openReader 0 0 1, .openReader 0 1 2,
       .openReader 1 1 3, .writeFile 0 0 [110, 101, 119], .openWriter 0 2 4, .write 4 [122], .readAll 2,
       .readAll 1, .closeWriter 4, .readFile 0 0, .readFile 0 2]).map (·.2)
      = some [.ok, .ok, .ok, .ok, .err, .ok, .ok, .ok, .data [98, 121, 101] none, .data [104, 105] none, .ok,
              .data [110, 101, 119] none, .data [122] none] := by
  decide

end Goat.C05
