/-
Property C06 — write-back cache: nothing reaches the remote before Commit, everything after.

  "While operations are applied to a cache, the remote filespace is not modified at all; after a successful
   Commit the remote tree equals the tree obtained by applying the same successful operations directly to the
   remote's initial state.  If the remote fails during Commit the failure is reported, and a later successful
   Commit still brings the remote to that same tree."

Stated over the executable model `Goat/Model/Cache.lean` (every method of `fscache.Cache` with the Go control
flow, `fshelper.Copier` / `Copy` / `SubFS`, `Commit` with the four Go map iteration orders as parameters and an
injected remote failure `failAt = some k`: the k-th error-capable remote call of that Commit fails — `Remove`,
`RemoveAll`, `MkdirAll`, `Writer`, and the `Write` / `Close` calls on the remote's writers).
"Applying an operation directly" is the point-wise specification `Goat/Spec/FS.lean` (`FS.Step`); its executable
twin is `MemFS.step` on a second tree (`directStep`, `directRun`, `Sim`), which refines it (`direct_is_spec`,
from `Goat.C01.memfs_refines`).

Vocabulary (Model/Cache.lean, Proofs/Cache*.lean):
  `State`              buffer tree, remote tree, the four journals (key strings exactly as the Go maps hold them)
  `Handle`             the cache itself or a child view `SubFS` with its base path;  `h.ok`: the base ends in `/` and
                       does not climb (every view opened with a non-climbing path: `Goat.C07.view_of_view`)
  `step h s op`        one of the 16 methods through a handle;   `run s ops` a history (no Commit)
  `commitWith rm rma mk wr failAt s`   Commit replaying the journals in the given orders: (state, calls made, ok)
  `commit failAt s`    … in the canonical order
  `Sim`                cache and direct application side by side: a mutating call is applied directly exactly when
                       it succeeded through the cache ("the same successful operations")
  `directRun r ops`    every call applied directly;  `allDirectOk r ops`: each of them succeeds
  `writeClass`         the calls of the class of the `_partial` theorems: WriteFile / Writer / MkdirAll / CopyFile
                       through an ok handle (a CopyFile that succeeds directly copies a file to an absent destination)
  `Defect`, `defectsOf`  the decidable defect predicates of the known findings, see `findings_witnessed`

WHAT IS PROVED
  full strength      remote_untouched (clause 1), commit_fail_reported ("the failure is reported"),
                     commit_changes_only_remote, commit_order_irrelevant (the Go map iteration order never matters:
                     every reachable state, also outside the class), failed_call_journals_nothing and
                     overlapping_copy_refused (the repairs of KF-C06-5/8 and KF-C06-7 as theorems)
  DISPROVED          commit_equiv (clause 2 for the code as it is): `commit_equiv_false`; one evaluated witness per
                     remaining finding class KF-C06-1, 2, 4, 6, 9, 10, 11, 12 in `findings_witnessed`
                     (known_findings.d/C06.json).  KF-C06-3, 5, 7, 8 are REPAIRED (fix: commits of fscache/cache.go):
                     `repaired_findings` evaluates their former witnesses, which now satisfy the statement.
  `_partial`         commit_equiv_partial, commit_retry_partial, second_commit_unchanged_partial — on the class
                     `writeClass` ∧ `allDirectOk`, i.e. under the negation of every defect predicate (that the class
                     contains no defect event is checked by the campaign `genclean`, not proved);
                     commit_order_irrelevant_partial (on the class every order SUCCEEDS with the direct tree)

NOT PROVED / outside the class:
  Copy and CopyDirectory (directory sources are KF-C06-4; file sources through `Copy` were not carried), and all
    removes: there is no class with removes in which clause 2 holds (KF-C06-1/2/6).
  A failing Commit leaves a remote that depends on the iteration order (the loops stop at the failing call):
    commit_order_irrelevant speaks about unfailed Commits, commit_retry_partial about what a later Commit makes of it.
-/
import Goat.Proofs.CacheWitness

namespace Goat.C06

open Goat Goat.FS Goat.Cache Goat.MemFS

/-! ### 1. Nothing reaches the remote before Commit -/

/-- CLAUSE (i), full strength.  No sequence of cache operations — any of the 16 methods, any path spellings,
through the cache or any child view, succeeding or failing, on any state — changes the remote tree. -/
theorem remote_untouched (s : Cache.State) (ops : List (Handle × Op)) : (run s ops).remote = s.remote :=
  run_remote s ops

-- a history that writes, copies, removes and fails: the remote (file a = "1") is what it was
example :
    (run (State.new (Witness.mkRemote Witness.r12 Node.empty))
      [(.cache, .writeFile [120, 47, 121] [1]), (.cache, .copy [120] [122]), (.cache, .removeAll [97]),
       (.sub [120, 47], .remove [121]), (.cache, .mkdirAll [97, 47, 98])]).remote
      = Witness.mkRemote Witness.r12 Node.empty := by rfl

/-- Commit, in any order, with or without an injected failure, changes nothing but the remote: buffer and
journals stay (Commit clears nothing — a later Commit replays everything). -/
theorem commit_changes_only_remote (rm rma mk wr : List Bytes) (fa : Option Nat) (s : Cache.State) :
    (commitWith rm rma mk wr fa s).1.buffer = s.buffer ∧ (commitWith rm rma mk wr fa s).1.remove = s.remove
    ∧ (commitWith rm rma mk wr fa s).1.removeAll = s.removeAll
    ∧ (commitWith rm rma mk wr fa s).1.mkdirAll = s.mkdirAll ∧ (commitWith rm rma mk wr fa s).1.write = s.write :=
  commitWith_frame rm rma mk wr fa s

/-! ### 2. A failing remote is reported -/

/-- "If the remote fails during Commit the failure is reported", full strength: for every state, every
iteration order and every position `k`, if the k-th error-capable remote call of the Commit was made (so it
failed), Commit did not return nil.  The calls are `Remove`, `RemoveAll`, `MkdirAll`, `Writer`, and every `Write` and
the `Close` on a writer the remote handed out (a failure in the middle of a transfer). -/
theorem commit_fail_reported (rm rma mk wr : List Bytes) (k : Nat) (s : Cache.State)
    (hfired : k < (commitWith rm rma mk wr (some k) s).2.1) :
    (commitWith rm rma mk wr (some k) s).2.2 = false :=
  Cache.commit_fail_reported rm rma mk wr k s hfired

-- two writes = eight remote calls (MkdirAll, Writer, Write, Close each); a failing Write (call 2), a failing Close
-- (call 7) are reported; a tenth call does not happen
example :
    (commit (some 2) (run (State.new Node.empty) [(.cache, .writeFile [97] [1]), (.cache, .writeFile [98] [2])])).2
      = (3, false) := by decide
example :
    (commit (some 7) (run (State.new Node.empty) [(.cache, .writeFile [97] [1]), (.cache, .writeFile [98] [2])])).2
      = (8, false) := by decide
example :
    (commit (some 9) (run (State.new Node.empty) [(.cache, .writeFile [97] [1]), (.cache, .writeFile [98] [2])])).2
      = (8, true) := by decide
-- a failing Write leaves the remote file created but empty; the retry completes it
example :
    abs (commit (some 2) (run (State.new Node.empty) [(.cache, .writeFile [97] [1])])).1.remote [[97]] = some (.file [])
    ∧ abs (commit none (commit (some 2) (run (State.new Node.empty) [(.cache, .writeFile [97] [1])])).1).1.remote [[97]]
        = some (.file [1]) := by decide

/-! ### 3. The Go map iteration order does not matter -/

/-- (ii) ORDER IRRELEVANCE, full strength.  In every reachable state — after any history of calls and Commits
(any failure positions) on any well-formed initial remote, inside or outside the defect classes — a Commit without
injected failure answers the same verdict whatever permutation of each of the four journals it replays, and when
it succeeds the remote tree is the same.  (The four loops are folds of pairwise commuting steps on abstract trees:
`Goat/Proofs/CacheOrder.lean`.) -/
theorem commit_order_irrelevant (r0 : Node) (hr : Inv r0) (hist : List HOp)
    (rm rma mk wr rm' rma' mk' wr' : List Bytes)
    (hrm : rm.Perm rm') (hrma : rma.Perm rma') (hmk : mk.Perm mk') (hwr : wr.Perm wr') :
    (commitWith rm rma mk wr none ((Sim.new r0).run hist).cache).2.2
        = (commitWith rm' rma' mk' wr' none ((Sim.new r0).run hist).cache).2.2
    ∧ ((commitWith rm rma mk wr none ((Sim.new r0).run hist).cache).2.2 = true →
        abs (commitWith rm rma mk wr none ((Sim.new r0).run hist).cache).1.remote
          = abs (commitWith rm' rma' mk' wr' none ((Sim.new r0).run hist).cache).1.remote) :=
  commit_order_irrelevant_winv _ (sim_run_winv (Sim.new r0) (winv_new r0 hr) hist) rm rma mk wr rm' rma' mk' wr'
    hrm hrma hmk hwr

/-- the same for any state whose two trees are well formed -/
theorem commit_order_irrelevant_state (s : Cache.State) (W : WInv s) (rm rma mk wr rm' rma' mk' wr' : List Bytes)
    (hrm : rm.Perm rm') (hrma : rma.Perm rma') (hmk : mk.Perm mk') (hwr : wr.Perm wr') :
    (commitWith rm rma mk wr none s).2.2 = (commitWith rm' rma' mk' wr' none s).2.2
    ∧ ((commitWith rm rma mk wr none s).2.2 = true →
        abs (commitWith rm rma mk wr none s).1.remote = abs (commitWith rm' rma' mk' wr' none s).1.remote) :=
  commit_order_irrelevant_winv s W rm rma mk wr rm' rma' mk' wr' hrm hrma hmk hwr

-- a state outside the class (nested recursive removes, a removed and rewritten file): both orders, same tree
example :
    [[97], [97, 47, 98]].Perm [[97, 47, 98], [97]] ∧ [[99], [100, 47, 101]].Perm [[100, 47, 101], [99]] := by
  exact ⟨List.Perm.swap _ _ _, List.Perm.swap _ _ _⟩
example :
    (commitWith [[99]] [[97], [97, 47, 98]] [] [[99], [100, 47, 101]] none
      ((Sim.new (Witness.mkRemote [([97, 47, 98, 47, 120], some [1]), ([99], some [2])] Node.empty)).run
        [.call .cache (.removeAll [97, 47, 98]), .call .cache (.removeAll [97]), .call .cache (.remove [99]),
         .call .cache (.writeFile [99] [3]), .call .cache (.writeFile [100, 47, 101] [4])]).cache).2.2 = true
    ∧ (commitWith [[99]] [[97, 47, 98], [97]] [] [[100, 47, 101], [99]] none
      ((Sim.new (Witness.mkRemote [([97, 47, 98, 47, 120], some [1]), ([99], some [2])] Node.empty)).run
        [.call .cache (.removeAll [97, 47, 98]), .call .cache (.removeAll [97]), .call .cache (.remove [99]),
         .call .cache (.writeFile [99] [3]), .call .cache (.writeFile [100, 47, 101] [4])]).cache).2.2 = true := by
  decide

/-! ### 4. Everything reaches the remote after Commit — FALSE for the code, true on a class -/

/-- THE FULL STATEMENT of the second sentence: for every initial remote tree and every history through ok handles,
Commit (no injected failure) succeeds and leaves exactly the tree obtained by applying the same successful
operations directly. -/
def commit_equiv : Prop :=
  ∀ (r0 : Node), Inv r0 → ∀ (ops : List (Handle × Op)), (∀ x ∈ ops, x.1.ok = true) →
    (commit none ((Sim.new r0).run (ops.map fun x => HOp.call x.1 x.2)).cache).2.2 = true
    ∧ abs (commit none ((Sim.new r0).run (ops.map fun x => HOp.call x.1 x.2)).cache).1.remote
        = abs ((Sim.new r0).run (ops.map fun x => HOp.call x.1 x.2)).direct

/-- … is false (witness: KF-C06-2, `write b/c/b; removeAll b; commit` on an empty remote leaves `b/` and `b/c/`). -/
theorem commit_equiv_false : ¬ commit_equiv := by
  intro H
  have := (H Node.empty inv_empty [(.cache, .writeFile [98, 47, 99, 47, 98] [120]), (.cache, .removeAll [98])]
    (by decide)).2
  exact absurd (congrFun this [[98]]) (by decide)

/-- ONE WITNESS PER REMAINING FINDING CLASS (known_findings.d/C06.json; the same histories are replayed on the Go
code by every run of the check).  For each: the history is in the class named by its defect predicate, and Commit
either fails or leaves a tree that differs from direct application at the given path. -/
theorem findings_witnessed :
    -- KF-C06-1  Remove of a remote empty directory is never replayed
    (Defect.removeRemoteDir ∈ defectsOf (Sim.new (Witness.mkRemote Witness.r1 Node.empty)) (Witness.calls Witness.h1)
      ∧ abs (Witness.committed Witness.r1 Witness.h1).1.remote [[97]] ≠ abs (Witness.sim Witness.r1 Witness.h1).direct [[97]])
    -- KF-C06-2  write, then RemoveAll of a parent: Commit re-creates the parents
    ∧ (Defect.removeAboveWrite ∈ defectsOf (Sim.new Node.empty) (Witness.calls Witness.h2)
      ∧ abs (Witness.committed [] Witness.h2).1.remote [[98]] ≠ abs (Witness.sim [] Witness.h2).direct [[98]])
    -- KF-C06-4  a copied directory never reaches the remote
    ∧ (Defect.dirCopy ∈ defectsOf (Sim.new (Witness.mkRemote Witness.r4 Node.empty)) (Witness.calls Witness.h4)
      ∧ abs (Witness.committed Witness.r4 Witness.h4).1.remote [[99]] ≠ abs (Witness.sim Witness.r4 Witness.h4).direct [[99]])
    -- KF-C06-6  mkdir a/b; remove a/b forgets a
    ∧ (Defect.removeBufferDir ∈ defectsOf (Sim.new Node.empty) (Witness.calls Witness.h6)
      ∧ abs (Witness.committed [] Witness.h6).1.remote [[97]] ≠ abs (Witness.sim [] Witness.h6).direct [[97]])
    -- KF-C06-9 (= KF-C07-3)  write beneath a remote file is accepted: Commit fails
    ∧ (Defect.typeConflict ∈ defectsOf (Sim.new (Witness.mkRemote Witness.r9 Node.empty)) (Witness.calls Witness.h9)
      ∧ (Witness.committed Witness.r9 Witness.h9).2.2 = false)
    -- KF-C06-10 (= KF-C07-5)  CopyFile onto an existing destination overwrites
    ∧ (Defect.copyOntoExisting ∈ defectsOf (Sim.new (Witness.mkRemote Witness.r10 Node.empty)) (Witness.calls Witness.h10)
      ∧ abs (Witness.committed Witness.r10 Witness.h10).1.remote [[99]]
          ≠ abs (Witness.sim Witness.r10 Witness.h10).direct [[99]])
    -- KF-C06-11 (= KF-C07-6)  a rooted climbing path is cleaned into the cache
    ∧ (Defect.rootedClimb ∈ defectsOf (Sim.new Node.empty) (Witness.calls Witness.h11)
      ∧ abs (Witness.committed [] Witness.h11).1.remote [[97]] ≠ abs (Witness.sim [] Witness.h11).direct [[97]])
    -- KF-C06-12  a removed remote file is still a copy source
    ∧ (Defect.staleCopySource ∈ defectsOf (Sim.new (Witness.mkRemote Witness.r12 Node.empty)) (Witness.calls Witness.h12)
      ∧ abs (Witness.committed Witness.r12 Witness.h12).1.remote [[98]]
          ≠ abs (Witness.sim Witness.r12 Witness.h12).direct [[98]]) := by
  refine ⟨⟨?_, ?_⟩, ⟨?_, ?_⟩, ⟨?_, ?_⟩, ⟨?_, ?_⟩, ⟨?_, ?_⟩, ⟨?_, ?_⟩, ⟨?_, ?_⟩, ⟨?_, ?_⟩⟩ <;> decide

/-- THE REPAIRED FINDINGS (fix: commits of /repo/filesystem/fscache/cache.go; witnesses kept in corpus/C06).  Their
former witnesses are in no defect class any more and satisfy the statement:
KF-C06-3 `WriteFile("a/b/")`: Commit succeeds and the remote holds the file a/b;
KF-C06-5 a failed `Copy("c", "a/b")` leaves nothing for Commit: the remote stays empty;
KF-C06-7 `Copy("a", "a")` answers an error (it did not return) and changes nothing;
KF-C06-8 a refused `RemoveAll("")` does not poison Commit. -/
theorem repaired_findings :
    (defectsOf (Sim.new Node.empty) (Witness.calls Witness.h3 ++ [.commit none]) = []
      ∧ (Witness.committed [] Witness.h3).2.2 = true
      ∧ abs (Witness.committed [] Witness.h3).1.remote [[97], [98]] = some (.file [120]))
    ∧ (defectsOf (Sim.new Node.empty) (Witness.calls Witness.h5 ++ [.commit none]) = []
      ∧ (Witness.committed [] Witness.h5).2.2 = true
      ∧ abs (Witness.committed [] Witness.h5).1.remote [[97]] = none)
    ∧ (defectsOf (Sim.new Node.empty) (Witness.calls Witness.h7) = []
      ∧ (step .cache (run (State.new Node.empty) [(.cache, .writeFile [97] [120])]) (.copy [97] [97])).2 = .err
      ∧ (Witness.committed [] Witness.h7).2.2 = true
      ∧ abs (Witness.committed [] Witness.h7).1.remote = abs (Witness.sim [] Witness.h7).direct)
    ∧ (defectsOf (Sim.new Node.empty) (Witness.calls Witness.h8 ++ [.commit none]) = []
      ∧ (Witness.committed [] Witness.h8).2.2 = true
      ∧ abs (Witness.committed [] Witness.h8).1.remote [[97]] = some (.file [120])) := by
  refine ⟨⟨?_, ?_, ?_⟩, ⟨?_, ?_, ?_⟩, ⟨?_, ?_, ?_, ?_⟩, ⟨?_, ?_, ?_⟩⟩
  all_goals first | decide | skip
  -- KF-C06-7: the whole tree, through `commit_equiv_partial` would need the class; here by evaluation per path
  funext q
  have h1 : (Witness.committed [] Witness.h7).1.remote = (Witness.sim [] Witness.h7).direct := by rfl
  rw [h1]

/-- A CALL THAT FAILS JOURNALS NOTHING (the repair of KF-C06-5 and KF-C06-8 at full strength): whatever the state,
the handle and the method, a call that does not answer `ok` leaves the write, remove and removeAll journals as they
were — nothing of it is replayed by Commit.  (`MkdirAll` journals in any case; Commit replays such an entry only
while the buffer has that directory.) -/
theorem failed_call_journals_nothing (h : Handle) (s : Cache.State) (op : Op) (hr : (step h s op).2 ≠ .ok) :
    (step h s op).1.write = s.write ∧ (step h s op).1.remove = s.remove ∧ (step h s op).1.removeAll = s.removeAll :=
  step_failed h s op hr

example :
    (step .cache (State.new Node.empty) (.copy [99] [97, 47, 98])).2 = .err
    ∧ (step .cache (State.new Node.empty) (.removeAll [])).2 = .err
    ∧ (step .cache (State.new Node.empty) (.writeFile [46, 46, 47, 120] [1])).2 = .err := by decide

/-- OVERLAPPING COPIES ARE REFUSED (the repair of KF-C06-7 at full strength): `Copy` whose cleaned source and
destination are the same node or contain one another (the root contains every node) answers an error and changes
nothing — it used not to return. -/
theorem overlapping_copy_refused (s : Cache.State) (a b : Bytes)
    (h : overlaps (Path.cleanPath a) (Path.cleanPath b) = true) : Cache.copy s a b = (s, .err) :=
  copy_overlap_refused s a b h

example : overlaps (Path.cleanPath [97, 47, 46, 47, 98]) (Path.cleanPath [47, 97]) = true
    ∧ overlaps (Path.cleanPath [97, 47, 46, 46]) (Path.cleanPath [47, 46, 46]) = true
    ∧ overlaps (Path.cleanPath [97, 98]) (Path.cleanPath [97]) = false := by decide

/-- `commit_equiv` ON THE CLASS (the same conclusion as the full statement): histories of WriteFile / Writer /
MkdirAll / CopyFile through the cache or ok child views, any spellings, any length, on any well-formed initial remote, in
which every operation also succeeds when applied directly (no condition on spellings any more: KF-C06-3 is repaired).  Every call succeeds through the cache, Commit
succeeds, and the remote is exactly the direct tree. -/
theorem commit_equiv_partial (r0 : Node) (hr : Inv r0) (ops : List (Handle × Op))
    (hclass : ops.all writeClass = true) (hdirect : allDirectOk r0 ops = true) :
    (∀ r ∈ runResults (State.new r0) ops, r = .ok)
    ∧ (commit none ((Sim.new r0).run (ops.map fun x => HOp.call x.1 x.2)).cache).2.2 = true
    ∧ abs (commit none ((Sim.new r0).run (ops.map fun x => HOp.call x.1 x.2)).cache).1.remote
        = abs ((Sim.new r0).run (ops.map fun x => HOp.call x.1 x.2)).direct := by
  have hs := sim_run_class (Sim.new r0) (vinv_new r0 hr) (jinv_new r0) ops hclass hdirect
  obtain ⟨V, J, hres⟩ := cinv_run (vinv_new r0 hr) (jinv_new r0) ops hclass hdirect
  rw [hs.1, hs.2]
  have hc := commit_class V J _ _ _ _ (fun _ => Iff.rfl) (fun _ => Iff.rfl) (fun _ => Iff.rfl) (fun _ => Iff.rfl) none
  exact ⟨hres, hc.2.2.2 rfl, hc.2.2.1 (hc.2.2.2 rfl)⟩

-- a history of the class: two views, odd spellings, an overwrite, directories, file copies from the remote and
-- from the buffer; the remote holds file a/x
example :
    ([(Handle.cache, Op.writeFile [47, 97, 47, 46, 47, 121] [1]), (.sub [97, 47], .writer [122, 47, 46, 46, 47, 121] [[2], [3]]),
      (.sub [98, 47, 99, 47], .mkdirAll [100]), (.cache, .mkdirAll [97]), (.sub [98, 47], .writeFile [99, 47, 101] []),
      (.cache, .copyFile [97, 47, 120] [102, 47, 103]), (.sub [97, 47], .copyFile [121] [46, 47, 122])]).all
        writeClass = true
    ∧ allDirectOk (Witness.mkRemote [([97, 47, 120], some [9])] Node.empty)
        [(Handle.cache, Op.writeFile [47, 97, 47, 46, 47, 121] [1]), (.sub [97, 47], .writer [122, 47, 46, 46, 47, 121] [[2], [3]]),
         (.sub [98, 47, 99, 47], .mkdirAll [100]), (.cache, .mkdirAll [97]), (.sub [98, 47], .writeFile [99, 47, 101] []),
         (.cache, .copyFile [97, 47, 120] [102, 47, 103]), (.sub [97, 47], .copyFile [121] [46, 47, 122])] = true := by
  decide
example : Inv (Witness.mkRemote [([97, 47, 120], some [9])] Node.empty) := Witness.inv_mkRemote _ _ inv_empty

/-- On the class every iteration order SUCCEEDS, with the direct tree. -/
theorem commit_order_irrelevant_partial (r0 : Node) (hr : Inv r0) (ops : List (Handle × Op))
    (hclass : ops.all writeClass = true) (hdirect : allDirectOk r0 ops = true)
    (rm rma mk wr : List Bytes)
    (hrm : rm.Perm (run (State.new r0) ops).remove) (hrma : rma.Perm (run (State.new r0) ops).removeAll)
    (hmk : mk.Perm (run (State.new r0) ops).mkdirAll) (hwr : wr.Perm (run (State.new r0) ops).write) :
    (commitWith rm rma mk wr none (run (State.new r0) ops)).2.2 = true
    ∧ abs (commitWith rm rma mk wr none (run (State.new r0) ops)).1.remote = abs (directRun r0 ops) := by
  obtain ⟨V, J, _⟩ := cinv_run (vinv_new r0 hr) (jinv_new r0) ops hclass hdirect
  have hc := commit_class V J rm rma mk wr (fun _ => hrm.mem_iff) (fun _ => hrma.mem_iff) (fun _ => hmk.mem_iff)
    (fun _ => hwr.mem_iff) none
  exact ⟨hc.2.2.2 rfl, hc.2.2.1 (hc.2.2.2 rfl)⟩

-- the journals of a small history replayed backwards
example :
    (commitWith [] [] [[98, 47, 99]] [[100], [97]] none
      (run (State.new Node.empty) [(.cache, .writeFile [97] [1]), (.cache, .mkdirAll [98, 47, 99]), (.cache, .writeFile [100] [2])])).2.2
      = true := by decide

/-- FAILED, THEN SUCCESSFUL COMMIT on the class: a Commit with a remote failure injected at ANY position `k`, in any
order, followed by a Commit without failure, in any order, ends with the direct tree — the tree of an unfailed
Commit. -/
theorem commit_retry_partial (r0 : Node) (hr : Inv r0) (ops : List (Handle × Op))
    (hclass : ops.all writeClass = true) (hdirect : allDirectOk r0 ops = true) (k : Nat)
    (rm rma mk wr rm' rma' mk' wr' : List Bytes)
    (hrm : rm.Perm (run (State.new r0) ops).remove) (hrma : rma.Perm (run (State.new r0) ops).removeAll)
    (hmk : mk.Perm (run (State.new r0) ops).mkdirAll) (hwr : wr.Perm (run (State.new r0) ops).write)
    (hrm' : rm'.Perm (run (State.new r0) ops).remove) (hrma' : rma'.Perm (run (State.new r0) ops).removeAll)
    (hmk' : mk'.Perm (run (State.new r0) ops).mkdirAll) (hwr' : wr'.Perm (run (State.new r0) ops).write) :
    (commitWith rm' rma' mk' wr' none (commitWith rm rma mk wr (some k) (run (State.new r0) ops)).1).2.2 = true
    ∧ abs (commitWith rm' rma' mk' wr' none (commitWith rm rma mk wr (some k) (run (State.new r0) ops)).1).1.remote
        = abs (directRun r0 ops) := by
  obtain ⟨V, J, _⟩ := cinv_run (vinv_new r0 hr) (jinv_new r0) ops hclass hdirect
  have hc := commit_class V J rm rma mk wr (fun _ => hrm.mem_iff) (fun _ => hrma.mem_iff) (fun _ => hmk.mem_iff)
    (fun _ => hwr.mem_iff) (some k)
  have hf := commitWith_frame rm rma mk wr (some k) (run (State.new r0) ops)
  have hc2 := commit_class hc.1 hc.2.1 rm' rma' mk' wr'
    (fun _ => by rw [hf.2.1]; exact hrm'.mem_iff) (fun _ => by rw [hf.2.2.1]; exact hrma'.mem_iff)
    (fun _ => by rw [hf.2.2.2.1]; exact hmk'.mem_iff) (fun _ => by rw [hf.2.2.2.2]; exact hwr'.mem_iff) none
  exact ⟨hc2.2.2.2 rfl, hc2.2.2.1 (hc2.2.2.2 rfl)⟩

-- the injected failure does fire in the class (so the theorem is not about unfailed commits only)
example :
    (commit (some 1) (run (State.new Node.empty) [(.cache, .writeFile [97, 47, 98] [1]), (.cache, .mkdirAll [99])])).2.2 = false
    ∧ (commit none (commit (some 1)
        (run (State.new Node.empty) [(.cache, .writeFile [97, 47, 98] [1]), (.cache, .mkdirAll [99])])).1).2.2 = true := by
  decide

/-- A SECOND COMMIT on the class changes nothing. -/
theorem second_commit_unchanged_partial (r0 : Node) (hr : Inv r0) (ops : List (Handle × Op))
    (hclass : ops.all writeClass = true) (hdirect : allDirectOk r0 ops = true) :
    (commit none (commit none (run (State.new r0) ops)).1).2.2 = true
    ∧ abs (commit none (commit none (run (State.new r0) ops)).1).1.remote
        = abs (commit none (run (State.new r0) ops)).1.remote := by
  obtain ⟨V, J, _⟩ := cinv_run (vinv_new r0 hr) (jinv_new r0) ops hclass hdirect
  have hc := commit_class V J _ _ _ _ (fun _ => Iff.rfl) (fun _ => Iff.rfl) (fun _ => Iff.rfl) (fun _ => Iff.rfl) none
  have hc2 := commit_class hc.1 hc.2.1 _ _ _ _ (fun _ => Iff.rfl) (fun _ => Iff.rfl) (fun _ => Iff.rfl)
    (fun _ => Iff.rfl) none
  exact ⟨hc2.2.2.2 rfl, by
    show abs (commit none (commit none (run (State.new r0) ops)).1).1.remote = _
    rw [show abs (commit none (run (State.new r0) ops)).1.remote = abs (directRun r0 ops) from hc.2.2.1 (hc.2.2.2 rfl)]
    exact hc2.2.2.1 (hc2.2.2.2 rfl)⟩

example :
    abs (commit none (commit none (run (State.new Node.empty) [(.cache, .writeFile [97, 47, 98] [1])])).1).1.remote [[97], [98]]
      = some (.file [1]) := by decide

/-- Direct application — the executable twin used above — IS a run of the specification `FS.Step`
(`Goat.C01.memfs_refines`): through an ok handle rooted at `b`, one call applied directly answers and changes
the abstract tree as `FS.Step b` prescribes. -/
theorem direct_is_spec (h : Handle) (hok : h.ok = true) (D : Node) (hD : Inv D) (op : Op) :
    ∃ b, handleBase h = some b ∧ FS.Step b (abs D) op (directStep D h op).2 (abs (directStep D h op).1) :=
  Cache.direct_is_spec h hok D hD op

example : Handle.ok (.sub [97, 47, 98, 47]) = true := by decide

end Goat.C06
