/-
Property C07 — the cache view reflects its own pending operations (read-your-writes).

  "Before Commit, every read-type operation issued through the cache (exists/is-file/is-dir, read, list, stat,
   copy source) answers as if the pending operations had already been applied on top of the remote: written data
   is returned, created directories are listed once, and removed files and directories are no longer visible."

Stated over the executable model `Goat/Model/Cache.lean` and the point-wise specification `Goat/Spec/FS.lean`
(`FS.Step`); vocabulary as in `Goat/Props/C06.lean`.  "As if the pending operations had already been applied on
top of the remote" = the answer of `FS.Step` on the direct tree: the remote's initial tree to which the same
successful operations were applied directly (`Sim`, `directRun`; `Goat.C06.direct_is_spec`).

WHAT IS PROVED
  full strength   pending_writes_view (a sequence of pending writes to one path, after any history: every intermediate
                  state's view of the path is the value written last - never the remote's; the sequential backbone of
                  the concurrent family `cache conc` of the check),
                  readDir_nodup ("created directories are listed once": for every history, Commits and injected
                  failures included, through every handle), read_after_write ("written data is returned": whatever
                  the remote holds), view_is_subpath / view_of_view (child views, to any depth)
  DISPROVED       ryw for the code as it is: `ryw_false`; one evaluated witness per finding class KF-C07-1 … 6 in
                  `findings_witnessed` (known_findings.d/C07.json)
  `_partial`      ryw_partial: all seven read-type operations, through the cache or any ok child view, after any
                  history of WriteFile / Writer / MkdirAll / CopyFile and of Remove / RemoveAll of nodes that exist only
                  in the buffer, in which every operation also succeeds when applied directly — i.e. under the negation of the
                  defect predicates KF-C07-1…5; the remaining hypothesis `hnc` is the negation of KF-C07-6.

"Copy source": on the class a CopyFile through the cache copies exactly the data the direct tree holds at the source
(it is inside `ryw_partial`'s histories: `vinv_copyFile`); Copy / CopyDirectory of directories are not (KF-C07-4,
KF-C06-4) and are covered by the correspondence only.
-/
import Goat.Proofs.CacheWitness
import Goat.Proofs.CacheSeq

namespace Goat.C07

open Goat Goat.FS Goat.Cache Goat.MemFS

/-! ### 1. Read-your-writes — FALSE for the code, true on a class -/

/-- THE FULL STATEMENT: after any history through ok handles on any well-formed remote, every read-type call
through any ok handle answers what the same call answers on the direct tree (listings as sets). -/
def ryw : Prop :=
  ∀ (r0 : Node), Inv r0 → ∀ (ops : List (Handle × Op)), (∀ x ∈ ops, x.1.ok = true) →
    ∀ (h : Handle), h.ok = true → ∀ (op : Op), isRead op = true →
      canon (step h ((Sim.new r0).run (ops.map fun x => HOp.call x.1 x.2)).cache op).2
        = canon (directStep ((Sim.new r0).run (ops.map fun x => HOp.call x.1 x.2)).direct h op).2

/-- … is false (witness: KF-C07-1, remote file `b`, `Remove b` through the cache, `IsExist b` still answers true). -/
theorem ryw_false : ¬ ryw := by
  intro H
  have := H (Witness.mkRemote Witness.r71 Node.empty) (Witness.inv_mkRemote _ _ inv_empty) [(.cache, .remove [98])]
    (by decide) .cache rfl (.isExist [98]) rfl
  exact absurd this (by decide)

/-- ONE WITNESS PER FINDING CLASS (known_findings.d/C07.json; replayed on the Go code by every run of the check):
the history is in the class named by its defect predicate, and a read through the cache differs from the read
of the direct tree. -/
theorem findings_witnessed :
    -- KF-C07-1  a removed remote file stays visible
    (Defect.removeRemote ∈ defectsOf (Sim.new (Witness.mkRemote Witness.r71 Node.empty)) (Witness.calls Witness.h71)
      ∧ (step .cache (Witness.sim Witness.r71 Witness.h71).cache (.isExist [98])).2 = .bool true
      ∧ (directStep (Witness.sim Witness.r71 Witness.h71).direct .cache (.isExist [98])).2 = .bool false)
    -- KF-C07-2  RemoveAll of a remote directory leaves it and its children visible
    ∧ (Defect.removeAllRemote ∈ defectsOf (Sim.new (Witness.mkRemote Witness.r72 Node.empty)) (Witness.calls Witness.h72)
      ∧ (step .cache (Witness.sim Witness.r72 Witness.h72).cache (.isExist [97, 47, 98])).2 = .bool true
      ∧ (directStep (Witness.sim Witness.r72 Witness.h72).direct .cache (.isExist [97, 47, 98])).2 = .bool false)
    -- KF-C07-3  a write beneath a remote file is accepted: the path is file and directory
    ∧ (Defect.typeConflict ∈ defectsOf (Sim.new (Witness.mkRemote Witness.r9 Node.empty)) (Witness.calls Witness.h9)
      ∧ (step .cache (Witness.sim Witness.r9 Witness.h9).cache (.isFile [97])).2 = .bool true
      ∧ (step .cache (Witness.sim Witness.r9 Witness.h9).cache (.isDir [97])).2 = .bool true
      ∧ (directStep (Witness.sim Witness.r9 Witness.h9).direct .cache (.isDir [97])).2 = .bool false)
    -- KF-C07-4  copy of a directory present in buffer and remote copies only the buffer part
    ∧ (Defect.copyMergedDir ∈ defectsOf (Sim.new (Witness.mkRemote Witness.r74 Node.empty)) (Witness.calls Witness.h74)
      ∧ (step .cache (Witness.sim Witness.r74 Witness.h74).cache (.isExist [99, 47, 120])).2 = .bool false
      ∧ (directStep (Witness.sim Witness.r74 Witness.h74).direct .cache (.isExist [99, 47, 120])).2 = .bool true)
    -- KF-C07-5  CopyFile onto an existing destination overwrites
    ∧ (Defect.copyOntoExisting ∈ defectsOf (Sim.new (Witness.mkRemote Witness.r10 Node.empty)) (Witness.calls Witness.h10)
      ∧ (step .cache (Witness.sim Witness.r10 Witness.h10).cache (.readFile [99])).2 = .data [49]
      ∧ (directStep (Witness.sim Witness.r10 Witness.h10).direct .cache (.readFile [99])).2 = .data [50])
    -- KF-C07-6  the rooted climbing path `/..` is the root for the cache
    ∧ (Defect.rootedClimb ∈ defectsOf (Sim.new (Witness.mkRemote Witness.r9 Node.empty)) (Witness.calls [.isExist [47, 46, 46]])
      ∧ (step .cache (Witness.sim Witness.r9 []).cache (.isExist [47, 46, 46])).2 = .bool true
      ∧ (directStep (Witness.sim Witness.r9 []).direct .cache (.isExist [47, 46, 46])).2 = .bool false) := by
  refine ⟨⟨?_, ?_, ?_⟩, ⟨?_, ?_, ?_⟩, ⟨?_, ?_, ?_, ?_⟩, ⟨?_, ?_, ?_⟩, ⟨?_, ?_, ?_⟩, ⟨?_, ?_, ?_⟩⟩ <;> decide

/-- READ-YOUR-WRITES ON THE CLASS.  On any well-formed initial remote, after any history (any length, any
spellings, through the cache or ok child views) of WriteFile / Writer / MkdirAll / CopyFile and of Remove / RemoveAll of nodes
that do not exist on the remote, in which every operation also succeeds when applied directly: every operation
succeeded through the cache too, and EVERY read-type operation (IsExist, IsFile, IsDir, ReadFile, Reader, ReadDir,
Lstat; any spelling) through the cache or any ok child view rooted at `b` answers exactly what the specification
`FS.Step b` answers on the direct tree — written data is returned, directories are listed with exactly their
children, each once, removed nodes are gone.  `hnc` (only for reads on the cache itself): a path that climbs
above the root must still climb after `CleanPath` — the negation of KF-C07-6. -/
theorem ryw_partial (r0 : Node) (hr : Inv r0) (ops : List (Handle × Op))
    (hclass : ops.all rywClass = true) (hdirect : allDirectOk r0 ops = true)
    (honly : removesBufferOnly r0 ops = true)
    (h : Handle) (hok : h.ok = true) (op : Op) (hread : isRead op = true)
    (hnc : h = .cache → ∀ raw ∈ opArgs op, Path.norm raw = none → Path.norm (Path.cleanPath raw) = none) :
    (∀ r ∈ runResults (State.new r0) ops, r = .ok)
    ∧ ∃ b, handleBase h = some b
        ∧ FS.Step b (abs (directRun r0 ops)) op (step h (run (State.new r0) ops) op).2 (abs (directRun r0 ops)) := by
  obtain ⟨V, hres⟩ := vinv_run (vinv_new r0 hr) ops hclass hdirect honly
  exact ⟨hres, ryw_step V h hok op hread hnc⟩

-- a history of the class with removes of buffer-only nodes; the remote holds file a/x and directory d
example :
    ([(Handle.cache, Op.writeFile [97, 47, 121] [1]), (.sub [98, 47], .mkdirAll [99, 47, 100]), (.cache, .remove [97, 47, 121]),
      (.cache, .removeAll [98, 47, 99]), (.sub [98, 47], .writer [47, 101] [[2]])]).all rywClass = true
    ∧ allDirectOk (Witness.mkRemote [([97, 47, 120], some [9]), ([100], none)] Node.empty)
        [(Handle.cache, Op.writeFile [97, 47, 121] [1]), (.sub [98, 47], .mkdirAll [99, 47, 100]), (.cache, .remove [97, 47, 121]),
         (.cache, .removeAll [98, 47, 99]), (.sub [98, 47], .writer [47, 101] [[2]])] = true
    ∧ removesBufferOnly (Witness.mkRemote [([97, 47, 120], some [9]), ([100], none)] Node.empty)
        [(Handle.cache, Op.writeFile [97, 47, 121] [1]), (.sub [98, 47], .mkdirAll [99, 47, 100]), (.cache, .remove [97, 47, 121]),
         (.cache, .removeAll [98, 47, 99]), (.sub [98, 47], .writer [47, 101] [[2]])] = true := by
  decide
-- … after which the listing of the root through the cache is a, d (remote) and b (buffer), each once
example :
    (step .cache (run (State.new (Witness.mkRemote [([97, 47, 120], some [9]), ([100], none)] Node.empty))
        [(Handle.cache, Op.writeFile [97, 47, 121] [1]), (.sub [98, 47], .mkdirAll [99, 47, 100]), (.cache, .remove [97, 47, 121]),
         (.cache, .removeAll [98, 47, 99]), (.sub [98, 47], .writer [47, 101] [[2]])]) (.readDir [])).2
      = .list [([97], true), ([100], true), ([98], true)] := by decide
-- the hypothesis `hnc` holds for ordinary climbing paths (`../a`) and fails exactly for rooted ones (`/..`)
example : Path.norm [46, 46, 47, 97] = none ∧ Path.norm (Path.cleanPath [46, 46, 47, 97]) = none := by decide
example : Path.norm [47, 46, 46] = none ∧ Path.norm (Path.cleanPath [47, 46, 46]) = some [] := by decide

/-! ### 2. Created directories are listed once -/

/-- `readDir_nodup`, full strength: after ANY history — all 16 methods incl. copies, Commits in the canonical
order with or without injected failures, on any well-formed initial remote — the merged listing of the cache,
through the cache or any child view, never lists a name twice. -/
theorem readDir_nodup (r0 : Node) (hr : Inv r0) (hist : List HOp) (h : Handle) (raw : Bytes)
    (l : List (Path.Name × Bool))
    (hl : (step h ((Sim.new r0).run hist).cache (.readDir raw)).2 = .list l) : (l.map Prod.fst).Nodup :=
  step_readDir_nodup h _ (sim_run_winv (Sim.new r0) (winv_new r0 hr) hist) raw l hl

/-- the same for any state whose two trees are well formed, and for Commit in any iteration order -/
theorem readDir_nodup_state (s : Cache.State) (W : WInv s) (h : Handle) (raw : Bytes) (l : List (Path.Name × Bool))
    (hl : (step h s (.readDir raw)).2 = .list l) : (l.map Prod.fst).Nodup :=
  step_readDir_nodup h s W raw l hl

-- remote has a and b; the cache re-creates b and creates c: the listing is a, b, c
example :
    (step .cache ((Sim.new (Witness.mkRemote [([97], some [1]), ([98, 47, 120], some [2])] Node.empty)).run
        [.call .cache (.mkdirAll [98]), .call .cache (.writeFile [99] [3]), .commit none, .call .cache (.mkdirAll [98, 47, 121])]).cache
      (.readDir [])).2 = .list [([97], false), ([98], true), ([99], false)] := by decide

/-! ### 3. Written data is returned -/

/-- `read_after_write`, full strength: for every state with a well-formed buffer (whatever the remote holds —
also a file or a directory at that very path — and whatever is journalled), data written successfully with
`WriteFile` or `Writer` through any ok handle and any spelling is what `ReadFile` and `Reader` (any buffer sizes)
return through any ok handle and any spelling that reaches the same path. -/
theorem read_after_write (s : Cache.State) (hb : Inv s.buffer) (h h' : Handle) (hok : h.ok = true)
    (hok' : h'.ok = true) (b b' : List Path.Name) (hbase : handleBase h = some b) (hbase' : handleBase h' = some b')
    (raw raw' : Bytes) (p p' : List Path.Name) (hn : Path.norm raw = some p) (hn' : Path.norm raw' = some p')
    (hsame : b ++ p = b' ++ p') :
    (∀ data, (step h s (.writeFile raw data)).2 = .ok →
      (step h' (step h s (.writeFile raw data)).1 (.readFile raw')).2 = .data data
      ∧ ∀ sizes, (step h' (step h s (.writeFile raw data)).1 (.reader raw' sizes)).2
          = .chunks (FS.readChunks data sizes))
    ∧ (∀ cs, (step h s (.writer raw cs)).2 = .ok →
      (step h' (step h s (.writer raw cs)).1 (.readFile raw')).2 = .data cs.flatten
      ∧ ∀ sizes, (step h' (step h s (.writer raw cs)).1 (.reader raw' sizes)).2
          = .chunks (FS.readChunks cs.flatten sizes)) :=
  read_after_write_gen s hb h h' hok hok' b b' hbase hbase' raw raw' p p' hn hn' hsame

-- written through the view a/ as "./x", read through the cache as "/a//x"; the remote holds another a/x
example :
    handleBase (.sub [97, 47]) = some [[97]] ∧ handleBase .cache = some []
    ∧ Path.norm [46, 47, 120] = some [[120]] ∧ Path.norm [47, 97, 47, 47, 120] = some [[97], [120]] := by decide
example :
    (step .cache (step (.sub [97, 47]) (State.new (Witness.mkRemote [([97, 47, 120], some [9])] Node.empty))
        (.writeFile [46, 47, 120] [7])).1 (.readFile [47, 97, 47, 47, 120])).2 = .data [7] := by decide

/-! ### 3b. A sequence of pending writes to one path -/

/-- `pending_writes_view`, full strength: on ANY well-formed initial remote (whatever it holds at the path), after ANY
earlier history `hist` (all methods, through any handles), for ANY sequence `ws` of WriteFile calls
`(handle, spelling, data)` that all reach one path `q` (each through its own ok handle and spelling): in the
intermediate state after the first `k+1` of them, if the `k`-th was accepted, `ReadFile` and `Reader` of the path -
through every ok handle and spelling reaching `q` - return the `k`-th value: one of the written values, never the
remote's content and never "absent".  (The concurrent family of the check linearises a writer goroutine into such a
sequence: a reader overlapping the writes `lo+1 … hi` must see the view of one of the states `lo … hi`.) -/
theorem pending_writes_view (r0 : Node) (hr : Inv r0) (hist : List (Handle × Op)) (q : List Path.Name)
    (ws : List (Handle × Bytes × Bytes))
    (hall : ∀ w ∈ ws, w.1.ok = true ∧ ∃ b p, handleBase w.1 = some b ∧ Path.norm w.2.1 = some p ∧ b ++ p = q)
    (h' : Handle) (hok' : h'.ok = true) (b' : List Path.Name) (hbase' : handleBase h' = some b')
    (raw' : Bytes) (p' : List Path.Name) (hn' : Path.norm raw' = some p') (hq : b' ++ p' = q)
    (k : Nat) (hk : k < ws.length)
    (hw : (step ws[k].1 (run (State.new r0) (hist ++ writeOps (ws.take k))) (.writeFile ws[k].2.1 ws[k].2.2)).2 = .ok) :
    (step h' (run (State.new r0) (hist ++ writeOps (ws.take (k + 1)))) (.readFile raw')).2 = .data ws[k].2.2
    ∧ (∀ sizes, (step h' (run (State.new r0) (hist ++ writeOps (ws.take (k + 1)))) (.reader raw' sizes)).2
        = .chunks (FS.readChunks ws[k].2.2 sizes))
    ∧ ws[k].2.2 ∈ ws.map (fun w => w.2.2) :=
  pending_writes_seq (State.new r0) (winv_new r0 hr) hist q ws hall h' hok' b' hbase' raw' p' hn' hq k hk hw

-- the remote holds d/a = "9"; an earlier Remove of d/a; then v1 = [1] through the cache as "d/a", v2 = [2] through the
-- view d/ as "./a", v3 = [3] through the cache as "/d//a": the hypotheses hold for k = 1 …
example :
    (∀ w ∈ [((Handle.cache, [100, 47, 97], [1]) : Handle × Bytes × Bytes), (.sub [100, 47], [46, 47, 97], [2]),
              (.cache, [47, 100, 47, 47, 97], [3])],
        w.1.ok = true ∧ ∃ b p, handleBase w.1 = some b ∧ Path.norm w.2.1 = some p ∧ b ++ p = [[100], [97]])
    ∧ (step (.sub [100, 47]) (run (State.new (Witness.mkRemote [([100, 47, 97], some [9])] Node.empty))
          ([(Handle.cache, Op.remove [100, 47, 97])] ++ writeOps [(Handle.cache, [100, 47, 97], [1])]))
        (.writeFile [46, 47, 97] [2])).2 = .ok := by
  refine ⟨?_, by decide⟩
  intro w hw
  simp only [List.mem_cons, List.mem_nil_iff, or_false] at hw
  rcases hw with rfl | rfl | rfl
  · exact ⟨rfl, [], [[100], [97]], by decide, by decide, rfl⟩
  · exact ⟨rfl, [[100]], [[97]], by decide, by decide, rfl⟩
  · exact ⟨rfl, [], [[100], [97]], by decide, by decide, rfl⟩
-- … and the three intermediate states read 1, 2, 3 through the view (the remote's 9 never)
example :
    [1, 2, 3].map (fun k => (step (.sub [100, 47]) (run (State.new (Witness.mkRemote [([100, 47, 97], some [9])] Node.empty))
        ([(Handle.cache, Op.remove [100, 47, 97])] ++ writeOps ([((Handle.cache, [100, 47, 97], [1]) : Handle × Bytes × Bytes),
            (.sub [100, 47], [46, 47, 97], [2]), (.cache, [47, 100, 47, 47, 97], [3])].take k))) (.readFile [97])).2)
      = [.data [1], .data [2], .data [3]] := by decide

/-! ### 4. Child views -/

/-- A child view is the sub-path view: a call through `Filespace(p)` of the cache is the cache's call at
`clean(p)/` ++ reduced argument (and is refused without reaching the cache when an argument climbs above the
view's root, or `Remove`/`RemoveAll` address the view's root itself). -/
theorem view_is_subpath (base : Bytes) (s : Cache.State) (op : Op) :
    step (.sub base) s op =
      match subOp base op with
      | some op' => stepCache s op'
      | none => (s, failResult op) := rfl

/-- Views of views, to any depth: `Filespace(raw)` through an ok handle rooted at `b`, with a path that does not
climb, is an ok handle rooted at `b ++ norm raw` — so `ryw_partial`, `read_after_write` and `readDir_nodup` hold
through every view that can be opened this way. -/
theorem view_of_view (h : Handle) (hok : h.ok = true) (raw : Bytes) (q : List Path.Name)
    (hn : Path.norm raw = some q) :
    ∃ h' b, openView h raw = some h' ∧ h'.ok = true ∧ handleBase h = some b ∧ handleBase h' = some (b ++ q) :=
  openView_ok h hok raw q hn

example : openView .cache [47, 97, 47, 46, 47, 98] = some (.sub [47, 97, 47, 98, 47]) := by decide
example : openView (.sub [47, 97, 47, 98, 47]) [99, 47, 46, 46, 47, 100] = some (.sub [47, 97, 47, 98, 47, 100, 47]) := by
  decide

end Goat.C07
