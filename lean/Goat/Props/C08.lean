/-
Property C08 — `filesystem/fsloop`: the concurrent tree walk visits every selected node exactly
once and then stops.

  "A filespace loop calls the file callback exactly once for every file and the directory callback
   exactly once for every directory that passes the filters (descending only into accepted
   directories), never runs more callbacks at once than the configured consumer count, and waiting
   on the loop returns only after the last callback has returned.  A callback or listing error
   always appears in the loop's error list; with no error nothing is skipped or repeated under any
   scheduling."

Stated over the two transition systems of `Goat/Model/Loop.lean` (namespace `Goat.Loop`):

  * producers: `producerSeqs c oracle root l k` = the action sequence of every producer goroutine
    walking the tree `(l, k)` (root listing succeeds or not, children) under the `LoopData` fields
    `c` (filters, which callbacks are set), where `oracle` decides for every accepted directory
    whether `pool.Add(1)` granted a fresh producer; a run of the producers is any `Interleave`-ing
    `acts` of these sequences;
  * queues + consumers + closer: `sys P acts n`, whose schedules are arbitrary `List Label`
    (producer action / producer gives up after a kill / closer action / action of consumer `i`),
    `P` = channel capacities, which callbacks fail, and the order of the two reads of the consumer
    (`fixedOrder = true` is the code after `fix: fsloop consumer reads the lifecycle step before
    testing the queues`).

Every theorem quantifies over all trees, filters, oracles, interleavings, numbers of consumers,
capacities and schedules (lists of any length).

Vocabulary: `sends acts` / `lists acts` the channel sends / `ReadDir` calls among producer actions;
`selected` / `listed` the specification of the walk (plain recursion over the tree);
`waitEnabled s` = the consumer pool's wait-group counter is 0 (`Loop.Wait()` can return);
`inflight cons` = callbacks being executed; `reporting cons` = failed callbacks whose
`lifecycle.Error(err)` is the very next action of their consumer.
-/
import Goat.Proofs.LoopOld

namespace Goat.C08

open Goat.LTS Goat.Loop

/-! ### 1. Producers -/

/-- Whatever the tree, the filters and the fresh-producer/inline decisions, and however the
producers interleave: the items sent to the two channels are exactly the selected nodes, each once
(equality of multisets). -/
theorem producers_enqueue_once (c : WalkCfg) (oracle : Path → Bool) (root : Path) (l : Bool) (k : Kids)
    (acts : List PAct) (h : Interleave (producerSeqs c oracle root l k) acts) :
    (sends acts).Perm (selected c root l k) :=
  (sends_perm (interleave_perm h)).trans (walkRoot_sends_perm c oracle root l k)

/-- Descends only into accepted directories: the directories handed to `ReadDir` are the root and
the accepted directories below listable listed ones, each once, with the listing's outcome. -/
theorem producers_list_accepted_once (c : WalkCfg) (oracle : Path → Bool) (root : Path) (l : Bool) (k : Kids)
    (acts : List PAct) (h : Interleave (producerSeqs c oracle root l k) acts) :
    (lists acts).Perm (listed c root l k) :=
  (lists_perm (interleave_perm h)).trans (walkRoot_lists_perm c oracle root l k)

/-- a tree: `./a` (file), `./d/` accepted with `./d/x`, `./e/` rejected with `./e/y` -/
def exTree : Kids :=
  .cons "a" .file (.cons "d" (.dir true (.cons "x" .file .nil)) (.cons "e" (.dir true (.cons "y" .file .nil)) .nil))
def exCfg : WalkCfg :=
  { fileFilter := none, dirFilter := some (fun p => p != "./e"), onFile := true, onDir := true }

example : Interleave (producerSeqs exCfg (fun _ => true) "./" true exTree)
    (producerSeqs exCfg (fun _ => true) "./" true exTree).flatten := interleave_flatten _
example : selected exCfg "./" true exTree = [(false, "./a"), (true, "./d"), (false, "./d/x")] := by decide
example : (producerSeqs exCfg (fun _ => true) "./" true exTree).length = 2 := by decide
example : listed exCfg "./" true exTree = [("./", true), ("./d", true)] := by decide

/-! ### 2. The invariant of the repaired protocol -/

/-- `Inv` (see `Goat/Proofs/LoopInv.lean`): the closer's position determines the announcement and
leaves `waiting` only when the producers are done; a consumer that read "closed" really saw the
announcement, and after it also saw `dirChan` empty, `dirChan` stays empty; a consumer that left its
loop did so after a kill or with the announcement made and both queues empty; the wait-group counter
counts the consumers that have not signed off; items are conserved
(`pending ⊎ queues ⊎ in callbacks ⊎ done ⊎ never-sent-after-kill = all sends`); failures are
conserved; queues respect their capacities.  It holds after every schedule, for every number of
consumers and all capacities. -/
theorem loop_inv (P : Params) (hP : P.fixedOrder = true) (acts : List PAct) (n : Nat) (sched : List Label) :
    Inv P acts n ((sys P acts n).run sched) :=
  inv_reachable hP acts n _ (run_reachable _ sched)

example : newParams.fixedOrder = true := rfl
example : Inv newParams oneFile 3 ((sys newParams oneFile 3).run [.prod, .cons 2, .prod, .cons 0, .closer]) :=
  loop_inv newParams rfl oneFile 3 _

/-! ### 3. Exactly once -/

/-- When `Wait` can return and the error list is empty, the callbacks that have returned are exactly
the selected nodes, each once — for every tree, filters, producer interleaving, number `n ≥ 1` of
consumers, capacities and schedule. -/
theorem exactly_once (c : WalkCfg) (oracle : Path → Bool) (root : Path) (l : Bool) (k : Kids)
    (acts : List PAct) (hacts : Interleave (producerSeqs c oracle root l k) acts)
    (P : Params) (hP : P.fixedOrder = true) (n : Nat) (hn : 0 < n) (sched : List Label) :
    let s := (sys P acts n).run sched
    waitEnabled s → s.errors = [] → s.done.Perm (selected c root l k) := by
  intro s hw he
  exact (done_perm_of_wait (loop_inv P hP acts n sched) hn hw he).trans
    (producers_enqueue_once c oracle root l k acts hacts)

/-- Nothing is ever repeated, errors or not: at every moment the finished and the running callbacks
on a node together do not exceed the node's multiplicity among the selected nodes. -/
theorem never_repeated (c : WalkCfg) (oracle : Path → Bool) (root : Path) (l : Bool) (k : Kids)
    (acts : List PAct) (hacts : Interleave (producerSeqs c oracle root l k) acts)
    (P : Params) (hP : P.fixedOrder = true) (n : Nat) (sched : List Label) (x : Item) :
    let s := (sys P acts n).run sched
    s.done.count x + (inflight s.cons).count x ≤ (selected c root l k).count x := by
  intro s
  have h1 : s.done.count x + (inflight s.cons).count x ≤ (sends acts).count x :=
    done_count_le (loop_inv P hP acts n sched) x
  have h2 := (producers_enqueue_once c oracle root l k acts hacts).count_eq x
  omega

/-- a complete run on one file with one consumer: `Wait` can return, no error, the callback ran -/
def exRun : St :=
  (sys newParams oneFile 1).run ([.prod, .prod, .closer, .closer] ++ List.replicate 13 (.cons 0))
example : waitEnabled exRun ∧ exRun.errors = [] ∧ exRun.done = [(false, "./a")] := by decide

example : (selected exCfg "./" true exTree).count (false, "./a") = 1 := by decide

/-! ### 4. `Wait` returns after the last callback -/

/-- When `Wait` can return no callback is running, and whatever happens afterwards no callback
starts or finishes any more. -/
theorem wait_after_last_callback (P : Params) (hP : P.fixedOrder = true) (acts : List PAct) (n : Nat)
    (sched : List Label) :
    let s := (sys P acts n).run sched
    waitEnabled s → inflight s.cons = [] ∧
      ∀ more : List Label, inflight ((sys P acts n).runFrom s more).cons = [] ∧
        ((sys P acts n).runFrom s more).done = s.done := by
  intro s hw
  have hall := allExited_of_wait (loop_inv P hP acts n sched) hw
  refine ⟨inflight_allExited _ hall, fun more => ?_⟩
  have := allExited_runFrom (P := P) (acts := acts) (n := n) hall more
  exact ⟨inflight_allExited _ this.1, this.2⟩

example : waitEnabled exRun ∧ inflight exRun.cons = [] := by decide

/-! ### 5. Bounded concurrency -/

/-- The number of callbacks running at once never exceeds the number of consumer goroutines, which
is what `Loop.Run` computes from `LoopData.Consumers` with `Pool.Add`'s arithmetic: at most
`workers.MaxJob`, at most the configured count when one is configured, equal to it when it lies
between 1 and `workers.MaxJob`. -/
theorem bounded_callbacks (P : Params) (hP : P.fixedOrder = true) (acts : List PAct)
    (configured maxJob : Nat) (sched : List Label) :
    let n := consumerCount configured maxJob
    let s := (sys P acts n).run sched
    (inflight s.cons).length ≤ n ∧ n ≤ maxJob ∧ (configured ≠ 0 → n ≤ configured) ∧
      (1 ≤ configured → configured ≤ maxJob → n = configured) ∧ (0 < maxJob → 0 < n) := by
  intro n s
  refine ⟨inflight_length_le (loop_inv P hP acts n sched), consumerCount_le _ _, ?_,
    consumerCount_eq _ _, consumerCount_pos _ _⟩
  intro h
  show consumerCount configured maxJob ≤ configured
  simp only [consumerCount, poolAdd]
  split <;> omega

example : consumerCount 3 16 = 3 ∧ consumerCount 0 16 = 16 ∧ consumerCount 40 16 = 16 := by decide

/-! ### 6. Errors are recorded -/

/-- (a) Every callback that returned an error is in the error list or its consumer's very next
action is to put it there; (b) every failing listing is in the error list, or has not been executed
yet, or was never executed because the lifecycle had already been killed; (c) when `Wait` can return
every failed callback is in the error list; (d) an empty error list means nothing was killed and
no producer action was skipped. -/
theorem errors_recorded (P : Params) (hP : P.fixedOrder = true) (acts : List PAct) (n : Nat)
    (sched : List Label) :
    let s := (sys P acts n).run sched
    (∀ d x, s.errors.count (.cb d x) + (reporting s.cons).count (.cb d x)
        = if P.failCb d x then s.done.count (d, x) else 0)
    ∧ (∀ p, s.errors.count (.listing p) + (lists s.pending).count (p, false)
        + (lists s.dropped).count (p, false) = (lists acts).count (p, false))
    ∧ (waitEnabled s → ∀ d x, (d, x) ∈ s.done → P.failCb d x = true → Err.cb d x ∈ s.errors)
    ∧ (s.errors = [] → s.killed = false ∧ s.dropped = []) := by
  intro s
  have hI := loop_inv P hP acts n sched
  have ha : ∀ d x, s.errors.count (.cb d x) + (reporting s.cons).count (.cb d x)
      = if P.failCb d x then s.done.count (d, x) else 0 := by
    intro d x
    rw [count_reporting (d, x)]
    exact hI.cbfail (d, x)
  refine ⟨ha, hI.lfail, ?_, ?_⟩
  · intro hw d x hx hf
    have h := ha d x
    rw [reporting_allExited _ (allExited_of_wait hI hw), hf] at h
    have hpos : 0 < s.done.count (d, x) := List.count_pos_iff.mpr hx
    apply List.count_pos_iff.mp
    simp at h
    omega
  · intro he
    have hk : s.killed = false := by
      cases hs : s.killed
      · rfl
      · exact absurd he (hI.killed.mp hs)
    exact ⟨hk, hI.dropped hk⟩

/-- a failing callback: the run ends with the failure in the error list -/
def exFailRun : St :=
  (sys { newParams with failCb := fun _ p => p == "./a" } oneFile 1).run
    ([.prod, .prod] ++ List.replicate 12 (.cons 0))
example : waitEnabled exFailRun ∧ exFailRun.errors = [.cb false "./a"] ∧ exFailRun.killed = true := by decide

/-! ### 7. Progress, and no send on a closed channel -/

/-- Without a kill and with at least one consumer, some action is enabled until every consumer has
signed off and the closer has closed both channels (no deadlock; in particular a producer blocked
on a full channel is never left behind: as long as anything is left to send, no consumer has left
its loop). -/
theorem no_stuck_without_kill (P : Params) (hP : P.fixedOrder = true) (acts : List PAct) (n : Nat)
    (hn : 0 < n) (sched : List Label) :
    let s := (sys P acts n).run sched
    s.killed = false →
      (¬ (AllExited s ∧ s.closer = .fin) → ∃ l t, (sys P acts n).step s l = some t)
      ∧ (s.pending ≠ [] → ∀ pc ∈ s.cons, pc ≠ .exiting ∧ pc ≠ .exited) := by
  intro s hk
  have hI := loop_inv P hP acts n sched
  exact ⟨fun hnf => progress hI hn hk hnf, fun hp => consumer_remains hI hk hp⟩

/-- a state in the middle of a run: not killed, the consumer still in its loop, the closer not done -/
example :
    let s := (sys newParams oneFile 1).run [.prod, .cons 0, .cons 0]
    s.killed = false ∧ ¬ (AllExited s ∧ s.closer = .fin) ∧ s.pending ≠ [] := by
  refine ⟨by decide, ?_, by decide⟩
  intro h
  have : (.fin : CPC) = .waiting := h.2.symm.trans (by decide)
  cases this

/-- The closer closes the channels only when nothing is left to send. -/
theorem no_send_on_closed_channel (P : Params) (hP : P.fixedOrder = true) (acts : List PAct) (n : Nat)
    (sched : List Label) :
    let s := (sys P acts n).run sched
    (s.dClosed = true ∨ s.fClosed = true) → s.pending = [] := by
  intro s h
  have hI := loop_inv P hP acts n sched
  exact closed_pending hI.closer (chClosed_closed hI.closer h)

/-- a run in which both channels have been closed -/
example :
    let s := (sys newParams oneFile 1).run [.prod, .prod, .closer, .closer, .closer, .closer]
    s.dClosed = true ∧ s.fClosed = true ∧ s.pending = [] := by decide

/-! ### 8. The order of the pinned tree loses the last item -/

/-- With the consumer of `pinned-base` (emptiness test first, step read second), one consumer (what
`fshelper.Copy` configures) and a tree with one file, a schedule exists after which `Wait` can
return with an empty error list although the file is still in the queue and its callback never ran:
the statement of `exactly_once` is false for that order. -/
theorem lost_item_reachable :
    ∃ sched : List Label,
      let s := (sys oldParams oneFile 1).run sched
      waitEnabled s ∧ s.errors = [] ∧ s.qf = ["./a"] ∧ ¬ s.done.Perm (sends oneFile) := by
  refine ⟨lostSchedule, ?_⟩
  have h := lost_item_state
  refine ⟨h.1, h.2.2.2.2.1, h.2.2.1, ?_⟩
  rw [h.2.2.2.1]
  intro hp
  have := hp.length_eq
  simp [oneFile, sends] at this

/-- `oneFile` is a producer run: the walk of the tree `./a` with no filters -/
example : Interleave (producerSeqs { fileFilter := none, dirFilter := none, onFile := true, onDir := true }
    (fun _ => false) "./" true (.cons "a" .file .nil)) oneFile := interleave_flatten _

end Goat.C08
