/-
Property C08 — `filesystem/fsloop`: the concurrent tree walk visits every selected node exactly
once and then stops.

  "A filespace loop calls the file callback exactly once for every file and the directory callback
   exactly once for every directory that passes the filters (descending only into accepted
   directories), never runs more callbacks at once than the configured consumer count, and waiting
   on the loop returns only after the last callback has returned.  A callback or listing error
   always appears in the loop's error list; with no error nothing is skipped or repeated under any
   scheduling."

Stated over the transition system of `Goat/Model/Loop.lean` (namespace `Goat.Loop`):

  * `rootProg c oracle root l k` = the program of the first producer goroutine walking the tree
    `(l, k)` (root listing succeeds or not, children) under the `LoopData` fields `c` (filters, which
    callbacks are set), where `oracle` decides for every accepted directory whether `pool.Add(1)`
    granted a fresh producer (whose program the `spawn` action carries); the kill tests of
    `processList` are actions of the program;
  * `sys P prog n`: the producers, the two bounded channels, `n` consumers, the closer, the
    lifecycle (strict: `Error` = append, then kill) and the environment.  Schedules are arbitrary
    `List Label`: action of producer `j` / of the closer / of consumer `i`, and the environment acts
    `kill` (scope Kill event), `errEvent` (scope Error event), `timeout` (the lifecycle's deadline)
    **at any position**.  `P` = channel capacities, which callbacks fail, and the order of the two
    reads of the consumer (`fixedOrder = true` is the code after `fix: fsloop consumer reads the
    lifecycle step before testing the queues`).

Every theorem quantifies over all trees, filters, oracles, numbers of consumers, capacities and
schedules (lists of any length, environment acts included).

Vocabulary: `sendsL prog` / `listsL prog` the channel sends / `ReadDir` calls of a program including
the producers it starts; `selected` / `listed` the specification of the walk (plain recursion over
the tree); `waitEnabled s` = the consumer pool's wait-group counter is 0 (`Loop.Wait()` can return);
`errorsOf s` = what `Loop.Errors()` returns (the error list, then the context's error);
`inflight cons` = callbacks being executed; `reporting cons` / `reportingP prods` = failed callbacks /
listings whose `lifecycle.Error(err)` is the very next action of their goroutine; `s.lfailed` = the
`ReadDir` calls that returned an error; `measure s` = a bound on the remaining actions of a killed
loop; `BlockedSend P s pr` = producer `pr` is at a send whose channel is full.
-/
import Goat.Proofs.LoopOld

namespace Goat.C08

open Goat.LTS Goat.Loop

/-! ### 1. Producers -/

/-- Whatever the tree, the filters and the fresh-producer/inline decisions: the items the producer
programs send to the two channels are exactly the selected nodes, each once (equality of
multisets). -/
theorem producers_enqueue_once (c : WalkCfg) (oracle : Path → Bool) (root : Path) (l : Bool) (k : Kids) :
    (sendsL (rootProg c oracle root l k)).Perm (selected c root l k) :=
  rootProg_sends_perm c oracle root l k

/-- Descends only into accepted directories: the directories handed to `ReadDir` are the root and
the accepted directories below listable listed ones, each once, with the listing's outcome. -/
theorem producers_list_accepted_once (c : WalkCfg) (oracle : Path → Bool) (root : Path) (l : Bool) (k : Kids) :
    (listsL (rootProg c oracle root l k)).Perm (listed c root l k) :=
  rootProg_lists_perm c oracle root l k

/-- a tree: `./a` (file), `./d/` accepted with `./d/x`, `./e/` rejected with `./e/y` -/
def exTree : Kids :=
  .cons "a" .file (.cons "d" (.dir true (.cons "x" .file .nil)) (.cons "e" (.dir true (.cons "y" .file .nil)) .nil))
def exCfg : WalkCfg :=
  { fileFilter := none, dirFilter := some (fun p => p != "./e"), onFile := true, onDir := true }

example : selected exCfg "./" true exTree = [(false, "./a"), (true, "./d"), (false, "./d/x")] := by decide
example : sendsL (rootProg exCfg (fun _ => true) "./" true exTree) = [(false, "./a"), (true, "./d"), (false, "./d/x")] := by
  decide
example : listed exCfg "./" true exTree = [("./", true), ("./d", true)] := by decide

/-! ### 2. The invariant of the repaired protocol -/

/-- `Inv` (see `Goat/Proofs/LoopInv.lean`): the closer's position determines the announcement and
leaves `waiting` only when the producer pool is empty; both pool counters count the goroutines that
have not signed off; a consumer that read "closed" really saw the announcement, and after it also
saw `dirChan` empty, `dirChan` stays empty; a consumer that left its loop did so after a kill or
with the announcement made and both queues empty; items are conserved (`to be sent ⊎ queues ⊎ in
callbacks ⊎ done ⊎ skipped-after-kill = all sends`); failing listings and failing callbacks are
conserved (`executed`, `reported or about to be reported`); an entry in the error list means the
context is cancelled; queues respect their capacities.  It holds after every schedule — kills,
error events and the deadline at any position — for every number of consumers and all capacities. -/
theorem loop_inv (P : Params) (hP : P.fixedOrder = true) (prog : List PAct) (n : Nat) (sched : List Label) :
    Inv P prog n ((sys P prog n).run sched) :=
  inv_reachable hP prog n _ (run_reachable _ sched)

example : newParams.fixedOrder = true := rfl
example : Inv newParams oneFile 3 ((sys newParams oneFile 3).run [.prod 0, .cons 2, .kill, .prod 0, .cons 0, .closer]) :=
  loop_inv newParams rfl oneFile 3 _

/-! ### 3. Exactly once -/

/-- When `Wait` can return and `Errors()` is empty, the callbacks that have returned are exactly the
selected nodes, each once — for every tree, filters, fresh-producer/inline decisions, number
`n ≥ 1` of consumers, capacities and schedule. -/
theorem exactly_once (c : WalkCfg) (oracle : Path → Bool) (root : Path) (l : Bool) (k : Kids)
    (P : Params) (hP : P.fixedOrder = true) (n : Nat) (hn : 0 < n) (sched : List Label) :
    let s := (sys P (rootProg c oracle root l k) n).run sched
    waitEnabled s → errorsOf s = [] → s.done.Perm (selected c root l k) := by
  intro s hw he
  exact (done_perm_of_wait (loop_inv P hP _ n sched) hn hw he).trans
    (producers_enqueue_once c oracle root l k)

/-- Nothing is ever repeated, errors or not: at every moment the finished and the running callbacks
on a node together do not exceed the node's multiplicity among the selected nodes. -/
theorem never_repeated (c : WalkCfg) (oracle : Path → Bool) (root : Path) (l : Bool) (k : Kids)
    (P : Params) (hP : P.fixedOrder = true) (n : Nat) (sched : List Label) (x : Item) :
    let s := (sys P (rootProg c oracle root l k) n).run sched
    s.done.count x + (inflight s.cons).count x ≤ (selected c root l k).count x := by
  intro s
  have h1 : s.done.count x + (inflight s.cons).count x ≤ (sendsL (rootProg c oracle root l k)).count x :=
    done_count_le (loop_inv P hP _ n sched) x
  have h2 := (producers_enqueue_once c oracle root l k).count_eq x
  omega

/-- With or without kills, error events and timeouts: when the selected nodes are pairwise distinct
(a tree without duplicate names), the callbacks that have returned and the ones that are running are
pairwise distinct — no node is delivered twice. -/
theorem never_repeated_always (c : WalkCfg) (oracle : Path → Bool) (root : Path) (l : Bool) (k : Kids)
    (P : Params) (hP : P.fixedOrder = true) (n : Nat) (sched : List Label)
    (hnd : (selected c root l k).Nodup) :
    let s := (sys P (rootProg c oracle root l k) n).run sched
    (s.done ++ inflight s.cons).Nodup :=
  nodup_done_inflight (loop_inv P hP _ n sched)
    ((producers_enqueue_once c oracle root l k).nodup_iff.mpr hnd)

/-- a complete run on one file with one consumer: `Wait` can return, no error, the callback ran -/
def exRun : St :=
  (sys newParams oneFile 1).run ([.prod 0, .prod 0, .prod 0, .prod 0, .closer, .closer] ++ List.replicate 13 (.cons 0))
example : waitEnabled exRun ∧ errorsOf exRun = [] ∧ exRun.done = [(false, "./a")] := by decide

example : (selected exCfg "./" true exTree).count (false, "./a") = 1 := by decide
example : (selected exCfg "./" true exTree).Nodup := by decide

/-! ### 4. `Wait` returns after the last callback -/

/-- When `Wait` can return no callback is running, and whatever happens afterwards no callback
starts or finishes any more. -/
theorem wait_after_last_callback (P : Params) (hP : P.fixedOrder = true) (prog : List PAct) (n : Nat)
    (sched : List Label) :
    let s := (sys P prog n).run sched
    waitEnabled s → inflight s.cons = [] ∧
      ∀ more : List Label, inflight ((sys P prog n).runFrom s more).cons = [] ∧
        ((sys P prog n).runFrom s more).done = s.done := by
  intro s hw
  have hall := allExited_of_wait (loop_inv P hP prog n sched) hw
  refine ⟨inflight_allExited _ hall, fun more => ?_⟩
  have := allExited_runFrom (P := P) (prog := prog) (n := n) hall more
  exact ⟨inflight_allExited _ this.1, this.2⟩

/-- Also after a kill, an error event or the deadline: `Wait` can return exactly when every consumer
goroutine has signed off; then no consumer is inside a callback and none is about to report a
callback's error (a callback that was running when the lifecycle was killed has returned and its
result has been handled). -/
theorem wait_after_last_callback_always (P : Params) (hP : P.fixedOrder = true) (prog : List PAct) (n : Nat)
    (sched : List Label) :
    let s := (sys P prog n).run sched
    (waitEnabled s ↔ AllExited s) ∧
      (waitEnabled s → inflight s.cons = [] ∧ reporting s.cons = []) := by
  intro s
  have hI := loop_inv P hP prog n sched
  refine ⟨⟨allExited_of_wait hI, wait_of_allExited hI⟩, fun hw => ?_⟩
  have hall := allExited_of_wait hI hw
  exact ⟨inflight_allExited _ hall, reporting_allExited _ hall⟩

/-- After `Wait` has returned, whatever the schedule and the environment do, no callback starts, none
finishes, and `Wait` stays enabled. -/
theorem no_callback_after_wait (P : Params) (hP : P.fixedOrder = true) (prog : List PAct) (n : Nat)
    (sched more : List Label) :
    let s := (sys P prog n).run sched
    let t := (sys P prog n).runFrom s more
    waitEnabled s → inflight t.cons = [] ∧ t.done = s.done ∧ waitEnabled t := by
  intro s t hw
  have hall := allExited_of_wait (loop_inv P hP prog n sched) hw
  have h := allExited_runFrom (P := P) (prog := prog) (n := n) hall more
  have hIt : Inv P prog n t := inv_reachable hP prog n _ (runFrom_reachable _ (run_reachable _ sched) more)
  exact ⟨inflight_allExited _ h.1, h.2, wait_of_allExited hIt h.1⟩

example : waitEnabled exRun ∧ inflight exRun.cons = [] := by decide

/-- a run in which the lifecycle is killed from outside while the callback is running: `Wait` is not
enabled until the callback has returned and the consumer has signed off -/
def exKillRun (k : Nat) : St :=
  (sys newParams oneFile 1).run ([.prod 0, .prod 0] ++ List.replicate 7 (.cons 0) ++ [.kill] ++ List.replicate k (.cons 0))
example : inflight (exKillRun 0).cons = [(false, "./a")] ∧ (exKillRun 0).killed = true ∧ ¬ waitEnabled (exKillRun 0) := by
  decide
example : waitEnabled (exKillRun 3) ∧ (exKillRun 3).done = [(false, "./a")] ∧ errorsOf (exKillRun 3) = [.canceled] := by
  decide

/-! ### 5. Bounded concurrency -/

/-- The number of callbacks running at once never exceeds the number of consumer goroutines, which
is what `Loop.Run` computes from `LoopData.Consumers` with `Pool.Add`'s arithmetic: at most
`workers.MaxJob`, at most the configured count when one is configured, equal to it when it lies
between 1 and `workers.MaxJob`. -/
theorem bounded_callbacks (P : Params) (hP : P.fixedOrder = true) (prog : List PAct)
    (configured maxJob : Nat) (sched : List Label) :
    let n := consumerCount configured maxJob
    let s := (sys P prog n).run sched
    (inflight s.cons).length ≤ n ∧ n ≤ maxJob ∧ (configured ≠ 0 → n ≤ configured) ∧
      (1 ≤ configured → configured ≤ maxJob → n = configured) ∧ (0 < maxJob → 0 < n) := by
  intro n s
  refine ⟨inflight_length_le (loop_inv P hP prog n sched), consumerCount_le _ _, ?_,
    consumerCount_eq _ _, consumerCount_pos _ _⟩
  intro h
  show consumerCount configured maxJob ≤ configured
  simp only [consumerCount, poolAdd]
  split <;> omega

/-- With or without kills: the callbacks that are running plus the consumers that have left their
loop never exceed the number of consumer goroutines (a consumer runs one callback at a time, and a
consumer that has left never runs one again). -/
theorem bounded_callbacks_always (P : Params) (hP : P.fixedOrder = true) (prog : List PAct) (n : Nat)
    (sched : List Label) :
    let s := (sys P prog n).run sched
    (inflight s.cons).length + s.cons.countP (fun pc => pc == .exiting || pc == .exited) ≤ n :=
  inflight_exited_le (loop_inv P hP prog n sched)

example : consumerCount 3 16 = 3 ∧ consumerCount 0 16 = 16 ∧ consumerCount 40 16 = 16 := by decide

/-! ### 6. Errors are recorded -/

/-- (a) Every callback that returned an error is in the error list or its consumer's very next
action is to put it there; (b) every failing listing has been executed, or has not been executed
yet, or was skipped because the producer returned early, and every executed one is in the error list
or its producer's very next action is to put it there; (c) when `Wait` can return every failed
callback is in the error list; (d) an empty `Errors()` means nothing was killed and no producer
action was skipped. -/
theorem errors_recorded (P : Params) (hP : P.fixedOrder = true) (prog : List PAct) (n : Nat)
    (sched : List Label) :
    let s := (sys P prog n).run sched
    (∀ d x, s.errors.count (.cb d x) + (reporting s.cons).count (.cb d x)
        = if P.failCb d x then s.done.count (d, x) else 0)
    ∧ (∀ p, s.lfailed.count p + lsum (lpendC p) s.prods + (listsL s.dropped).count (p, false)
          = (listsL prog).count (p, false)
        ∧ s.errors.count (.listing p) + (reportingP s.prods).count p = s.lfailed.count p)
    ∧ (waitEnabled s → ∀ d x, (d, x) ∈ s.done → P.failCb d x = true → Err.cb d x ∈ s.errors)
    ∧ (errorsOf s = [] → s.killed = false ∧ s.dropped = []) := by
  intro s
  have hI := loop_inv P hP prog n sched
  have ha : ∀ d x, s.errors.count (.cb d x) + (reporting s.cons).count (.cb d x)
      = if P.failCb d x then s.done.count (d, x) else 0 := by
    intro d x
    rw [count_reporting (d, x)]
    exact hI.cbfail (d, x)
  refine ⟨ha, fun p => ⟨hI.lfail p, by rw [count_reportingP]; exact hI.lrep p⟩, ?_, ?_⟩
  · intro hw d x hx hf
    have h := ha d x
    rw [reporting_allExited _ (allExited_of_wait hI hw), hf] at h
    have hpos : 0 < s.done.count (d, x) := List.count_pos_iff.mpr hx
    apply List.count_pos_iff.mp
    simp at h
    omega
  · intro he
    have hk := (errorsOf_nil.mp he).2
    exact ⟨hk, hI.dropped hk⟩

/-- Whatever killed the lifecycle and whenever: when `Wait` can return, (a) the error of every
callback that returned one is in `Errors()` — including a callback that was still running when
something else killed the lifecycle; (b) every `ReadDir` that returned an error — in `Producer.Loop`
or in the inline descent of `processDir` — is in `Errors()`, or the `lifecycle.Error(err)` call is
the very next action of its producer, which is then still running although the lifecycle is killed
(so `Errors()` is not empty); (c) once every producer has signed off every failed listing is in
`Errors()`. -/
theorem every_error_recorded_always (P : Params) (hP : P.fixedOrder = true) (prog : List PAct) (n : Nat)
    (hn : 0 < n) (sched : List Label) :
    let s := (sys P prog n).run sched
    waitEnabled s →
      (∀ d x, (d, x) ∈ s.done → P.failCb d x = true → Err.cb d x ∈ errorsOf s)
      ∧ (∀ p, p ∈ s.lfailed → Err.listing p ∈ errorsOf s ∨
          (p ∈ reportingP s.prods ∧ s.killed = true ∧ s.ppool ≠ 0 ∧ errorsOf s ≠ []))
      ∧ (s.ppool = 0 → ∀ p, p ∈ s.lfailed → Err.listing p ∈ errorsOf s) := by
  intro s hw
  have hI := loop_inv P hP prog n sched
  have hrec := (errors_recorded P hP prog n sched).2.2.1 hw
  have hl : ∀ p, p ∈ s.lfailed → Err.listing p ∈ errorsOf s ∨ (p ∈ reportingP s.prods ∧ s.ppool ≠ 0) := by
    intro p hp
    rcases listing_recorded_or_reporting hI p hp with h | h
    · exact Or.inl (List.mem_append_left _ h)
    · exact Or.inr ⟨h, ppool_of_reporting hI p h⟩
  refine ⟨fun d x hx hf => List.mem_append_left _ (hrec d x hx hf), ?_, ?_⟩
  · intro p hp
    rcases hl p hp with h | ⟨h1, h2⟩
    · exact Or.inl h
    · -- a producer is still running although every consumer has left: only after a kill
      have hk : s.killed = true := by
        cases hk : s.killed
        · exfalso
          obtain ⟨pc, hpc⟩ := exists_cons hI hn
          exact h2 (drained_of_exit hI hk hpc (Or.inr (allExited_of_wait hI hw pc hpc))).1
        · rfl
      exact Or.inr ⟨h1, hk, h2, fun he => by rw [(errorsOf_nil.mp he).2] at hk; cases hk⟩
  · intro h0 p hp
    rcases hl p hp with h | ⟨_, h2⟩
    · exact h
    · exact absurd h0 h2

/-- If the walk ended early — `Wait` can return although some selected node was not delivered, or
delivered nodes and selected nodes differ in any way — then `Errors()` is not empty: nothing is
skipped silently, whether the cause is a callback error, a listing error, a scope Kill or Error
event or the deadline.  Also: a killed lifecycle always shows in `Errors()`. -/
theorem killed_implies_error_nonempty (c : WalkCfg) (oracle : Path → Bool) (root : Path) (l : Bool) (k : Kids)
    (P : Params) (hP : P.fixedOrder = true) (n : Nat) (hn : 0 < n) (sched : List Label) :
    let s := (sys P (rootProg c oracle root l k) n).run sched
    (waitEnabled s → ¬ s.done.Perm (selected c root l k) → errorsOf s ≠ [])
    ∧ (s.killed = true → errorsOf s ≠ [])
    ∧ (s.dropped ≠ [] → errorsOf s ≠ []) := by
  intro s
  have hI := loop_inv P hP (rootProg c oracle root l k) n sched
  refine ⟨fun hw hnp he => hnp (exactly_once c oracle root l k P hP n hn sched hw he), ?_, ?_⟩
  · intro hk he
    rw [(errorsOf_nil.mp he).2] at hk; cases hk
  · intro hd he
    exact hd (hI.dropped (errorsOf_nil.mp he).2)

/-- a failing callback: the run ends with the failure in the error list -/
def exFailRun : St :=
  (sys { newParams with failCb := fun _ p => p == "./a" } oneFile 1).run
    ([.prod 0, .prod 0] ++ List.replicate 12 (.cons 0))
example : waitEnabled exFailRun ∧ errorsOf exFailRun = [.cb false "./a", .canceled] ∧ exFailRun.killed = true := by
  decide

/-- the callback on `./a` is running when the deadline passes; it returns an error afterwards: the
error is recorded -/
def exLateFail : St :=
  (sys { newParams with failCb := fun _ p => p == "./a" } oneFile 1).run
    ([.prod 0, .prod 0] ++ List.replicate 7 (.cons 0) ++ [.timeout] ++ List.replicate 5 (.cons 0))
example : waitEnabled exLateFail ∧ errorsOf exLateFail = [.cb false "./a", .deadline] := by decide

/-- a killed walk that ended early: the file was never delivered, `Errors()` says why -/
def exEarly : St := (sys newParams oneFile 1).run ([.errEvent] ++ List.replicate 3 (.cons 0) ++ List.replicate 4 (.prod 0))
example : waitEnabled exEarly ∧ exEarly.done = [] ∧ errorsOf exEarly = [.canceled] := by decide

/-- a failing listing in the inline descent (`x` cannot be listed): recorded -/
def exListFail : St :=
  (sys newParams (rootProg plainCfg (fun _ => false) "./" true (.cons "x" (.dir false .nil) .nil)) 1).run
    (List.replicate 6 (.prod 0))
example : exListFail.lfailed = ["./x"] ∧ errorsOf exListFail = [.listing "./x", .canceled] := by decide

/-! ### 7. Progress, and no send on a closed channel -/

/-- Without a kill and with at least one consumer, some goroutine of the loop can move until every
consumer has signed off and the closer has closed both channels (no deadlock; in particular a
producer blocked on a full channel is never left behind: as long as a producer has not signed off,
no consumer has left its loop). -/
theorem no_stuck_without_kill (P : Params) (hP : P.fixedOrder = true) (prog : List PAct) (n : Nat)
    (hn : 0 < n) (sched : List Label) :
    let s := (sys P prog n).run sched
    s.killed = false →
      (¬ (AllExited s ∧ s.closer = .fin) → ∃ l t, l.isProg = true ∧ (sys P prog n).step s l = some t)
      ∧ (s.ppool ≠ 0 → ∀ pc ∈ s.cons, pc ≠ .exiting ∧ pc ≠ .exited) := by
  intro s hk
  have hI := loop_inv P hP prog n sched
  exact ⟨fun hnf => progress hI hn hk hnf, fun hp => consumer_remains hI hk hp⟩

/-- a state in the middle of a run: not killed, the consumer still in its loop, the closer not done -/
example :
    let s := (sys newParams oneFile 1).run [.prod 0, .cons 0, .cons 0]
    s.killed = false ∧ ¬ (AllExited s ∧ s.closer = .fin) ∧ s.ppool ≠ 0 := by
  refine ⟨by decide, ?_, by decide⟩
  intro h
  have : (.fin : CPC) = .waiting := h.2.symm.trans (by decide)
  cases this

/-- The closer closes the channels only when every producer has signed off. -/
theorem no_send_on_closed_channel (P : Params) (hP : P.fixedOrder = true) (prog : List PAct) (n : Nat)
    (sched : List Label) :
    let s := (sys P prog n).run sched
    (s.dClosed = true ∨ s.fClosed = true) → s.ppool = 0 ∧ ∀ pr ∈ s.prods, pr = Prod.gone := by
  intro s h
  have hI := loop_inv P hP prog n sched
  have h0 := closed_ppool hI.closer (chClosed_closed hI.closer h)
  exact ⟨h0, gone_of_ppool hI h0⟩

/-- a run in which both channels have been closed -/
example :
    let s := (sys newParams oneFile 1).run [.prod 0, .prod 0, .prod 0, .prod 0, .closer, .closer, .closer, .closer]
    s.dClosed = true ∧ s.fClosed = true ∧ s.ppool = 0 := by decide

/-! ### 8. After a kill -/

/-- After the lifecycle has been killed (callback or listing error, scope Kill / Error event,
deadline), for every continuation of the schedule:
(a) the goroutines of the loop execute at most `measure s` more actions — there is no infinite run;
(b) a consumer leaves its loop and signs off within 13 of its own actions (a callback that is
    running returns, its result is handled, at most one more callback is started by a consumer
    that was between its queue test and its receive); when every consumer has had them, `Wait` can
    return;
(c) a state in which no goroutine of the loop can move is of this shape: every consumer has signed
    off; every producer has signed off or is blocked in a send on a full channel; and if every
    producer has signed off the closer has closed both channels.  Hence the only way for a producer
    (and the closer with it) not to finish is a full channel with no consumer left — which is
    reachable, see `producer_stuck_after_kill_reachable`;
(d) when the channel capacities cover everything the program sends (as many directory items as
    `capD`, file items as `capF`: the walk selects at most 1000 of each in the code), no producer is
    ever blocked and such a state is the regular end: all consumers, all producers and the closer
    have finished. -/
theorem terminates_after_kill (P : Params) (hP : P.fixedOrder = true) (prog : List PAct) (n : Nat)
    (sched : List Label) :
    let S := sys P prog n
    let s := S.run sched
    s.killed = true →
      (∀ more, (S.firedFrom s more).countP (fun p => p.2.isProg) ≤ measure s)
      ∧ (∀ more, (∀ i, i < n → 13 ≤ more.count (.cons i)) → waitEnabled (S.runFrom s more))
      ∧ ((∀ l, l.isProg = true → S.step s l = none) →
          AllExited s ∧ (∀ (j : Nat) (pr : Prod), s.prods[j]? = some pr → pr = .gone ∨ BlockedSend P s pr)
            ∧ (s.ppool = 0 → s.closer = .fin))
      ∧ ((sendsL prog).countP (fun x => x.1) ≤ P.capD → (sendsL prog).countP (fun x => !x.1) ≤ P.capF →
          (∀ l, l.isProg = true → S.step s l = none) →
          AllExited s ∧ (∀ pr ∈ s.prods, pr = Prod.gone) ∧ s.closer = .fin) := by
  intro S s hk
  have hI := loop_inv P hP prog n sched
  exact ⟨fun more => fired_prog_bound hP s hk more,
    fun more hm => wait_after_kill hP s (run_reachable _ sched) hk more hm,
    fun hst => stuck_shape hI hst,
    fun hD hF hst => terminal_of_capacity hI hD hF hst⟩

/-- a killed run: the measure bounds what is left; 13 turns of the consumer make `Wait` return -/
example : (exKillRun 0).killed = true ∧ measure (exKillRun 0) = 10 := by decide
example : waitEnabled ((sys newParams oneFile 1).runFrom (exKillRun 0) (List.replicate 13 (.cons 0))) := by decide
example : (sendsL oneFile).countP (fun x => x.1) ≤ newParams.capD ∧ (sendsL oneFile).countP (fun x => !x.1) ≤ newParams.capF := by
  decide

/-- FINDING (goroutine leak after a kill).  With channel capacity 1, one consumer and three files of
which the first one's callback fails, a schedule exists after which `Wait` can return (the consumer
saw the kill at the top of its loop and left), `Errors()` holds the callback's error, and the
producer is blocked in `fileChan <- "./c"` on a full channel; whatever happens afterwards it stays
blocked, the producer pool never empties and the completion goroutine never leaves
`producerPool.Wait()`: two goroutines and the queued items are never released.  (`Wait` itself is
not affected.)  In the code the capacity is `ChanSize = 1000`: the same needs more than 1001
selected files or directories. -/
theorem producer_stuck_after_kill_reachable :
    ∃ sched : List Label,
      let S := sys tinyParams threeFiles 1
      let s := S.run sched
      waitEnabled s ∧ s.killed = true ∧ errorsOf s = [.cb false "./a", .canceled] ∧
      ∀ more : List Label,
        let t := S.runFrom s more
        (∃ pr, t.prods[0]? = some pr ∧ BlockedSend tinyParams t pr) ∧ t.ppool ≠ 0 ∧ t.closer = .waiting := by
  refine ⟨stuckSchedule, ?_⟩
  have h := stuck_state
  exact ⟨h.1, h.2.2.1, h.2.2.2.2.2.1, fun more => stuck_forever more⟩

/-- `threeFiles` is a producer program: the walk of the tree `./a ./b ./c` with no filters -/
example : rootProg plainCfg (fun _ => false) "./" true
    (.cons "a" .file (.cons "b" .file (.cons "c" .file .nil))) = threeFiles := threeFiles_eq

/-! ### 9. The order of the pinned tree loses the last item -/

/-- With the consumer of `pinned-base` (emptiness test first, step read second), one consumer (what
`fshelper.Copy` configures) and a tree with one file, a schedule exists after which `Wait` can
return with an empty `Errors()` although the file is still in the queue and its callback never ran:
the statement of `exactly_once` is false for that order. -/
theorem lost_item_reachable :
    ∃ sched : List Label,
      let s := (sys oldParams oneFile 1).run sched
      waitEnabled s ∧ errorsOf s = [] ∧ s.qf = ["./a"] ∧ ¬ s.done.Perm (sendsL oneFile) := by
  refine ⟨lostSchedule, ?_⟩
  have h := lost_item_state
  refine ⟨h.1, h.2.2.2.2.1, h.2.2.1, ?_⟩
  rw [h.2.2.2.1]
  intro hp
  have := hp.length_eq
  simp [oneFile] at this

/-- `oneFile` is a producer program: the walk of the tree `./a` with no filters -/
example : rootProg plainCfg (fun _ => false) "./" true (.cons "a" .file .nil) = oneFile := oneFile_eq

end Goat.C08
