/-
Property C09 — the in-memory filespace stays consistent under concurrent use.

The theorems are about the LOCK-GRANULAR model `Goat/Model/MemFSConc.lean`: a heap of `Dir`/`File`
objects, one atomic action per critical section of the Go code, any number of threads running any
programs, scheduled by an arbitrary `List Tid` (`(sys v progs).run sched`).  `Variant.fixed` is the lock
order of the repaired code; the three flags re-create the lock orders of the code before the commits
9a06d6d (`Writer`), c2706af (`WriteFile`) and a4ab55a (`copyDir`).

PARTIAL (DESIGN 3, C09): that the Go critical sections really are atomic (Go memory model; nothing
outside the modelled sections races) is an assumption supported by the lock facts and the `-race`
stress of the check, not a theorem.
-/
import Goat.Proofs.MemFSConcDeadlock
import Goat.Proofs.MemFSConcCommute
import Goat.Proofs.MemFSConcFile

namespace Goat.C09
open Goat.MemFSConc Goat.LTS

/-! ## dir_inv -/

/-- Every critical section keeps every directory object consistent (names unique, `index` = `nodes`);
the only side condition is the one of `NewDir(nodes)`: the given node list has unique names. -/
theorem dir_inv_action {h h' : Heap} {t : Tid} {a : Act} {r : Ret} (hi : HeapInv h) (hok : ActOK a)
    (hs : applyAct h t a = some (h', r)) : HeapInv h' :=
  applyAct_heapInv hi hok hs

/-- …hence in every interleaving, for any number of threads running any programs, in every lock-order
variant: every directory object of every reachable heap is consistent. -/
theorem dir_inv (v : Variant) (progs : List (List Op)) (sched : List Tid) :
    HeapInv ((sys v progs).run sched).heap :=
  (inv_reachable v progs (run_reachable (sys v progs) sched)).heap

-- a run with three threads creating, copying and removing in the root; the root ends with 3 nodes
set_option maxRecDepth 8000 in
example : (getDir ((sys .fixed [[.writeFile ["a"] [1], .copy ["a"] ["c"]], [.mkdirAll ["b", "x"]],
      [.writeFile ["a"] [2], .remove ["zz"]]]).run
      ([0,1,2,0,1,2,0,1,2,0,1,2,0,1,2,0,1,2,0,1,2,0,0,0,0,0,0,0,0,0,0,2,2,2,2])).heap 0).map (·.nodes.length)
    = some 3 := by decide

/-! ## create_once -/

/-- Any sequence of critical sections on one directory (that is: the actions of any number of threads
in any interleaving) that starts without the name `n`, never removes `n` and contains at least one
creating call for `n`: exactly one call made the node (`winners = 1`), afterwards the directory
contains `n` exactly once, no call before the winner touched `n`, and every creating call after the
winner answered with the winner's node (`mkdir`) or with an error (`addNode`). -/
theorem create_once {n : Name} (tr : List DAct) {d : DirObj} (hinv : DirInv d)
    (hnew : d.index n = none) (hno : ∀ a ∈ tr, a.removes n = false)
    (hany : tr.any (DAct.creates n) = true) :
    winners n tr (d.runTrace tr).2 = 1 ∧ countName (d.runTrace tr).1 n = 1 ∧
    ∃ o, (d.runTrace tr).1.index n = some o ∧
      ∃ pre post rpre rpost a, tr = pre ++ a :: post ∧ (d.runTrace tr).2 = rpre ++ DRet.created o :: rpost
        ∧ rpre.length = pre.length ∧ a.creates n = true
        ∧ (∀ b ∈ pre, b.creates n = false) ∧ AllLosers n o post rpost :=
  create_once_trace tr hinv hnew hno hany

-- two `mkdir x` and one `addNode x` race (with unrelated actions around them): one winner
example : ((({} : DirObj).runTrace [.lookup "x", .mkdir "x" 5, .add "y" 6, .add "x" 7, .mkdir "x" 9, .remove "y"]).2
    = [.found none, .created 5, .created 6, .refused, .existing 5, .removed]) := by decide

/-- the same at the level of the thread system: two threads racing `MkdirAll("x")` through the gap
between the optimistic lookup and the locked re-check (schedule 0,0,1,1 parks both in the gap) end
with one node and both succeed -/
example : let s := (sys .fixed [[.mkdirAll ["x"]], [.mkdirAll ["x"]]]).run [0,0,1,1,0,1,0,1,0,1]
    ((getDir s.heap 0).map (·.nodes.length) = some 1 ∧ s.log.map (·.2) = [.ok, .ok]) := by decide

/-! ## file_values -/

/-- A file that no stream handle holds contains a complete value: its initial value, a value passed to
`setData`, or the content at the moment a handle was closed — in every interleaving. -/
theorem file_values (v : Variant) (progs : List (List Op)) (sched : List Tid) :
    FilesInv ((sys v progs).run sched).heap :=
  (inv_reachable v progs (run_reachable (sys v progs) sched)).files

/-- A reader never observes a state between a handle's open and its Close: whenever `ReadFile`'s
critical section returns data, the file was not held by a handle and the data is one of its complete
values. -/
theorem file_values_read (v : Variant) (progs : List (List Op)) (sched : List Tid) (t : Tid)
    {th th' : Thread} {f : Oid} {x : Data} {s' : State}
    (hth : ((sys v progs).run sched).threads[t]? = some th) (hpc : th.pc = .rData f)
    (hs : step v ((sys v progs).run sched) t = some s')
    (hth' : s'.threads[t]? = some th') (hres : th'.pc = .fin (.data x)) :
    ∃ ff, getFile ((sys v progs).run sched).heap f = some ff ∧ ff.lock = none ∧ x ∈ ff.committed :=
  read_complete_step (inv_reachable v progs (run_reachable (sys v progs) sched)) hth hpc hs hth' hres

/-- Along every continuation of every run the successive states of one file object are linked by the
changes of `FileChange` (`setData`, open, `hwrite`, Close) — nothing else ever modifies a file. -/
theorem file_values_history (v : Variant) (progs : List (List Op)) (sched sched' : List Tid) (o : Oid)
    {f : FileObj} (hg : getFile ((sys v progs).run sched).heap o = some f) :
    ∃ f' run, getFile ((sys v progs).runFrom ((sys v progs).run sched) sched').heap o = some f' ∧
      FileRun f run f' :=
  file_history_from sched' hg

/-- …and while thread `t` holds a handle on the file, such a chain up to the first Close consists of
`t`'s own acts only, and the value that Close commits is the content at open (empty for a `Writer`,
`open_change`) followed by `t`'s chunks in order: a complete written value, never a mixture. -/
theorem file_values_writer {t : Tid} {f f' : FileObj} {run : List (Tid × Act × Oid)} {last : Tid × Act × Oid}
    (hl : f.lock = some t) (hr : FileRun f (run ++ [last]) f')
    (hno : ∀ s ∈ run, isClose s.2.1 = false) (hlast : isClose last.2.1 = true) :
    (∀ s ∈ run ++ [last], s.1 = t) ∧ f'.lock = none ∧
      f'.committed = f.committed ++ [f.data ++ chunksOf run] ∧ f'.data = f.data ++ chunksOf run :=
  held_run_commits hl hr hno hlast

-- a held file, two chunks, Close: the hypotheses of file_values_writer are satisfiable
example : FileRun { data := [], lock := some 3, committed := [[9]] }
    ([(3, .hwrite 5 [1], 5), (3, .hwrite 5 [2], 5)] ++ [(3, .closeH 5 true, 5)])
    { data := [1, 2], lock := none, committed := [[9], [1, 2]] } :=
  .cons (f1 := { data := [1], lock := some 3, committed := [[9]] }) (by simp [FileChange])
    (.cons (f1 := { data := [1, 2], lock := some 3, committed := [[9]] }) (by simp [FileChange])
      (.cons (by simp [FileChange]) (.nil _)))

-- a writer streams "ab" in two chunks while a reader polls: the reader sees the old or the new value,
-- never the truncated or half-written one (here: blocked until Close, then the new value)
set_option maxRecDepth 8000 in
example : let s := (sys .fixed [[.writeFile ["f"] [9], .openW 1 ["f"], .hwrite 1 [1], .hwrite 1 [2], .close 1],
      [.readFile ["f"]]]).run (List.replicate 18 0 ++ [1,1,1,1] ++ List.replicate 12 0 ++ [1,1,1])
    resultsOf s 1 = [.data [1, 2]] := by decide

/-! ## no_deadlock -/

/-- The repaired lock order has no deadlock: in every reachable state in which some thread still has
work to do, some thread can take a step — provided the discipline holds in that state: a thread that
requests a file's data lock holds only handles on files with a smaller object id (`Ordered`; "a thread
holding a handle closes it before opening another on the same file" is the part `g ≠ f` of it), and
finished threads have closed their handles (`NoLeak`). -/
theorem no_deadlock (progs : List (List Op)) (sched : List Tid)
    (hord : Ordered .fixed ((sys .fixed progs).run sched)) (hleak : NoLeak ((sys .fixed progs).run sched))
    (hun : ∃ t, unfinished ((sys .fixed progs).run sched) t = true) :
    ∃ t, (step .fixed ((sys .fixed progs).run sched) t).isSome = true := by
  obtain ⟨t0, ht0⟩ := hun
  exact no_deadlock_core (linv_reachable .fixed progs (run_reachable (sys .fixed progs) sched)) rfl rfl rfl
    hord hleak ht0

-- the hypotheses are satisfiable in a state where a handle is held and the other thread waits for it
set_option maxRecDepth 8000 in
example : let s := (sys .fixed (wit_progs (.openW 1 ["d", "f"]))).run (List.replicate 9 0 ++ List.replicate 10 1)
    (orderedB .fixed s && noLeakB s && unfinished s 0 && unfinished s 1 && lockedBy s.heap 0 2) = true := by
  decide

set_option maxRecDepth 8000 in
/-- The discipline as literally stated ("closes it before opening another on the same file") is not
enough for any design with exclusive handles: two threads streaming a→b and b→a deadlock although
nobody ever waits for a file he holds himself. -/
theorem no_deadlock_samefile_discipline_false :
    ∃ progs sched, let s := (sys .fixed progs).run sched
      (∀ t, step .fixed s t = none) ∧ (∃ t, unfinished s t = true) ∧ NoLeak s ∧ selfFreeB .fixed s = true := by
  refine ⟨cross_progs, cross_sched, ?_⟩
  have h : (let s := (sys .fixed cross_progs).run cross_sched
      stuckB .fixed s && unfinished s 0 && noLeakB s && selfFreeB .fixed s) = true := by decide
  simp only [Bool.and_eq_true] at h
  exact ⟨stuck_of_stuckB h.1.1.1, ⟨0, h.1.1.2⟩, noLeak_of_noLeakB h.1.2, h.2⟩

/-! ## the old lock orders deadlock (disproofs for the code before the repairs) -/

/-- pre-9a06d6d: `Writer` waits for the file's data lock while holding the directory lock.  Thread 0
holds a writer on d/f and calls `WriteFile("d/g")`, thread 1 opens a writer on d/f: stuck, although the
discipline is respected. -/
theorem writer_under_dirlock_deadlocks :
    ∃ progs sched, Deadlock { writerUnderDir := true } progs sched :=
  ⟨wit_progs (.openW 1 ["d", "f"]), wit_sched, deadlock_of_deadlockB (by decide)⟩

/-- pre-c2706af: `WriteFile` on an existing file calls `setData` while holding the directory lock. -/
theorem writefile_under_dirlock_deadlocks :
    ∃ progs sched, Deadlock { writeFileUnderDir := true } progs sched :=
  ⟨wit_progs (.writeFile ["d", "f"] [2]), wit_sched, deadlock_of_deadlockB (by decide)⟩

/-- pre-a4ab55a: `copyDir` keeps the source directory's `mu.RLock` while it waits for a child file. -/
theorem copydir_holds_mu_deadlocks :
    ∃ progs sched, Deadlock { copyDirHoldsMu := true } progs sched :=
  ⟨wit_progs (.copy ["d"] ["e"]), wit_sched, deadlock_of_deadlockB (by decide)⟩

-- the same three schedules are harmless in the repaired lock order
example : (deadlockB .fixed (wit_progs (.openW 1 ["d", "f"])) wit_sched ||
    deadlockB .fixed (wit_progs (.writeFile ["d", "f"] [2])) wit_sched ||
    deadlockB .fixed (wit_progs (.copy ["d"] ["e"])) wit_sched) = false := by decide

/-! ## distinct_paths_commute -/

/-
Full statement (DESIGN): for every configuration whose operations have pairwise unrelated paths and all
succeed, the tree reachable from the root in the final state of EVERY schedule equals the sequential
application of the operations in any order.

Proved part: the statement for the path-map semantics of the critical sections.  Seen from the root
every heap-mutating critical section is one micro effect (`ensureDir p` = locked part of `mkdir`,
`graft p sub` = `addNode` / `setData` / handle close / `removeNodeByName` at `p`), an operation with
target `p` is `ensureDir` on the proper prefixes of `p` followed by its effect at `p`, and an
interleaving of operations is an interleaving (here even: any permutation) of their micro effects.
Missing: the refinement lemma "in a forest-shaped heap the critical section on the directory object
reached by walking π is the micro effect at π/name" (needs a heap-shape invariant: every object has at
most one parent entry).  The check covers this link on every run instead: the history monitor compares
the final tree of the real filespace with the union of the successful operations.
-/
theorem distinct_paths_commute_partial (ops : List AOp)
    (hun : ops.Pairwise (fun a b => Unrelated a.target b.target))
    (l : List Eff1) (hl : l.Perm (ops.flatMap AOp.effects))
    (ops' : List AOp) (hp : ops'.Perm ops) (T : Tree) :
    runEffs T l = runEffs T (ops'.flatMap AOp.effects) := by
  have hind : (ops.flatMap AOp.effects).Pairwise Indep := indep_all hun
  have h1 : runEffs T l = runEffs T (ops.flatMap AOp.effects) :=
    runEffs_perm hl ((hl.pairwise_iff (fun h => indep_symm h)).2 hind) T
  have h2 : runEffs T (ops.flatMap AOp.effects) = runEffs T (ops'.flatMap AOp.effects) :=
    runEffs_perm (hp.symm.flatMap_right _) hind T
  rw [h1, h2]

-- WriteFile(a/b/x), MkdirAll(a/c), Remove(d) are pairwise unrelated; an interleaving of their effects
example : let ops : List AOp := [⟨["a", "b", "x"], some (fun q => if q = [] then some (.file [1]) else none)⟩,
      ⟨["a", "c"], none⟩, ⟨["d"], some (fun _ => none)⟩]
    ops.Pairwise (fun a b => Unrelated a.target b.target) := by
  simp [Unrelated, List.isPrefixOf]

end Goat.C09
