/-
Property C09 — the in-memory filespace stays consistent under concurrent use.

The theorems are about the LOCK-GRANULAR model `Goat/Model/MemFSConc.lean`: a heap of `Dir`/`File`
objects, one atomic action per critical section of the Go code, any number of threads running any
programs, scheduled by an arbitrary `List Tid` (`(sys v progs).run sched`).  `Variant.fixed` is the lock
order of the repaired code; the three flags re-create the lock orders of the code before the commits
9a06d6d (`Writer`), c2706af (`WriteFile`) and a4ab55a (`copyDir`).

The link to the SEQUENTIAL model of C01 (`Goat.MemFS.step`, `memfs_refines`) is `distinct_paths_commute`:
operations on independent paths, in every interleaving of their critical sections, leave the heap that
represents the tree the sequential model reaches in any order (`concurrent_mkdir_shared_parent`: the
shared-ancestor creation race; `interleaving_refines_some_order_false`: on RELATED paths the operations
are not linearisable).

`dir_lock_holder_inside` / `quiescent_locks_free`: the model carries the lock state (`DirObj.outer`, `muR`,
`FileObj.lock`); a directory's writer lock is held only by a thread inside a critical section on that directory,
so after any schedule in which every thread finished no directory lock is held (and with closed handles no lock
at all).

PARTIAL (DESIGN 3, C09): that the Go critical sections really are atomic (Go memory model; nothing
outside the modelled sections races) is an assumption supported by the lock facts (`Goat/Tie/C09.lean`)
and the `-race` stress of the check, not a theorem.  Stream handles are not among the operations of
`distinct_paths_commute`.
-/
import Goat.Proofs.MemFSConcDeadlock
import Goat.Proofs.MemFSConcCommute
import Goat.Proofs.MemFSConcFile
import Goat.Proofs.MemFSConcFinal
import Goat.Proofs.MemFSConcQuiescent

namespace Goat.C09
open Goat.MemFSConc Goat.LTS

/-! ## dir_inv -/

/-- Every critical section keeps every directory object consistent (names unique, `index` = `nodes`);
the only side condition is the one of `NewDir(nodes)`: the given node list has unique names. -/
theorem dir_inv_action {h h' : Heap} {t : Tid} {a : Act} {r : Ret} (hi : HeapInv h) (hok : ActOK a)
    (hs : applyAct h t a = some (h', r)) : HeapInv h' :=
  applyAct_heapInv hi hok hs

/-- …hence in every interleaving, for any number of threads running any programs, in every lock-order
variant: every directory object of every reachable heap is consistent. -/
theorem dir_inv (v : Variant) (progs : List (List Op)) (sched : List Tid) :
    HeapInv ((sys v progs).run sched).heap :=
  (inv_reachable v progs (run_reachable (sys v progs) sched)).heap

-- a run with three threads creating, copying and removing in the root; the root ends with 3 nodes
set_option maxRecDepth 8000 in
example : (getDir ((sys .fixed [[.writeFile [[97]] [1], .copy [[97]] [[99]]], [.mkdirAll [[98], [120]]],
      [.writeFile [[97]] [2], .remove [[122, 122]]]]).run
      ([0,1,2,0,1,2,0,1,2,0,1,2,0,1,2,0,1,2,0,1,2,0,0,0,0,0,0,0,0,0,0,2,2,2,2])).heap 0).map (·.nodes.length)
    = some 3 := by decide

/-! ## create_once -/

/-- Any sequence of critical sections on one directory (that is: the actions of any number of threads
in any interleaving) that starts without the name `n`, never removes `n` and contains at least one
creating call for `n`: exactly one call made the node (`winners = 1`), afterwards the directory
contains `n` exactly once, no call before the winner touched `n`, and every creating call after the
winner answered with the winner's node (`mkdir`) or with an error (`addNode`). -/
theorem create_once {n : Name} (tr : List DAct) {d : DirObj} (hinv : DirInv d)
    (hnew : d.index n = none) (hno : ∀ a ∈ tr, a.removes n = false)
    (hany : tr.any (DAct.creates n) = true) :
    winners n tr (d.runTrace tr).2 = 1 ∧ countName (d.runTrace tr).1 n = 1 ∧
    ∃ o, (d.runTrace tr).1.index n = some o ∧
      ∃ pre post rpre rpost a, tr = pre ++ a :: post ∧ (d.runTrace tr).2 = rpre ++ DRet.created o :: rpost
        ∧ rpre.length = pre.length ∧ a.creates n = true
        ∧ (∀ b ∈ pre, b.creates n = false) ∧ AllLosers n o post rpost :=
  create_once_trace tr hinv hnew hno hany

-- two `mkdir x` and one `addNode x` race (with unrelated actions around them): one winner
example : ((({} : DirObj).runTrace [.lookup [120], .mkdir [120] 5, .add [121] 6, .add [120] 7, .mkdir [120] 9, .remove [121]]).2
    = [.found none, .created 5, .created 6, .refused, .existing 5, .removed]) := by decide

/-- the same at the level of the thread system: two threads racing `MkdirAll("x")` through the gap
between the optimistic lookup and the locked re-check (schedule 0,0,1,1 parks both in the gap) end
with one node and both succeed -/
example : let s := (sys .fixed [[.mkdirAll [[120]]], [.mkdirAll [[120]]]]).run [0,0,1,1,0,1,0,1,0,1]
    ((getDir s.heap 0).map (·.nodes.length) = some 1 ∧ s.log.map (·.2) = [.ok, .ok]) := by decide

/-! ## file_values -/

/-- A file that no stream handle holds contains a complete value: its initial value, a value passed to
`setData`, or the content at the moment a handle was closed — in every interleaving. -/
theorem file_values (v : Variant) (progs : List (List Op)) (sched : List Tid) :
    FilesInv ((sys v progs).run sched).heap :=
  (inv_reachable v progs (run_reachable (sys v progs) sched)).files

/-- A reader never observes a state between a handle's open and its Close: whenever `ReadFile`'s
critical section returns data, the file was not held by a handle and the data is one of its complete
values. -/
theorem file_values_read (v : Variant) (progs : List (List Op)) (sched : List Tid) (t : Tid)
    {th th' : Thread} {f : Oid} {x : Data} {s' : State}
    (hth : ((sys v progs).run sched).threads[t]? = some th) (hpc : th.pc = .rData f)
    (hs : step v ((sys v progs).run sched) t = some s')
    (hth' : s'.threads[t]? = some th') (hres : th'.pc = .fin (.data x)) :
    ∃ ff, getFile ((sys v progs).run sched).heap f = some ff ∧ ff.lock = none ∧ x ∈ ff.committed :=
  read_complete_step (inv_reachable v progs (run_reachable (sys v progs) sched)) hth hpc hs hth' hres

/-- Along every continuation of every run the successive states of one file object are linked by the
changes of `FileChange` (`setData`, open, `hwrite`, Close) — nothing else ever modifies a file. -/
theorem file_values_history (v : Variant) (progs : List (List Op)) (sched sched' : List Tid) (o : Oid)
    {f : FileObj} (hg : getFile ((sys v progs).run sched).heap o = some f) :
    ∃ f' run, getFile ((sys v progs).runFrom ((sys v progs).run sched) sched').heap o = some f' ∧
      FileRun f run f' :=
  file_history_from sched' hg

/-- …and while thread `t` holds a handle on the file, such a chain up to the first Close consists of
`t`'s own acts only, and the value that Close commits is the content at open (empty for a `Writer`,
`open_change`) followed by `t`'s chunks in order: a complete written value, never a mixture. -/
theorem file_values_writer {t : Tid} {f f' : FileObj} {run : List (Tid × Act × Oid)} {last : Tid × Act × Oid}
    (hl : f.lock = some t) (hr : FileRun f (run ++ [last]) f')
    (hno : ∀ s ∈ run, isClose s.2.1 = false) (hlast : isClose last.2.1 = true) :
    (∀ s ∈ run ++ [last], s.1 = t) ∧ f'.lock = none ∧
      f'.committed = f.committed ++ [f.data ++ chunksOf run] ∧ f'.data = f.data ++ chunksOf run :=
  held_run_commits hl hr hno hlast

-- a held file, two chunks, Close: the hypotheses of file_values_writer are satisfiable
example : FileRun { data := [], lock := some 3, committed := [[9]] }
    ([(3, .hwrite 5 [1], 5), (3, .hwrite 5 [2], 5)] ++ [(3, .closeH 5 true, 5)])
    { data := [1, 2], lock := none, committed := [[9], [1, 2]] } :=
  .cons (f1 := { data := [1], lock := some 3, committed := [[9]] }) (by simp [FileChange])
    (.cons (f1 := { data := [1, 2], lock := some 3, committed := [[9]] }) (by simp [FileChange])
      (.cons (by simp [FileChange]) (.nil _)))

-- a writer streams "ab" in two chunks while a reader polls: the reader sees the old or the new value,
-- never the truncated or half-written one (here: blocked until Close, then the new value)
set_option maxRecDepth 8000 in
example : let s := (sys .fixed [[.writeFile [[102]] [9], .openW 1 [[102]], .hwrite 1 [1], .hwrite 1 [2], .close 1],
      [.readFile [[102]]]]).run (List.replicate 18 0 ++ [1,1,1,1] ++ List.replicate 12 0 ++ [1,1,1])
    resultsOf s 1 = [.data [1, 2]] := by decide

/-! ## no_deadlock -/

/-- The repaired lock order has no deadlock: in every reachable state in which some thread still has
work to do, some thread can take a step — provided the discipline holds in that state: a thread that
requests a file's data lock holds only handles on files with a smaller object id (`Ordered`; "a thread
holding a handle closes it before opening another on the same file" is the part `g ≠ f` of it), and
finished threads have closed their handles (`NoLeak`). -/
theorem no_deadlock (progs : List (List Op)) (sched : List Tid)
    (hord : Ordered .fixed ((sys .fixed progs).run sched)) (hleak : NoLeak ((sys .fixed progs).run sched))
    (hun : ∃ t, unfinished ((sys .fixed progs).run sched) t = true) :
    ∃ t, (step .fixed ((sys .fixed progs).run sched) t).isSome = true := by
  obtain ⟨t0, ht0⟩ := hun
  exact no_deadlock_core (linv_reachable .fixed progs (run_reachable (sys .fixed progs) sched)) rfl rfl rfl
    hord hleak ht0

-- the hypotheses are satisfiable in a state where a handle is held and the other thread waits for it
set_option maxRecDepth 8000 in
example : let s := (sys .fixed (wit_progs (.openW 1 [[100], [102]]))).run (List.replicate 9 0 ++ List.replicate 10 1)
    (orderedB .fixed s && noLeakB s && unfinished s 0 && unfinished s 1 && lockedBy s.heap 0 2) = true := by
  decide

set_option maxRecDepth 8000 in
/-- The discipline as literally stated ("closes it before opening another on the same file") is not
enough for any design with exclusive handles: two threads streaming a→b and b→a deadlock although
nobody ever waits for a file he holds himself. -/
theorem no_deadlock_samefile_discipline_false :
    ∃ progs sched, let s := (sys .fixed progs).run sched
      (∀ t, step .fixed s t = none) ∧ (∃ t, unfinished s t = true) ∧ NoLeak s ∧ selfFreeB .fixed s = true := by
  refine ⟨cross_progs, cross_sched, ?_⟩
  have h : (let s := (sys .fixed cross_progs).run cross_sched
      stuckB .fixed s && unfinished s 0 && noLeakB s && selfFreeB .fixed s) = true := by decide
  simp only [Bool.and_eq_true] at h
  exact ⟨stuck_of_stuckB h.1.1.1, ⟨0, h.1.1.2⟩, noLeak_of_noLeakB h.1.2, h.2⟩

/-! ## quiescent_locks_free -/

/-- A DIRECTORY'S WRITER LOCK IS HELD ONLY FROM INSIDE.  In every reachable state - any number of threads
running any programs, every schedule, every lock-order variant - the holder of a directory's outer lock
(`Dir.Lock`) is a thread in the middle of a `WriteFile`/`Writer` critical section on that very directory;
a thread between two operations (`pc = idle`), and a thread that has run to its end, holds none: no
operation RETURNS with the lock held, whichever branch it took (also the one where `addNode` fails
because a `Copy`/`MkdirAll`, which do not take this lock, inserted the name in `memfs.write.gap`). -/
theorem dir_lock_holder_inside (v : Variant) (progs : List (List Op)) (sched : List Tid)
    (d : Oid) (dd : DirObj) (t : Tid)
    (hg : getDir ((sys v progs).run sched).heap d = some dd) (ho : dd.outer = some t) :
    ∃ th, ((sys v progs).run sched).threads[t]? = some th ∧ th.pc ≠ .idle ∧ holdsOuter th.pc = some d ∧
      unfinished ((sys v progs).run sched) t = true :=
  outer_holder (linv_reachable v progs (run_reachable (sys v progs) sched)) hg ho

/-- QUIESCENT ⇒ ALL LOCKS FREE.  After any schedule that lets every thread finish, every directory lock
is free (every variant); in the repaired lock order, if the finished threads have closed their stream
handles (`NoLeak`: a handle is the one lock the interface lets a caller keep), NO lock of the heap is held
(`NoLocks`) - the heap is again a legal starting point of `distinct_paths_commute` /
`distinct_paths_progress`, and a later operation on any name of any directory is not blocked. -/
theorem quiescent_dir_locks_free (v : Variant) (progs : List (List Op)) (sched : List Tid)
    (hq : ∀ t, unfinished ((sys v progs).run sched) t = false) (d : Oid) (dd : DirObj)
    (hg : getDir ((sys v progs).run sched).heap d = some dd) : dd.outer = none := by
  cases ho : dd.outer with
  | none => rfl
  | some t =>
    obtain ⟨_, _, _, _, hu⟩ := dir_lock_holder_inside v progs sched d dd t hg ho
    rw [hq t] at hu
    cases hu

theorem quiescent_locks_free (progs : List (List Op)) (sched : List Tid)
    (hq : ∀ t, unfinished ((sys .fixed progs).run sched) t = false)
    (hleak : NoLeak ((sys .fixed progs).run sched)) : NoLocks ((sys .fixed progs).run sched).heap :=
  quiescent_noLocks (linv_reachable .fixed progs (run_reachable (sys .fixed progs) sched)) rfl hq hleak

-- the race of seeded change C09-8 in the model: thread 0 makes s and d and is held in `memfs.write.gap` of
-- Writer(d/p) with d's lock (14 steps), thread 1 copies s onto d/p (the WriteFile of thread 2 on ANOTHER name of
-- d is blocked meanwhile), thread 0 is released: its Writer fails, it unlocks, everybody finishes, no lock is left
set_option maxRecDepth 16000 in
example : let progs : List (List Op) := [[.writeFile [[115]] [7], .mkdirAll [[100]], .openW 1 [[100], [112]], .close 1],
      [.copy [[115]] [[100], [112]]], [.writeFile [[100], [113]] [9]]]
    let run := fun (n m k j : Nat) => (sys .fixed progs).run
      (List.replicate n 0 ++ List.replicate m 1 ++ List.replicate k 0 ++ List.replicate j 2)
    (getDir (run 14 10 0 0).heap 2).map (·.outer) = some (some 0)
      ∧ (step .fixed (run 14 10 0 0) 2).isSome = true ∧ (step .fixed (run 14 10 0 3) 2).isSome = false
      ∧ (∀ t ∈ [0, 1, 2, 3], unfinished (run 14 10 10 10) t = false) ∧ noLeakB (run 14 10 10 10) = true
      ∧ resultsOf (run 14 10 10 10) 0 = [.ok, .ok, .err, .err] ∧ resultsOf (run 14 10 10 10) 1 = [.ok]
      ∧ resultsOf (run 14 10 10 10) 2 = [.ok]
      ∧ (getDir (run 14 10 10 10).heap 2).map (·.outer) = some none := by decide

/-! ## the old lock orders deadlock (disproofs for the code before the repairs) -/

/-- pre-9a06d6d: `Writer` waits for the file's data lock while holding the directory lock.  Thread 0
holds a writer on d/f and calls `WriteFile("d/g")`, thread 1 opens a writer on d/f: stuck, although the
discipline is respected. -/
theorem writer_under_dirlock_deadlocks :
    ∃ progs sched, Deadlock { writerUnderDir := true } progs sched :=
  ⟨wit_progs (.openW 1 [[100], [102]]), wit_sched, deadlock_of_deadlockB (by decide)⟩

/-- pre-c2706af: `WriteFile` on an existing file calls `setData` while holding the directory lock. -/
theorem writefile_under_dirlock_deadlocks :
    ∃ progs sched, Deadlock { writeFileUnderDir := true } progs sched :=
  ⟨wit_progs (.writeFile [[100], [102]] [2]), wit_sched, deadlock_of_deadlockB (by decide)⟩

/-- pre-a4ab55a: `copyDir` keeps the source directory's `mu.RLock` while it waits for a child file. -/
theorem copydir_holds_mu_deadlocks :
    ∃ progs sched, Deadlock { copyDirHoldsMu := true } progs sched :=
  ⟨wit_progs (.copy [[100]] [[101]]), wit_sched, deadlock_of_deadlockB (by decide)⟩

-- the same three schedules are harmless in the repaired lock order
example : (deadlockB .fixed (wit_progs (.openW 1 [[100], [102]])) wit_sched ||
    deadlockB .fixed (wit_progs (.writeFile [[100], [102]] [2])) wit_sched ||
    deadlockB .fixed (wit_progs (.copy [[100]] [[101]])) wit_sched) = false := by decide

/-! ## distinct_paths_commute -/

/-
Vocabulary (`Goat/Proofs/MemFSConc{Shape,Ops,SimDefs,Seq,Final}.lean`):
  `Shape h`          the heap is a forest: every directory object consistent, the root a directory, every
                     child allocated, every object has at most one parent entry
  `absT h`           the abstract tree of the heap: `Path → Option Entry` (the `FS.State` of the specification)
  `startState h0 progs`   the threads, none of them started, on the heap `h0` (`init progs` for the empty heap)
  `seqRun t0 σ`      the SEQUENTIAL MODEL `Goat.MemFS.step` (property C01) run over the operations `σ`, one
                     call after the other (`toFS`: the operation as a call with `/`-joined path strings)
  `abs t`            C01's abstraction of the sequential model's tree
  `Op.fine`          a supported operation (MkdirAll, WriteFile, ReadFile, ReadDir, IsExist/IsFile/IsDir,
                     Remove, RemoveAll, Copy of a file or of a whole directory tree) on non-empty reduced
                     paths; a copy's source and destination unrelated.  Stream handles (`Writer`/`Reader`)
                     hold a file's lock ACROSS operations: they are the subject of `file_values` and
                     `no_deadlock`, not of this theorem
  `IndepOp a b`      nothing of `b` lies at or below a path `a` replaces (`WriteFile`/`Remove`/`RemoveAll`
                     target, `Copy` destination), `a` replaces nothing at or above a path `b` reads (a read's
                     path, a copy's source) or replaces, `a` reads
                     nothing on the way `b` creates directories along; creating operations may share
                     ancestors (`indepOp_of_unrelated`: operations on pairwise unrelated paths are independent)
-/

/-- DISTINCT PATHS COMMUTE, at the level of the heap.  Any number of threads, each running any program
of supported operations, all operations pairwise independent (in particular: on pairwise unrelated
paths), started on any forest-shaped heap `h0` that represents a tree `t0` of the sequential model.
After EVERY schedule of their lock-granular actions that lets all threads finish, and for EVERY order `σ`
of all the operations:
 (1) the abstract tree of the final heap is the tree of the sequential model after `σ` — so it does not
     depend on the interleaving, nor on the order;
 (2) every thread has one result per operation, and it is the result the same operation has in the
     sequential run (for `ReadDir`: a listing with the same entries);
 (3) through C01: the final abstract tree and the results are a run of the specification `FS.Step`,
     call by call, in the order `σ`;
 (4) the final heap is again a forest and the sequential tree well formed: the next batch can start there. -/
theorem distinct_paths_commute
    {h0 : Heap} (hsh : Shape h0) {t0 : Node} (ht0 : MemFS.Inv t0) (habs : absT h0 = abs t0)
    {progs : List (List Op)} (hok : ∀ P ∈ progs, ∀ op ∈ P, op.fine)
    (hind : progs.flatten.Pairwise IndepOp) (sched : List Tid)
    (hfin : ∀ t, unfinished ((sys .fixed progs).runFrom (startState h0 progs) sched) t = false)
    (σ : List Op) (hσ : σ.Perm progs.flatten) :
    abs (seqRun t0 σ).1 = absT ((sys .fixed progs).runFrom (startState h0 progs) sched).heap ∧
    (∀ τ P, progs[τ]? = some P →
      (resultsOf ((sys .fixed progs).runFrom (startState h0 progs) sched) τ).length = P.length ∧
      ∀ (k : Nat) op r, P[k]? = some op →
        (resultsOf ((sys .fixed progs).runFrom (startState h0 progs) sched) τ)[k]? = some r →
        ∀ (j : Nat) r', σ[j]? = some op → (seqRun t0 σ).2[j]? = some r' →
          ((∀ p, op ≠ .readDir p) → r' = resFS r) ∧
          (∀ p, op = .readDir p → ∃ r'', r' = resFS r'' ∧ ((r = .err ∧ r'' = .err) ∨
            ∃ l l', r = .list l ∧ r'' = .list l' ∧ FS.IsListing (absT h0) p l ∧ FS.IsListing (absT h0) p l' ∧
              ∀ x, x ∈ l ↔ x ∈ l'))) ∧
    FS.Run [[]] (abs t0) (σ.map fun op => (0, toFS op)) (seqRun t0 σ).2
      (absT ((sys .fixed progs).runFrom (startState h0 progs) sched).heap) ∧
    Shape ((sys .fixed progs).runFrom (startState h0 progs) sched).heap ∧ MemFS.Inv (seqRun t0 σ).1 := by
  obtain ⟨h1, h2, h3, h4, h5, h6⟩ := commute_core hsh ht0 habs hok hind sched hfin σ hσ
  have hσok : ∀ op ∈ σ, op.ok := by
    intro op hop
    have := hσ.subset hop
    rw [List.mem_flatten] at this
    obtain ⟨P, hP, hopP⟩ := this
    exact (hok P hP op hopP).1
  refine ⟨h1, ?_, ?_, h6, h5⟩
  · intro τ P hP
    refine ⟨(h2 τ P hP).1, ?_⟩
    intro k op r hk hr j r' hj hr'
    have hc := (h2 τ P hP).2 k op r hk hr
    obtain ⟨r'', he, hs⟩ := h4 j op r' hj hr'
    constructor
    · intro hnl; rw [he, resOK_det hs hc hnl]
    · rintro p rfl
      refine ⟨r'', he, ?_⟩
      rcases resOK_listing hc hs with h | h
      · exact Or.inl h
      · exact Or.inr h
  · rw [← h1]; exact seqRun_run σ hσok t0 ht0

/-- The same for operations on pairwise UNRELATED paths (none an ancestor of another; a `Copy` names two). -/
theorem distinct_paths_commute_unrelated
    {h0 : Heap} (hsh : Shape h0) {t0 : Node} (ht0 : MemFS.Inv t0) (habs : absT h0 = abs t0)
    {progs : List (List Op)} (hok : ∀ P ∈ progs, ∀ op ∈ P, op.fine)
    (hun : progs.flatten.Pairwise fun a b => ∀ x ∈ a.mains, ∀ y ∈ b.mains, ¬ x <+: y ∧ ¬ y <+: x)
    (sched : List Tid)
    (hfin : ∀ t, unfinished ((sys .fixed progs).runFrom (startState h0 progs) sched) t = false)
    (σ : List Op) (hσ : σ.Perm progs.flatten) :
    abs (seqRun t0 σ).1 = absT ((sys .fixed progs).runFrom (startState h0 progs) sched).heap :=
  (distinct_paths_commute hsh ht0 habs hok (hun.imp (fun h => indepOp_of_unrelated h)) sched hfin σ hσ).1

/-- …and such a batch NEVER GETS STUCK: started on a heap without held locks (`NoLocks`), in every state
of every schedule, if some thread has not finished then some thread can take a step.  (No handle
discipline is needed here: the operations of a batch hold no stream handle, every file stays unlocked.) -/
theorem distinct_paths_progress {h0 : Heap} (hsh : Shape h0) (hq : NoLocks h0) {progs : List (List Op)}
    (hok : ∀ P ∈ progs, ∀ op ∈ P, op.ok) (hind : progs.flatten.Pairwise IndepOp) (sched : List Tid)
    (hun : ∃ t, unfinished ((sys .fixed progs).runFrom (startState h0 progs) sched) t = true) :
    ∃ t, (step .fixed ((sys .fixed progs).runFrom (startState h0 progs) sched) t).isSome = true :=
  progress_core hsh hq hok hind sched hun

example : NoLocks [Obj.dir {}] := noLocks_init
-- two writers of sibling files in one directory: 1 waits for the directory's outer lock that 0 holds
set_option maxRecDepth 8000 in
example : let progs : List (List Op) := [[.writeFile [[100], [120]] [1]], [.writeFile [[100], [121]] [2]]]
    let s := (sys .fixed progs).runFrom (startState [Obj.dir {}] progs) ([0, 0, 0, 0, 0] ++ [1, 1, 1, 1])
    unfinished s 1 = true ∧ (step .fixed s 1).isSome = false ∧ (step .fixed s 0).isSome = true := by decide

-- WriteFile(a/b/x), MkdirAll(a/c), WriteFile(d) then ReadFile(e): three threads from the empty filespace.
-- The hypotheses hold (shape, representation, supported operations, unrelated paths, a finishing schedule):
example : Shape [Obj.dir {}] ∧ MemFS.Inv Node.empty ∧ absT [Obj.dir {}] = abs Node.empty :=
  ⟨shape_init, MemFS.inv_empty, absT_init⟩
example : let progs : List (List Op) := [[.writeFile [[97], [98], [120]] [1]], [.mkdirAll [[97], [99]]],
      [.writeFile [[100]] [2], .readFile [[101]]]]
    (∀ P ∈ progs, ∀ op ∈ P, op.fine) ∧
    (progs.flatten.Pairwise fun a b => ∀ x ∈ a.mains, ∀ y ∈ b.mains, ¬ x <+: y ∧ ¬ y <+: x) := by
  constructor
  · simp [Op.fine, Op.ok, Op.reduced, Op.mains, Path.Reduced]; decide
  · simp [Op.mains]
set_option maxRecDepth 8000 in
example : ∀ t, unfinished ((sys .fixed [[.writeFile [[97], [98], [120]] [1]], [.mkdirAll [[97], [99]]],
      [.writeFile [[100]] [2], .readFile [[101]]]]).runFrom (startState [Obj.dir {}]
        [[.writeFile [[97], [98], [120]] [1]], [.mkdirAll [[97], [99]]], [.writeFile [[100]] [2], .readFile [[101]]]])
      (List.replicate 5 0 ++ List.replicate 8 1 ++ List.replicate 12 2 ++ List.replicate 7 0)) t = false := by
  intro t
  match t with
  | 0 => decide
  | 1 => decide
  | 2 => decide
  | n + 3 => rfl
-- and a second batch started on the heap the first one left (conclusion (4) are the hypotheses again):
-- Remove(d) ‖ ReadDir(a) on a non-empty initial tree
set_option maxRecDepth 8000 in
example : let progs1 : List (List Op) := [[.writeFile [[97], [98]] [1]], [.writeFile [[100]] [2]]]
    let s1 := (sys .fixed progs1).runFrom (startState [Obj.dir {}] progs1) (List.replicate 10 0 ++ List.replicate 8 1)
    let progs2 : List (List Op) := [[.remove [[100]]], [.readDir [[97]]]]
    let s2 := (sys .fixed progs2).runFrom (startState s1.heap progs2) (List.replicate 8 0 ++ List.replicate 8 1)
    (∀ t, unfinished s2 t = false) ∧ resultsOf s2 0 = [.ok] ∧ resultsOf s2 1 = [.list [([98], false)]] := by
  refine ⟨?_, by decide, by decide⟩
  intro t
  match t with
  | 0 => decide
  | 1 => decide
  | n + 2 => rfl

-- a directory copy next to a writer and a remover: batch 1 builds a/x, a/s/y, d; batch 2 runs
-- Copy(a → c) ‖ WriteFile(e/f) ‖ Remove(d), interleaved one critical section at a time
set_option maxRecDepth 16000 in
example : let progs1 : List (List Op) := [[.writeFile [[97], [120]] [1], .writeFile [[97], [115], [121]] [2]],
      [.writeFile [[100]] [3]]]
    let s1 := (sys .fixed progs1).runFrom (startState [Obj.dir {}] progs1) (List.replicate 24 0 ++ List.replicate 8 1)
    let progs2 : List (List Op) := [[.copy [[97]] [[99]]], [.writeFile [[101], [102]] [4]], [.remove [[100]]]]
    let s2 := (sys .fixed progs2).runFrom (startState s1.heap progs2)
      ((List.replicate 14 [0, 1, 2]).flatten ++ List.replicate 10 0)
    (∀ P ∈ progs2, ∀ op ∈ P, op.fine) ∧
    (progs2.flatten.Pairwise fun a b => ∀ x ∈ a.mains, ∀ y ∈ b.mains, ¬ x <+: y ∧ ¬ y <+: x) ∧
    (∀ t, unfinished s2 t = false) ∧ resultsOf s2 0 = [.ok] ∧
    absT s2.heap [[99], [115], [121]] = some (.file [2]) ∧ absT s2.heap [[100]] = none := by
  refine ⟨?_, ?_, ?_, by decide, by decide, by decide⟩
  · simp [Op.fine, Op.ok, Op.reduced, Op.mains, Path.Reduced]; decide
  · simp [Op.mains]
  · intro t
    match t with
    | 0 => decide
    | 1 => decide
    | 2 => decide
    | n + 3 => rfl

/-! ## concurrent_mkdir_shared_parent -/

/-- THE SHARED-ANCESTOR CREATION RACE.  Any number of threads, each running `MkdirAll` / `WriteFile`
operations below a common ancestor path `a` that is missing (with no file on the way to it), pairwise
independent (leaves unrelated; several `MkdirAll` of the same path allowed).  After every schedule that
lets all threads finish: NOBODY FAILS, the ancestor chain exists (every prefix of `a` is a directory),
every leaf exists (every prefix of a `MkdirAll` path is a directory, every written file holds its value),
and the heap is a forest with consistent directories — each name of the chain was created exactly once
(`create_once` is the statement for one directory object). -/
theorem concurrent_mkdir_shared_parent {h0 : Heap} (hsh : Shape h0) {a : Path} {progs : List (List Op)}
    (hops : ∀ P ∈ progs, ∀ op ∈ P, op.below a) (hsome : ∃ P ∈ progs, P ≠ [])
    (hmiss : absT h0 a = none) (hnf : FS.mkdirOk (absT h0) a)
    (hind : progs.flatten.Pairwise IndepOp) (sched : List Tid)
    (hfin : ∀ t, unfinished ((sys .fixed progs).runFrom (startState h0 progs) sched) t = false) :
    (∀ τ P, progs[τ]? = some P →
      resultsOf ((sys .fixed progs).runFrom (startState h0 progs) sched) τ = P.map fun _ => Res.ok) ∧
    (∀ q, q <+: a → absT ((sys .fixed progs).runFrom (startState h0 progs) sched).heap q = some .dir) ∧
    (∀ P ∈ progs, ∀ op ∈ P,
      (∀ p, op = .mkdirAll p → ∀ q, q <+: p →
        absT ((sys .fixed progs).runFrom (startState h0 progs) sched).heap q = some .dir) ∧
      (∀ p v, op = .writeFile p v →
        absT ((sys .fixed progs).runFrom (startState h0 progs) sched).heap p = some (.file v))) ∧
    Shape ((sys .fixed progs).runFrom (startState h0 progs) sched).heap :=
  created_core hsh hops hsome hmiss hnf hind sched hfin

-- three threads below the missing ancestor a/b: MkdirAll(a/b/x), MkdirAll(a/b/x) again, WriteFile(a/b/y/f);
-- all three parked in the gap of `mkdir a` (schedule 0,0 1,1 2,2), then released in the order 2,1,0
example : let a : Path := [[97], [98]]
    let progs : List (List Op) := [[.mkdirAll (a ++ [[120]])], [.mkdirAll (a ++ [[120]])], [.writeFile (a ++ [[121], [102]]) [7]]]
    (∀ P ∈ progs, ∀ op ∈ P, op.below a) ∧ progs.flatten.Pairwise IndepOp ∧ absT [Obj.dir {}] a = none ∧
    FS.mkdirOk (absT [Obj.dir {}]) a := by
  refine ⟨?_, ?_, by decide, ?_⟩
  · simp only [List.mem_cons, List.not_mem_nil, or_false, forall_eq_or_imp, forall_eq]
    exact ⟨Or.inl ⟨[[120]], by simp, rfl⟩, Or.inl ⟨[[120]], by simp, rfl⟩, Or.inr ⟨[[121], [102]], [7], by simp, rfl⟩⟩
  · simp [IndepOp, Op.W, Op.C, Op.R, Op.paths, Op.owned]
  · intro q hq d
    rw [absT_init]
    have : q = [] ∨ q = [[97]] ∨ q = [[97], [98]] := by
      obtain ⟨r, hr⟩ := hq
      match q, hr with
      | [], _ => exact Or.inl rfl
      | [x], h => simp at h; exact Or.inr (Or.inl (by rw [h.1]))
      | [x, y], h => simp at h; exact Or.inr (Or.inr (by rw [h.1, h.2.1]))
      | x :: y :: z :: w, h => simp at h
    rcases this with rfl | rfl | rfl <;> simp [abs, Node.lookup, Node.empty, Kids.find, Node.entry]
set_option maxRecDepth 8000 in
example : let progs : List (List Op) := [[.mkdirAll [[97], [98], [120]]], [.mkdirAll [[97], [98], [120]]],
      [.writeFile [[97], [98], [121], [102]] [7]]]
    let s := (sys .fixed progs).runFrom (startState [Obj.dir {}] progs)
      ([0, 0, 1, 1, 2, 2] ++ List.replicate 20 2 ++ List.replicate 12 1 ++ List.replicate 12 0)
    (∀ t, unfinished s t = false) ∧ (getDir s.heap 0).map (·.nodes.length) = some 1 := by
  refine ⟨?_, by decide⟩
  intro t
  match t with
  | 0 => decide
  | 1 => decide
  | 2 => decide
  | n + 3 => rfl

/-! ## interleaving_refines_some_order — false for operations on RELATED paths -/

/-
Full statement asked for: for operations on related paths, every interleaving's results and final tree
are those of SOME sequential order of the operations (linearisability at operation granularity).
It is FALSE for the code, already for two threads with one operation each:
    thread 0: WriteFile("a/b/f", v)        thread 1: Remove("a/b")        (empty filespace)
  schedule: 0 creates a and a/b and parks before taking a/b's outer lock; 1 looks a/b up (a directory),
  reads its length (0), and parks before `removeNodeByName`; 0 adds f to a/b and returns ok; 1 removes a/b
  and returns ok.  Both calls succeed, the final tree is {a}: the file just written is gone and `Remove`
  has removed a non-empty directory.  Sequentially one of the two calls fails in either order
  (`Remove` of a missing path / of a non-empty directory).
The atomicity that is missing: `Remove`'s emptiness test (`lastDir.Size()`, under the lock of a/b) and its
`removeNodeByName` (under the lock of a) are two critical sections of two different directories, and
`WriteFile`'s `mkdirAllNodes` and `addNode` are separate critical sections as well; no lock covers the path.
The property only claims operations on DISTINCT paths (`distinct_paths_commute`).
-/
set_option maxRecDepth 8000 in
theorem interleaving_refines_some_order_false :
    ∃ (progs : List (List Op)) (sched : List Tid),
      (∀ t, unfinished ((sys .fixed progs).run sched) t = false) ∧
      (∀ τ P, progs[τ]? = some P → resultsOf ((sys .fixed progs).run sched) τ = P.map fun _ => Res.ok) ∧
      (∃ p v, Op.writeFile p v ∈ progs.flatten ∧ absT ((sys .fixed progs).run sched).heap p = none) ∧
      ∀ σ : List Op, σ.Perm progs.flatten → (seqRun Node.empty σ).2 ≠ σ.map fun _ => FS.Result.ok := by
  refine ⟨[[.writeFile [[97], [98], [102]] [1]], [.remove [[97], [98]]]],
    [0, 0, 0, 0, 0, 1, 1, 1, 1, 0, 0, 0, 0, 0, 1, 1], ?_, ?_, ⟨[[97], [98], [102]], [1], by simp, by decide⟩, ?_⟩
  · intro t
    match t with
    | 0 => decide
    | 1 => decide
    | n + 2 => rfl
  · intro τ P hP
    match τ, hP with
    | 0, h => simp at h; subst h; decide
    | 1, h => simp at h; subst h; decide
    | n + 2, h => simp at h
  · intro σ hσ
    have hlen := hσ.length_eq
    simp only [List.flatten_cons, List.flatten_nil, List.append_nil, List.singleton_append, List.length_cons,
      List.length_nil] at hlen hσ
    match σ, hlen with
    | [x, y], _ =>
      have hx : x ∈ [Op.writeFile [[97], [98], [102]] [1], Op.remove [[97], [98]]] := hσ.subset (by simp)
      have hy : y ∈ [Op.writeFile [[97], [98], [102]] [1], Op.remove [[97], [98]]] := hσ.subset (by simp)
      have hnd : [x, y].Nodup := hσ.nodup_iff.2 (by simp)
      simp only [List.mem_cons, List.not_mem_nil, or_false] at hx hy
      rcases hx with rfl | rfl <;> rcases hy with rfl | rfl
      · simp at hnd
      · decide
      · decide
      · simp at hnd

/-! ## the micro-effect form (the commutation engine of `distinct_paths_commute`) -/

/-- Seen from the root every heap-mutating critical section is one micro effect on the path map
(`ensureDir p` = locked part of `mkdir`, `graft p sub` = `addNode` / `setData` / handle close /
`removeNodeByName` at `p`); an operation with target `p` is `ensureDir` on the proper prefixes of `p`
followed by its effect at `p`; the effects of operations on pairwise unrelated targets give the same tree in
every order.  (This is the former `distinct_paths_commute_partial`; the refinement of the heap to these
effects, which it lacked, is `absT_addLeaf_dir`, `absT_addLeaf_file`, `absT_data`, `absT_remEdge` of
`Proofs/MemFSConcShape.lean`, and `distinct_paths_commute` above is proved through it.) -/
theorem micro_effects_commute (ops : List AOp)
    (hun : ops.Pairwise (fun a b => Unrelated a.target b.target))
    (l : List Eff1) (hl : l.Perm (ops.flatMap AOp.effects))
    (ops' : List AOp) (hp : ops'.Perm ops) (T : Tree) :
    runEffs T l = runEffs T (ops'.flatMap AOp.effects) := by
  have hind : (ops.flatMap AOp.effects).Pairwise Indep := indep_all hun
  have h1 : runEffs T l = runEffs T (ops.flatMap AOp.effects) :=
    runEffs_perm hl ((hl.pairwise_iff (fun h => indep_symm h)).2 hind) T
  have h2 : runEffs T (ops.flatMap AOp.effects) = runEffs T (ops'.flatMap AOp.effects) :=
    runEffs_perm (hp.symm.flatMap_right _) hind T
  rw [h1, h2]

-- WriteFile(a/b/x), MkdirAll(a/c), Remove(d) are pairwise unrelated; an interleaving of their effects
example : let ops : List AOp := [⟨[[97], [98], [120]], some (fun q => if q = [] then some (.file [1]) else none)⟩,
      ⟨[[97], [99]], none⟩, ⟨[[100]], some (fun _ => none)⟩]
    ops.Pairwise (fun a b => Unrelated a.target b.target) := by
  simp [Unrelated, List.isPrefixOf]

end Goat.C09
