/-
C10 — dependency container: lazy singletons, fixed precedence, safe failure.

Theorems about `Goat/Model/DI.lean` (the mirror of `/repo/app/dependency/provider.go`, of the
injectors in `/repo/app/injector` and `/repo/app/scope/datascope/injector.go`, and of
`NewStaticProvider`).  A history is any `List Op` — `Set`/`SetDefault` (with an object or with
`nil`)/`AddFactory`/`AddDefaultFactory`/`AddInjectors`/`Get`/`InjectTo` (into a struct, or into
something that is not a pointer to a struct)/`Keys` in any order and number, over names that are any
texts (the empty one and those beginning with `?` included), factories with any dependency lists,
injectors with any data — run from `NewProvider` (`St.empty`); `exec` is the state after it,
`Get`/`InjectTo` are the calls from outside, `InjectOwn` is the part of `InjectTo` the provider does
itself (before the registered injectors), `toStatic` turns a provider into the one
`NewStaticProvider` builds from its tables.  Nothing is bounded.
Helper lemmas are in `Goat/Proofs/DI*.lean`.
-/
import Goat.Proofs.DIGood
import Goat.Proofs.DIPrec
import Goat.Proofs.DIBlock
import Goat.Proofs.DIExt

namespace Goat.C10
open Goat.DI

/-! Example material: `0` needs `1` optionally and `2` by injection, `1` fails, `2` is a default
instance shadowed by nothing; `3 → 4 → 5 → 3` is a required cycle, `6` needs the cycle optionally. -/

def demoDefs : List Op :=
  [ .addFactory 0 ⟨[⟨1, true, false⟩, ⟨2, false, true⟩], .ok⟩,
    .addFactory 1 ⟨[], .fail⟩,
    .setDefault 2 7,
    .addDefaultFactory 2 ⟨[], .ok⟩,
    .addFactory 3 ⟨[⟨4, false, false⟩], .ok⟩,
    .addDefaultFactory 4 ⟨[⟨5, false, true⟩], .ok⟩,
    .addFactory 5 ⟨[⟨3, false, false⟩], .ok⟩,
    .addFactory 6 ⟨[⟨3, true, false⟩], .ok⟩ ]

def demoReqs : List Op :=
  [ .get 1, .get 3, .injectTo [.own 1 true, .own 0 false], .get 6, .set 9 1, .keys ]

/-! ### termination and the resolution stack -/

/-- The recursion of `Get` through the factories never runs out of fuel: `get 0` (the only place
that sets `exhausted`) is never reached, after any history.  This is the termination proof of the
model — the fuel `|keys| + 1` given to a request is always enough. -/
theorem fuel_sufficient (h : List Op) : (exec St.empty h).exhausted = false :=
  (inv_exec Inv.empty h).notex

example : (exec St.empty (demoDefs ++ demoReqs)).exhausted = false := by decide

/-- After every history — whatever failed in it — the resolution stack is empty again. -/
theorem stack_clean (h : List Op) : (exec St.empty h).callstack = [] :=
  (inv_exec Inv.empty h).stack

example : (results St.empty (demoDefs ++ demoReqs)).getLast? = some (.keys [0, 1, 2, 3, 4, 5, 6]) ∧
    (exec St.empty (demoDefs ++ demoReqs)).callstack = [] := by decide

/-! ### lazy singletons -/

/-- No name's factory delivers an instance twice. -/
theorem at_most_one_success (h : List Op) : (successes (exec St.empty h).log).Nodup :=
  (inv_exec Inv.empty h).nodup

example : successes (exec St.empty (demoDefs ++ demoReqs)).log = [0, 6] := by decide

/-- Once the factory of `n` has delivered, it is never started again (position-wise in the log of
all factory invocations, nested ones included). -/
theorem never_rerun_after_instance (h : List Op) (pre post : List Ev) (n : Name) (i : Inst)
    (hl : (exec St.empty h).log = pre ++ Ev.done n i :: post) : Ev.start n ∉ post :=
  noRerun_split (inv_exec Inv.empty h).norerun hl

example : (exec St.empty (demoDefs ++ demoReqs)).log =
    [.start 1, .start 3, .start 4, .start 5, .start 1, .start 0, .start 1] ++ Ev.done 0 (.built 0) ::
      [.start 6, .start 3, .start 4, .start 5, .done 6 (.built 1)] := by decide

/-- A name that has an instance (set, promoted default, or built) never has its factory invoked
again, whatever happens afterwards. -/
theorem never_invoked_with_instance (h h' : List Op) (n : Name)
    (hi : (exec St.empty h).instances n ≠ none) :
    invocations n (exec St.empty (h ++ h')).log = invocations n (exec St.empty h).log := by
  rw [exec_append]
  exact (grow_exec (inv_exec Inv.empty h) h').invocations_eq hi

example : (exec St.empty (demoDefs ++ [.get 0])).instances 0 ≠ none ∧
    invocations 0 (exec St.empty (demoDefs ++ [.get 0] ++ demoReqs)).log = 1 := by decide

/-- Once a `Get n` has answered `i`, every later `Get n` answers `i`. -/
theorem singleton (h h' : List Op) (n : Name) (i : Inst)
    (hg : (Get (exec St.empty h) n).2 = .inst i) :
    (Get (exec St.empty (h ++ .get n :: h')) n).2 = .inst i := by
  have hinv := inv_exec Inv.empty h
  rw [exec_append]
  have h1 : (step (exec St.empty h) (.get n)).1.instances n = some i := get_inst hg
  exact Get_of_inst (inv_exec (inv_step hinv _) h')
    ((grow_exec (inv_step hinv _) h').inst_mono n i h1)

example : (Get (exec St.empty demoDefs) 0).2 = .inst (.built 0) := by decide

/-- … and every later injection stores `i` into each field tagged `n` or `?n` that the provider's
own loop reaches (an object; a `nil` is refused instead, see `nil_definition_inject_refused`). -/
theorem singleton_inject (h h' : List Op) (n : Name) (i : Inst)
    (hg : (Get (exec St.empty h) n).2 = .inst i) (hnil : i ≠ .nil)
    (fs : List Field) (k : Nat) (fld : Field) (opt : Bool) (v : Option Inst) (hk : fs[k]? = some fld)
    (hname : fld.dep = some (n, opt))
    (hv : (InjectOwn (exec St.empty (h ++ .get n :: h')) fs).2.1[k]? = some v) :
    v = some i := by
  have hinv := inv_exec Inv.empty h
  rw [exec_append] at hv
  have h1 : (step (exec St.empty h) (.get n)).1.instances n = some i := get_inst hg
  exact InjectOwn_of_inst (inv_exec (inv_step hinv _) h')
    ((grow_exec (inv_step hinv _) h').inst_mono n i h1) hnil fs k fld opt v hk hname hv

example : (InjectOwn (exec St.empty (demoDefs ++ .get 0 :: demoReqs)) [.own 2 false, .own 0 true]).2.1 =
    [some (.given 7), some (.built 0)] := by decide

/-- The same when the first answer was an injected field: what a field received is what every later
`Get` of that name answers. -/
theorem singleton_from_inject (h h' : List Op) (fs : List Field) (k : Nat) (fld : Field) (i : Inst)
    (hk : fs[k]? = some fld) (hv : (InjectOwn (exec St.empty h) fs).2.1[k]? = some (some i)) :
    ∃ n opt, fld.dep = some (n, opt) ∧
      (Get (exec St.empty (h ++ .injectTo fs :: h')) n).2 = .inst i := by
  have hinv := inv_exec Inv.empty h
  obtain ⟨n, opt, hd, h1⟩ := InjectOwn_val_inst hinv fs k fld i hk hv
  refine ⟨n, opt, hd, ?_⟩
  rw [exec_append]
  have h2 : (step (exec St.empty h) (.injectTo fs)).1.instances n = some i := by
    show (InjectTo _ fs).1.instances n = some i
    rw [InjectTo_fst]; exact h1
  exact Get_of_inst (inv_exec (inv_step hinv _) h')
    ((grow_exec (inv_step hinv _) h').inst_mono _ i h2)

example : (InjectOwn (exec St.empty demoDefs) [.own 1 true, .own 0 false]).2.1[1]? = some (some (.built 0)) := by
  decide

/-! ### precedence -/

/-- After any sequence of definition calls — any order, any duplicates, any mix of the four kinds,
for any names — the definition `Get` uses for `n` (instances, then factories, then default
factories, after `Block`) is the first explicit definition of `n` in the sequence if there is one,
and the first default definition of `n` otherwise. -/
theorem explicit_wins (defs : List Op) (n : Name) (hd : ∀ o, o ∈ defs → o.isDef = true) :
    source (block (exec St.empty defs)) n = orElse (firstExplicit n defs) (firstDefault n defs) :=
  source_after_defs defs n hd

example : source (block (exec St.empty demoDefs)) 2 = some (.inst (.given 7)) := by decide

/-- In particular an explicit definition beats every default one wherever it stands. -/
theorem explicit_beats_default (defs : List Op) (n : Name) (src : Src)
    (hd : ∀ o, o ∈ defs → o.isDef = true) (he : firstExplicit n defs = some src) :
    source (block (exec St.empty defs)) n = some src := by
  rw [explicit_wins defs n hd, he]; rfl

example : firstExplicit 0 [.setDefault 0 1, .addDefaultFactory 0 ⟨[], .ok⟩, .addFactory 0 ⟨[], .fail⟩, .set 0 2]
    = some (.fac ⟨[], .fail⟩) := by decide

/-- An explicitly set object (or `nil`) is what `Get` returns, whatever defaults were registered before or after. -/
theorem explicit_instance_returned (defs : List Op) (n : Name) (i : Inst)
    (hd : ∀ o, o ∈ defs → o.isDef = true) (he : firstExplicit n defs = some (.inst i)) :
    (Get (exec St.empty defs) n).2 = .inst i :=
  Get_of_block_inst (inv_exec Inv.empty defs) (source_inst (explicit_beats_default defs n _ hd he))

example : (Get (exec St.empty [.setDefault 0 1, .addDefaultFactory 0 ⟨[], .ok⟩, .set 0 2, .addFactory 0 ⟨[], .fail⟩]) 0).2
    = .inst (.given 2) := by decide

/-- `Block` folds the default instances in with a `range` over a Go map, whose order is unspecified.
In whatever order the loop visits the keys (any list containing every key of `defaultInstances`),
the outcome is the same — the point-wise `block` of the model. -/
theorem block_order_irrelevant (s : St) (order : List Name)
    (hall : ∀ k, s.defaultInstances k ≠ none → k ∈ order) : blockLoop s order = block s :=
  blockLoop_eq_block s order hall

example : source (blockLoop (exec St.empty demoDefs) [4, 2, 0]) 2 = some (.inst (.given 7)) ∧
    source (blockLoop (exec St.empty demoDefs) [2, 2, 9]) 2 = some (.inst (.given 7)) := by decide

/-! ### the freeze -/

/-- After the first resolution (a `Get`, or an `InjectTo` with at least one field that carries the
provider's tag — successful or not) every definition call — `AddInjectors` included — is refused and
changes nothing, for the rest of the history. -/
theorem frozen_after_first_use (h1 h2 : List Op) (r o : Op) (hr : r.isResolution = true)
    (ho : o.isDef = true) :
    step (exec St.empty (h1 ++ r :: h2)) o = (exec St.empty (h1 ++ r :: h2), .refused) := by
  have hinv := inv_exec Inv.empty h1
  rw [exec_append]
  exact step_def_blocked
    ((grow_exec (inv_step hinv r) h2).blocked_mono (blocked_of_resolution hinv hr)) ho

example : (results St.empty (demoDefs ++ demoReqs))[12]? = some .refused := by decide

/-- … and `Keys` no longer changes. -/
theorem keys_frozen (h1 h2 : List Op) (r : Op) (hr : r.isResolution = true) :
    Keys (exec St.empty (h1 ++ r :: h2)) = Keys (exec St.empty (h1 ++ [r])) := by
  have hinv := inv_exec Inv.empty h1
  rw [exec_append, exec_append]
  exact (grow_exec (inv_step hinv r) h2).keys_frozen (blocked_of_resolution hinv hr)

/-! ### failure is safe -/

/-- The strongest statement.  Take any history `h` and let `s0` be its state after `Block` (the
definitions in force).  After any continuation `h'` that defines nothing new (it contains no
definition call, or `h` had already resolved something so that they are all refused), a `Get n` from
outside succeeds if and only if `n` is `Good` in `s0` — an inductive predicate on the definitions
alone: an instance, or a factory that returns an object and whose required dependencies are `Good`.
So no request in `h'` — failed, cyclic, optional-and-missing, or successful — changes the outcome
of any other or later request. -/
theorem outcome_history_independent (h h' : List Op) (n : Name)
    (hcond : (∀ o, o ∈ h' → o.isDef = false) ∨ (exec St.empty h).blocked = true) :
    (Get (exec St.empty (h ++ h')) n).2.isInst = true ↔ Good (block (exec St.empty h)) n := by
  have hinv := inv_exec Inv.empty h
  rw [exec_append]
  exact Get_iff_good (inv_exec hinv h')
    (rel_exec h' _ hinv (Rel.refl (block_blocked _) (by rw [block_callstack]; exact hinv.stack)) hcond) n

example : (Get (exec St.empty (demoDefs ++ [.get 1, .get 3, .injectTo [.own 1 true, .own 0 false], .get 6])) 0).2.isInst
    = true := by decide

/-- Spelled out: two request histories after the same definitions give every name the same outcome. -/
theorem answers_independent_of_requests (h r1 r2 : List Op) (n : Name)
    (h1 : ∀ o, o ∈ r1 → o.isDef = false) (h2 : ∀ o, o ∈ r2 → o.isDef = false) :
    (Get (exec St.empty (h ++ r1)) n).2.isInst = (Get (exec St.empty (h ++ r2)) n).2.isInst := by
  have a := outcome_history_independent h r1 n (Or.inl h1)
  have b := outcome_history_independent h r2 n (Or.inl h2)
  cases ha : (Get (exec St.empty (h ++ r1)) n).2.isInst <;>
    cases hb : (Get (exec St.empty (h ++ r2)) n).2.isInst <;> simp_all

/-- A set of names each of which is defined by a factory with a *required* dependency (`Dep.eff`: the
name an edge really asks for and whether it tolerates a failure) inside the set
(every required cycle is one, so is everything that requires its way into a cycle): a `Get` of any
member from outside returns an error — it does not recurse forever (`get` is total and
`fuel_sufficient` holds for the history extended by this request) and the error is a real answer,
not the fuel marker. -/
theorem cycle_is_error (h h' : List Op) (cyc : List Name)
    (hcond : (∀ o, o ∈ h' → o.isDef = false) ∨ (exec St.empty h).blocked = true)
    (hc : ∀ c, c ∈ cyc → ∃ f d m, source (block (exec St.empty h)) c = some (.fac f) ∧ d ∈ f.deps ∧
      d.eff = some (m, false) ∧ m ∈ cyc)
    (c : Name) (hmem : c ∈ cyc) :
    ∃ e, (Get (exec St.empty (h ++ h')) c).2 = .err e ∧ e ≠ .fuel := by
  have hng : ¬ Good (block (exec St.empty h)) c := fun hg => not_good_of_closed hc hg hmem
  have hiff := outcome_history_independent h h' c hcond
  have hinv := inv_exec Inv.empty (h ++ h')
  cases hres : (Get (exec St.empty (h ++ h')) c).2 with
  | inst i => rw [hres] at hiff; exact absurd (hiff.1 rfl) hng
  | err e =>
    refine ⟨e, rfl, ?_⟩
    intro he
    subst he
    have hf : fuelFor (exec St.empty (h ++ h')) = (exec St.empty (h ++ h')).keys.length + 1 := by
      simp [fuelFor, hinv.stack]
    unfold Get at hres
    rw [hf] at hres
    exact get_succ_ne_fuel _ _ _ hres

example : (Get (exec St.empty demoDefs) 4).2 = .err .failed ∧
    (∀ c, c ∈ ([3, 4, 5] : List Name) → ∃ f d m, source (block (exec St.empty demoDefs)) c = some (.fac f) ∧
      d ∈ f.deps ∧ d.eff = some (m, false) ∧ m ∈ ([3, 4, 5] : List Name)) := by
  refine ⟨by decide, ?_⟩
  intro c hc
  simp only [List.mem_cons, List.not_mem_nil, or_false] at hc
  rcases hc with rfl | rfl | rfl
  · exact ⟨⟨[⟨4, false, false⟩], .ok⟩, ⟨4, false, false⟩, 4, by decide, by decide, by decide, by decide⟩
  · exact ⟨⟨[⟨5, false, true⟩], .ok⟩, ⟨5, false, true⟩, 5, by decide, by decide, by decide, by decide⟩
  · exact ⟨⟨[⟨3, false, false⟩], .ok⟩, ⟨3, false, false⟩, 3, by decide, by decide, by decide, by decide⟩

/-- The literal form: `cyc[0] → cyc[1] → … → cyc[len-1] → cyc[0]` by required edges. -/
theorem required_cycle_is_error (h h' : List Op) (cyc : List Name)
    (hcond : (∀ o, o ∈ h' → o.isDef = false) ∨ (exec St.empty h).blocked = true)
    (hc : ∀ (k : Nat) (hk : k < cyc.length), ∃ f d,
      source (block (exec St.empty h)) cyc[k] = some (.fac f) ∧ d ∈ f.deps ∧
      d.eff = some (cyc[(k + 1) % cyc.length]'(Nat.mod_lt _ (Nat.zero_lt_of_lt hk)), false))
    (c : Name) (hmem : c ∈ cyc) :
    ∃ e, (Get (exec St.empty (h ++ h')) c).2 = .err e ∧ e ≠ .fuel := by
  refine cycle_is_error h h' cyc hcond ?_ c hmem
  intro x hx
  obtain ⟨k, hk, rfl⟩ := List.mem_iff_getElem.1 hx
  obtain ⟨f, d, h1, h2, h3⟩ := hc k hk
  exact ⟨f, d, _, h1, h2, h3, List.getElem_mem _⟩

/-! ## the extended operation set

Example material: two `AddInjectors` calls (a map injector for the provider's own tag name `0`, a
multi injector holding a data-scope injector for tag name `1` and the nil injector; later a second
map injector for tag name `0`), a factory with an optional `InjectTo` edge, an object, a `nil`
definition, a definition whose name is `?1` and one whose name is empty. -/

def extDefs : List Op :=
  [ .addInjectors [.map 0 [(2, .given 50)], .multi [.scope 1 [(7, .given 51), (8, .nil)], .nop]],
    .addFactory 0 ⟨[⟨1, true, true⟩], .ok⟩,
    .set 2 5,
    .setNil 3,
    .addInjectors [.map 0 [(2, .given 52), (4, .nil)]],
    .set (Name.opt 1) 6,
    .set Name.empty 9 ]

/-- the struct `{ A `dependency:"?0"`; B `dependency:"2"`; C `dependency:"?9" t1:"7"`; D `t1:"?8"` }` -/
def extFields : List Field :=
  [ .own 0 true, .own 2 false, ⟨[(0, Name.opt 9), (1, 7)]⟩, ⟨[(1, Name.opt 8)]⟩ ]

/-! ### extra injectors -/

/-- The registered injectors never touch the provider: the state after an `InjectTo` — tables, log of
factory invocations — is the state after the provider's own loop.  A field tagged `n` (or `?n`) of an
`InjectTo` that returned no error holds the field-wise reading of the injectors applied to the
singleton `i`: the singleton itself unless a registered injector has a value for that field
(`extra_injector_order` says which). -/
theorem injectors_do_not_break_singletons (h h' : List Op) (n : Name) (i : Inst)
    (hg : (Get (exec St.empty h) n).2 = .inst i) (hnil : i ≠ .nil)
    (fs : List Field) (k : Nat) (fld : Field) (opt : Bool) (hk : fs[k]? = some fld)
    (hname : fld.dep = some (n, opt)) :
    (InjectTo (exec St.empty (h ++ .get n :: h')) fs).1 = (InjectOwn (exec St.empty (h ++ .get n :: h')) fs).1 ∧
    ((InjectTo (exec St.empty (h ++ .get n :: h')) fs).2.2 = none →
      (InjectTo (exec St.empty (h ++ .get n :: h')) fs).2.1[k]? =
        some (pickAll (exec St.empty (h ++ .get n :: h')).injectors fld (some i))) ∧
    ((InjectTo (exec St.empty (h ++ .get n :: h')) fs).2.2 = none →
      pickAll (exec St.empty (h ++ .get n :: h')).injectors fld (some i) = some i →
      (InjectTo (exec St.empty (h ++ .get n :: h')) fs).2.1[k]? = some (some i)) := by
  have hinv := inv_exec Inv.empty (h ++ .get n :: h')
  have key : (InjectTo (exec St.empty (h ++ .get n :: h')) fs).2.2 = none →
      (InjectTo (exec St.empty (h ++ .get n :: h')) fs).2.1[k]? =
        some (pickAll (exec St.empty (h ++ .get n :: h')).injectors fld (some i)) := by
    intro hok
    have hown := own_ok_of_InjectTo_ok hok
    have hlen := injectFields_length_ok (g := get (fuelFor (exec St.empty (h ++ .get n :: h')))) fs _ hown
    have hlt : k < fs.length := (List.getElem?_eq_some_iff.1 hk).1
    obtain ⟨v, hv⟩ : ∃ v, (InjectOwn (exec St.empty (h ++ .get n :: h')) fs).2.1[k]? = some v :=
      ⟨_, List.getElem?_eq_getElem (by unfold InjectOwn; rw [hlen]; exact hlt)⟩
    have := singleton_inject h h' n i hg hnil fs k fld opt v hk hname hv
    subst this
    rw [InjectTo_pick hinv fs hok k fld hk, hv]
    rfl
  exact ⟨InjectTo_fst _ fs, key, fun hok hp => by rw [key hok, hp]⟩

example : (results St.empty (extDefs ++ [.get 0, .injectTo extFields])).getLast? =
    some (.injected [some (.built 0), some (.given 52), some (.given 51), none] none) := by decide

/- an injector registered for the provider's own tag name must know every REQUIRED field of the struct:
here the first map injector has no value for `0` and stops the call (the provider's loop has run) -/
example : (results St.empty (extDefs ++ [.get 0, .injectTo [.own 0 false, .own 2 false]])).getLast? =
    some (.injected [some (.built 0), some (.given 5)] (some (.injector 0))) := by decide

/-- Which source wins.  After an `InjectTo` that returned no error every field holds: what the
provider's own loop stored, overwritten by each registered injector that has a value for the field
(under ITS tag name), in registration order — so the last registered injector with a value wins, and
any injector with a value beats the provider. -/
theorem extra_injector_order (h : List Op) (fs : List Field) (k : Nat) (fld : Field)
    (hk : fs[k]? = some fld) (hok : (InjectTo (exec St.empty h) fs).2.2 = none) :
    (InjectTo (exec St.empty h) fs).2.1[k]? =
      some (pickAll (exec St.empty h).injectors fld ((InjectOwn (exec St.empty h) fs).2.1[k]?.join)) :=
  InjectTo_pick (inv_exec Inv.empty h) fs hok k fld hk

example : (exec St.empty extDefs).injectors =
    [.map 0 [(2, .given 50)], .multi [.scope 1 [(7, .given 51), (8, .nil)], .nop], .map 0 [(2, .given 52), (4, .nil)]] ∧
    pickAll (exec St.empty extDefs).injectors (.own 2 false) (some (.given 5)) = some (.given 52) := by
  constructor <;> rfl

/-- … spelled out: the injector registered last is applied last, and a map injector that has an object
for the field's key stores it whatever the field held. -/
theorem extra_injector_last_wins (l : List Injector) (t : TagName) (data : List (Name × Inst)) (fld : Field)
    (cur : Option Inst) (key : Name) (o : Bool) (x : Inst) (hp : parseTag (fld.raw t) = some (key, o))
    (hl : lookupData data key = some x) (hx : x ≠ .nil) :
    pickAll (l ++ [.map t data]) fld cur = some x := by
  rw [pickAll_append]
  simp [pickAll, Injector.pick, leafPick, hp, hl, hx]

example : parseTag ((Field.own 2 false).raw 0) = some (2, false) ∧ lookupData [(2, Inst.given 52), (4, .nil)] 2 = some (.given 52) := by
  decide

/-- `AddInjectors` appends (before the first resolution; afterwards it is refused by `frozen_after_first_use`). -/
theorem add_injectors_appends (s : St) (l : List Injector) (hb : s.blocked = false) :
    step s (.addInjectors l) = ({ s with injectors := s.injectors ++ l }, .ok) := by
  simp [step, accepted, addInjectors, hb]

example : (step St.empty (.addInjectors [.nop, .map 0 []])).1.injectors = [.nop, .map 0 []] := rfl

/-- … and after the first resolution the list of injectors never changes. -/
theorem injectors_frozen (h1 h2 : List Op) (r : Op) (hr : r.isResolution = true) :
    (exec St.empty (h1 ++ r :: h2)).injectors = (exec St.empty (h1 ++ [r])).injectors := by
  have hinv := inv_exec Inv.empty h1
  rw [exec_append, exec_append]
  exact (grow_exec (inv_step hinv r) h2).inj_frozen (blocked_of_resolution hinv hr)

example : (results St.empty (extDefs ++ [.get 0, .addInjectors [.nop]])).getLast? = some .refused := by decide

/-! ### the static provider -/

/-- For every provider state reached by any history, every order in which `NewStaticProvider` may
range over the factory map (any list containing every key), and every further history `rs` without
`Keys`: the static provider answers exactly like the original after `Block` — the same results
(accepted/refused, instances, injected structs, errors), and the same log of factory invocations, so
no factory runs that the original would not run and none runs twice. -/
theorem static_provider_agrees (h : List Op) (order : List Name) (rs : List Op)
    (hord : ∀ n, mergedFactories (block (exec St.empty h)) n ≠ none → n ∈ order)
    (hk : ∀ o, o ∈ rs → o.isKeys = false) :
    results (toStatic (exec St.empty h) order) rs = results (block (exec St.empty h)) rs ∧
    (exec (toStatic (exec St.empty h) order) rs).log = (exec (block (exec St.empty h)) rs).log ∧
    (exec (toStatic (exec St.empty h) order) rs).instances = (exec (block (exec St.empty h)) rs).instances := by
  have hinv := inv_exec Inv.empty h
  obtain ⟨r1, r2⟩ := results_sim rs _ _ (sim_toStatic hinv order) hinv.block (inv_toStatic hinv order hord) hk
  exact ⟨r1.symm, r2.log, r2.instances⟩

example : results (toStatic (exec St.empty demoDefs) [6, 5, 4, 3, 2, 1, 0]) (demoReqs.filter fun o => !o.isKeys) =
    results (block (exec St.empty demoDefs)) (demoReqs.filter fun o => !o.isKeys) := by decide

/-- Where it differs: `Keys` of a static provider lists the names that have a factory (explicit or
default) in the order of the `range`, not the names defined by an instance only; it never changes. -/
theorem static_provider_keys (h : List Op) (order : List Name) (rs : List Op)
    (hord : ∀ n, mergedFactories (block (exec St.empty h)) n ≠ none → n ∈ order) :
    Keys (exec (toStatic (exec St.empty h) order) rs) =
      order.filter fun k => (mergedFactories (block (exec St.empty h)) k).isSome := by
  have hinv := inv_toStatic (inv_exec Inv.empty h) order hord
  exact (grow_exec hinv rs).keys_frozen rfl

example : Keys (toStatic (exec St.empty demoDefs) [6, 5, 4, 3, 2, 1, 0]) = [6, 5, 4, 3, 1, 0] ∧
    Keys (toStatic (exec St.empty extDefs) (Keys (exec St.empty extDefs))) = [0] ∧
    Keys (exec St.empty extDefs) = [0, 2, 3, Name.opt 1, Name.empty] := by decide

/-- A static provider refuses every definition call and `AddInjectors`, from the start and for ever. -/
theorem static_provider_frozen (h : List Op) (order : List Name) (rs : List Op) (o : Op)
    (hord : ∀ n, mergedFactories (block (exec St.empty h)) n ≠ none → n ∈ order) (ho : o.isDef = true) :
    step (exec (toStatic (exec St.empty h) order) rs) o =
      (exec (toStatic (exec St.empty h) order) rs, .refused) :=
  step_def_blocked (blocked_exec (inv_toStatic (inv_exec Inv.empty h) order hord) rfl rs) ho

example : results (toStatic (exec St.empty demoDefs) [6, 5, 4, 3, 2, 1, 0]) [.set 9 1, .get 0, .addInjectors []] =
    [.refused, .got (.inst (.built 0)), .refused] := by decide

/-- … and keeps the guarantees of the original for any history run on it: the stack is empty after
every request, the fuel suffices, no name is built twice, nothing is re-run after it delivered. -/
theorem static_provider_safe (h : List Op) (order : List Name) (rs : List Op)
    (hord : ∀ n, mergedFactories (block (exec St.empty h)) n ≠ none → n ∈ order) :
    (exec (toStatic (exec St.empty h) order) rs).callstack = [] ∧
    (exec (toStatic (exec St.empty h) order) rs).exhausted = false ∧
    (successes (exec (toStatic (exec St.empty h) order) rs).log).Nodup ∧
    NoRerun (exec (toStatic (exec St.empty h) order) rs).log := by
  have hinv := inv_exec (inv_toStatic (inv_exec Inv.empty h) order hord) rs
  exact ⟨hinv.stack, hinv.notex, hinv.nodup, hinv.norerun⟩

example : (exec (toStatic (exec St.empty demoDefs) [6, 5, 4, 3, 2, 1, 0]) demoReqs).callstack = [] ∧
    successes (exec (toStatic (exec St.empty demoDefs) [6, 5, 4, 3, 2, 1, 0]) demoReqs).log = [0, 6] := by decide

/-- the order the driver uses (`Keys` of the original) lists every key of the factory map -/
theorem static_order_keys (h : List Op) (n : Name)
    (hn : mergedFactories (block (exec St.empty h)) n ≠ none) : n ∈ Keys (exec St.empty h) := by
  have hinv := (inv_exec Inv.empty h).block
  have hk : (block (exec St.empty h)).keys = (exec St.empty h).keys := block_keys _
  unfold Keys
  rw [← hk]
  cases hm : mergedFactories (block (exec St.empty h)) n with
  | none => exact absurd hm hn
  | some f => exact merged_keys hinv.fuelOK hm

/- so the hypothesis `hord` of the four theorems above is satisfiable for every history -/
example : ∀ n, mergedFactories (block (exec St.empty demoDefs)) n ≠ none → n ∈ Keys (exec St.empty demoDefs) :=
  static_order_keys demoDefs

/-! ### nil definitions -/

/-- `Set(n, nil)` and `SetDefault(n, nil)` are accepted under exactly the conditions under which an
object is, and define the name (it is listed by `Keys`, it blocks later definitions of the same kind). -/
theorem nil_definition_accepted (s : St) (n : Name) (v : Nat) :
    (step s (.setNil n)).2 = (step s (.set n v)).2 ∧
    (step s (.setNil n)).1.keys = (step s (.set n v)).1.keys ∧
    (step s (.setDefaultNil n)).2 = (step s (.setDefault n v)).2 ∧
    (step s (.setDefaultNil n)).1.keys = (step s (.setDefault n v)).1.keys := by
  refine ⟨?_, ?_, ?_, ?_⟩
  · cases h0 : s.blocked <;> cases h1 : (s.instances n).isSome <;> cases h2 : (s.factories n).isSome <;>
      simp [step, accepted, DI.set, h0, h1, h2]
  · cases h0 : s.blocked <;> cases h1 : (s.instances n).isSome <;> cases h2 : (s.factories n).isSome <;>
      simp [step, accepted, DI.set, h0, h1, h2]
  · cases h0 : s.blocked <;> cases h1 : (s.defaultInstances n).isSome <;>
      cases h2 : (s.defaultFactories n).isSome <;> simp [step, accepted, setDefault, h0, h1, h2]
  · cases h0 : s.blocked <;> cases h1 : (s.defaultInstances n).isSome <;>
      cases h2 : (s.defaultFactories n).isSome <;> simp [step, accepted, setDefault, h0, h1, h2]

example : results St.empty [.setNil 3, .setNil 3, .set 3 1, .setDefaultNil 3, .keys] =
    [.ok, .refused, .refused, .ok, .keys [3]] := by decide

/-- A name whose definition in force is `nil`: `Get` answers `nil` without an error, now and for ever. -/
theorem nil_definition_returned (defs h' : List Op) (n : Name)
    (hd : ∀ o, o ∈ defs → o.isDef = true) (he : firstExplicit n defs = some (.inst .nil)) :
    (Get (exec St.empty defs) n).2 = .inst .nil ∧
    (Get (exec St.empty (defs ++ .get n :: h')) n).2 = .inst .nil :=
  ⟨explicit_instance_returned defs n .nil hd he,
   singleton defs h' n .nil (explicit_instance_returned defs n .nil hd he)⟩

example : firstExplicit 3 extDefs = some (.inst .nil) ∧ (Get (exec St.empty extDefs) 3).2 = .inst .nil := by decide

/-- … but `InjectTo` refuses to store it: a field that names it — required or OPTIONAL — stops the
call with an error; that field and every later one stay untouched and no injector runs. -/
theorem nil_definition_inject_refused (h h' : List Op) (n : Name)
    (hg : (Get (exec St.empty h) n).2 = .inst .nil)
    (fld : Field) (opt : Bool) (hd : fld.dep = some (n, opt)) (rest : List Field) :
    (InjectTo (exec St.empty (h ++ .get n :: h')) (fld :: rest)).2 =
      (pad (rest.length + 1) [], some .nilDependency) := by
  have hinv := inv_exec Inv.empty h
  have h1 : (step (exec St.empty h) (.get n)).1.instances n = some .nil := get_inst hg
  have h2 : (exec St.empty (h ++ .get n :: h')).instances n = some .nil := by
    rw [exec_append]
    exact (grow_exec (inv_step hinv _) h').inst_mono n _ h1
  exact InjectTo_nil_head (inv_exec Inv.empty _) hd h2 rest

example : (results St.empty (extDefs ++ [.get 3, .injectTo [.own 3 true, .own 2 false]])).getLast? =
    some (.injected [none, none] (some .nilDependency)) := by decide

/-! ### names and tags as text -/

/-- The tag handling, exactly: `?n` is the optional request for `n` (one `?` is stripped, not more),
the empty tag skips the field, any other tag is the required request for itself.  Hence a required
request is never for the empty name nor for a name beginning with `?`. -/
theorem optional_prefix_exact :
    (∀ n : Name, parseTag n.opt = some (n, true)) ∧
    parseTag Name.empty = none ∧
    (∀ (c : Nat) (cs : List Nat), c ≠ qmark → parseTag ⟨c :: cs⟩ = some (⟨c :: cs⟩, false)) ∧
    (∀ raw n : Name, parseTag raw = some (n, false) → raw = n ∧ ∃ c cs, n.chars = c :: cs ∧ c ≠ qmark) := by
  refine ⟨fun n => by simp [parseTag, Name.opt], rfl, fun c cs hc => by simp [parseTag, hc], ?_⟩
  intro raw n h
  obtain ⟨chars⟩ := raw
  cases chars with
  | nil => simp [parseTag] at h
  | cons c cs =>
    by_cases hc : c = qmark
    · simp [parseTag, hc] at h
    · simp only [parseTag, hc, if_false, Option.some.injEq, Prod.mk.injEq, and_true] at h
      subst h
      exact ⟨rfl, c, cs, rfl, hc⟩

example : parseTag (Name.opt (Name.opt 1)) = some (Name.opt 1, true) ∧ parseTag (Name.opt Name.empty) = some (Name.empty, true) := by
  decide

/-- A definition whose name is empty or begins with `?` is an ordinary definition for `Get` (which
uses its argument literally — `explicit_wins` and all the other theorems quantify over such names
too), but a struct field reaches it only as an OPTIONAL dependency, through the tag `?` + its name. -/
theorem question_names_reachable_only_optionally (fld : Field) (n : Name) (o : Bool)
    (h : fld.dep = some (n, o)) (hq : n = Name.empty ∨ ∃ m : Name, n = m.opt) :
    o = true ∧ fld.raw ownTag = n.opt := by
  unfold Field.dep at h
  generalize fld.raw ownTag = raw at h
  obtain ⟨chars⟩ := raw
  cases chars with
  | nil => simp [parseTag] at h
  | cons c cs =>
    by_cases hc : c = qmark
    · simp only [parseTag, hc, if_true, Option.some.injEq, Prod.mk.injEq] at h
      obtain ⟨h1, h2⟩ := h
      subst h1; subst h2
      exact ⟨rfl, by simp [Name.opt, hc]⟩
    · simp only [parseTag, hc, if_false, Option.some.injEq, Prod.mk.injEq] at h
      obtain ⟨h1, _⟩ := h
      subst h1
      rcases hq with hq | ⟨m, hq⟩
      · simp [Name.empty] at hq
      · simp only [Name.opt, Name.mk.injEq, List.cons.injEq] at hq
        exact absurd hq.1 hc

example : (Get (exec St.empty extDefs) (Name.opt 1)).2 = .inst (.given 6) ∧
    (Get (exec St.empty extDefs) Name.empty).2 = .inst (.given 9) ∧
    (InjectTo (exec St.empty extDefs) [.own (Name.opt 1) true, .own Name.empty true, .own (Name.opt 1) false]).2 =
      ([some (.given 6), some (.given 9), none], none) := by decide

/-! ### panics -/

/-- The only call of the extended operation set that panics is an `InjectTo` whose argument is not a
pointer to a struct (the reflection calls panic before the provider is touched); it leaves the
provider as it was.  Everything else — `nil` definitions, empty and `?` names, any injector data, any
static provider — answers. -/
theorem no_panic (s : St) (o : Op) :
    ((step s o).2 = .panic ↔ o = .injectBad) ∧ (step s .injectBad).1 = s :=
  ⟨step_panic_iff s o, rfl⟩

example : (step (exec St.empty extDefs) .injectBad).2 = .panic := rfl

/-- … for whole histories, from any state (a static provider included). -/
theorem no_panic_history (s : St) (h : List Op) : .panic ∈ results s h ↔ .injectBad ∈ h :=
  results_panic_iff h s

example : results St.empty (extDefs ++ [.injectBad, .get 0]) =
    results St.empty extDefs ++ [.panic, .got (.inst (.built 0))] := by decide

end Goat.C10
