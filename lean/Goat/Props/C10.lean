/-
C10 — dependency container: lazy singletons, fixed precedence, safe failure.

Theorems about `Goat/Model/DI.lean` (the mirror of `/repo/app/dependency/provider.go`).  A history is
any `List Op` — `Set`/`SetDefault`/`AddFactory`/`AddDefaultFactory`/`Get`/`InjectTo`/`Keys` in any
order and number, factories with any dependency lists — run from `NewProvider` (`St.empty`);
`exec` is the state after it, `Get`/`InjectTo` are the calls from outside.  Nothing is bounded.
Helper lemmas are in `Goat/Proofs/DI*.lean`.
-/
import Goat.Proofs.DIGood
import Goat.Proofs.DIPrec
import Goat.Proofs.DIBlock

namespace Goat.C10
open Goat.DI

/-! Example material: `0` needs `1` optionally and `2` by injection, `1` fails, `2` is a default
instance shadowed by nothing; `3 → 4 → 5 → 3` is a required cycle, `6` needs the cycle optionally. -/

def demoDefs : List Op :=
  [ .addFactory 0 ⟨[⟨1, true, false⟩, ⟨2, false, true⟩], .ok⟩,
    .addFactory 1 ⟨[], .fail⟩,
    .setDefault 2 7,
    .addDefaultFactory 2 ⟨[], .ok⟩,
    .addFactory 3 ⟨[⟨4, false, false⟩], .ok⟩,
    .addDefaultFactory 4 ⟨[⟨5, false, true⟩], .ok⟩,
    .addFactory 5 ⟨[⟨3, false, false⟩], .ok⟩,
    .addFactory 6 ⟨[⟨3, true, false⟩], .ok⟩ ]

def demoReqs : List Op :=
  [ .get 1, .get 3, .injectTo [⟨1, true⟩, ⟨0, false⟩], .get 6, .set 9 1, .keys ]

/-! ### termination and the resolution stack -/

/-- The recursion of `Get` through the factories never runs out of fuel: `get 0` (the only place
that sets `exhausted`) is never reached, after any history.  This is the termination proof of the
model — the fuel `|keys| + 1` given to a request is always enough. -/
theorem fuel_sufficient (h : List Op) : (exec St.empty h).exhausted = false :=
  (inv_exec Inv.empty h).notex

example : (exec St.empty (demoDefs ++ demoReqs)).exhausted = false := by decide

/-- After every history — whatever failed in it — the resolution stack is empty again. -/
theorem stack_clean (h : List Op) : (exec St.empty h).callstack = [] :=
  (inv_exec Inv.empty h).stack

example : (results St.empty (demoDefs ++ demoReqs)).getLast? = some (.keys [0, 1, 2, 3, 4, 5, 6]) ∧
    (exec St.empty (demoDefs ++ demoReqs)).callstack = [] := by decide

/-! ### lazy singletons -/

/-- No name's factory delivers an instance twice. -/
theorem at_most_one_success (h : List Op) : (successes (exec St.empty h).log).Nodup :=
  (inv_exec Inv.empty h).nodup

example : successes (exec St.empty (demoDefs ++ demoReqs)).log = [0, 6] := by decide

/-- Once the factory of `n` has delivered, it is never started again (position-wise in the log of
all factory invocations, nested ones included). -/
theorem never_rerun_after_instance (h : List Op) (pre post : List Ev) (n : Name) (i : Inst)
    (hl : (exec St.empty h).log = pre ++ Ev.done n i :: post) : Ev.start n ∉ post :=
  noRerun_split (inv_exec Inv.empty h).norerun hl

example : (exec St.empty (demoDefs ++ demoReqs)).log =
    [.start 1, .start 3, .start 4, .start 5, .start 1, .start 0, .start 1] ++ Ev.done 0 (.built 0) ::
      [.start 6, .start 3, .start 4, .start 5, .done 6 (.built 1)] := by decide

/-- A name that has an instance (set, promoted default, or built) never has its factory invoked
again, whatever happens afterwards. -/
theorem never_invoked_with_instance (h h' : List Op) (n : Name)
    (hi : (exec St.empty h).instances n ≠ none) :
    invocations n (exec St.empty (h ++ h')).log = invocations n (exec St.empty h).log := by
  rw [exec_append]
  exact (grow_exec (inv_exec Inv.empty h) h').invocations_eq hi

example : (exec St.empty (demoDefs ++ [.get 0])).instances 0 ≠ none ∧
    invocations 0 (exec St.empty (demoDefs ++ [.get 0] ++ demoReqs)).log = 1 := by decide

/-- Once a `Get n` has answered `i`, every later `Get n` answers `i`. -/
theorem singleton (h h' : List Op) (n : Name) (i : Inst)
    (hg : (Get (exec St.empty h) n).2 = .inst i) :
    (Get (exec St.empty (h ++ .get n :: h')) n).2 = .inst i := by
  have hinv := inv_exec Inv.empty h
  rw [exec_append]
  have h1 : (step (exec St.empty h) (.get n)).1.instances n = some i := get_inst hg
  exact Get_of_inst (inv_exec (inv_step hinv _) h')
    ((grow_exec (inv_step hinv _) h').inst_mono n i h1)

example : (Get (exec St.empty demoDefs) 0).2 = .inst (.built 0) := by decide

/-- … and every later injection stores `i` into each field tagged `n` that it reaches. -/
theorem singleton_inject (h h' : List Op) (n : Name) (i : Inst)
    (hg : (Get (exec St.empty h) n).2 = .inst i)
    (fs : List Field) (k : Nat) (fld : Field) (v : Option Inst) (hk : fs[k]? = some fld)
    (hname : fld.name = n) (hv : (InjectTo (exec St.empty (h ++ .get n :: h')) fs).2.1[k]? = some v) :
    v = some i := by
  have hinv := inv_exec Inv.empty h
  rw [exec_append] at hv
  have h1 : (step (exec St.empty h) (.get n)).1.instances n = some i := get_inst hg
  exact InjectTo_of_inst (inv_exec (inv_step hinv _) h')
    ((grow_exec (inv_step hinv _) h').inst_mono n i h1) fs k fld v hk hname hv

example : (InjectTo (exec St.empty (demoDefs ++ .get 0 :: demoReqs)) [⟨2, false⟩, ⟨0, true⟩]).2.1 =
    [some (.given 7), some (.built 0)] := by decide

/-- The same when the first answer was an injected field: what a field received is what every later
`Get` of that name answers. -/
theorem singleton_from_inject (h h' : List Op) (fs : List Field) (k : Nat) (fld : Field) (i : Inst)
    (hk : fs[k]? = some fld) (hv : (InjectTo (exec St.empty h) fs).2.1[k]? = some (some i)) :
    (Get (exec St.empty (h ++ .injectTo fs :: h')) fld.name).2 = .inst i := by
  have hinv := inv_exec Inv.empty h
  rw [exec_append]
  have h1 : (step (exec St.empty h) (.injectTo fs)).1.instances fld.name = some i :=
    InjectTo_val_inst hinv fs k fld i hk hv
  exact Get_of_inst (inv_exec (inv_step hinv _) h')
    ((grow_exec (inv_step hinv _) h').inst_mono _ i h1)

example : (InjectTo (exec St.empty demoDefs) [⟨1, true⟩, ⟨0, false⟩]).2.1[1]? = some (some (.built 0)) := by
  decide

/-! ### precedence -/

/-- After any sequence of definition calls — any order, any duplicates, any mix of the four kinds,
for any names — the definition `Get` uses for `n` (instances, then factories, then default
factories, after `Block`) is the first explicit definition of `n` in the sequence if there is one,
and the first default definition of `n` otherwise. -/
theorem explicit_wins (defs : List Op) (n : Name) (hd : ∀ o, o ∈ defs → o.isDef = true) :
    source (block (exec St.empty defs)) n = orElse (firstExplicit n defs) (firstDefault n defs) :=
  source_after_defs defs n hd

example : source (block (exec St.empty demoDefs)) 2 = some (.inst (.given 7)) := by decide

/-- In particular an explicit definition beats every default one wherever it stands. -/
theorem explicit_beats_default (defs : List Op) (n : Name) (src : Src)
    (hd : ∀ o, o ∈ defs → o.isDef = true) (he : firstExplicit n defs = some src) :
    source (block (exec St.empty defs)) n = some src := by
  rw [explicit_wins defs n hd, he]; rfl

example : firstExplicit 0 [.setDefault 0 1, .addDefaultFactory 0 ⟨[], .ok⟩, .addFactory 0 ⟨[], .fail⟩, .set 0 2]
    = some (.fac ⟨[], .fail⟩) := by decide

/-- An explicitly set object is what `Get` returns, whatever defaults were registered before or after. -/
theorem explicit_instance_returned (defs : List Op) (n : Name) (v : Nat)
    (hd : ∀ o, o ∈ defs → o.isDef = true) (he : firstExplicit n defs = some (.inst (.given v))) :
    (Get (exec St.empty defs) n).2 = .inst (.given v) :=
  Get_of_block_inst (inv_exec Inv.empty defs) (source_inst (explicit_beats_default defs n _ hd he))

example : (Get (exec St.empty [.setDefault 0 1, .addDefaultFactory 0 ⟨[], .ok⟩, .set 0 2, .addFactory 0 ⟨[], .fail⟩]) 0).2
    = .inst (.given 2) := by decide

/-- `Block` folds the default instances in with a `range` over a Go map, whose order is unspecified.
In whatever order the loop visits the keys (any list containing every key of `defaultInstances`),
the outcome is the same — the point-wise `block` of the model. -/
theorem block_order_irrelevant (s : St) (order : List Name)
    (hall : ∀ k, s.defaultInstances k ≠ none → k ∈ order) : blockLoop s order = block s :=
  blockLoop_eq_block s order hall

example : source (blockLoop (exec St.empty demoDefs) [4, 2, 0]) 2 = some (.inst (.given 7)) ∧
    source (blockLoop (exec St.empty demoDefs) [2, 2, 9]) 2 = some (.inst (.given 7)) := by decide

/-! ### the freeze -/

/-- After the first resolution (a `Get`, or an `InjectTo` with at least one tagged field — successful
or not) every definition call is refused and changes nothing, for the rest of the history. -/
theorem frozen_after_first_use (h1 h2 : List Op) (r o : Op) (hr : r.isResolution = true)
    (ho : o.isDef = true) :
    step (exec St.empty (h1 ++ r :: h2)) o = (exec St.empty (h1 ++ r :: h2), .refused) := by
  have hinv := inv_exec Inv.empty h1
  rw [exec_append]
  exact step_def_blocked
    ((grow_exec (inv_step hinv r) h2).blocked_mono (blocked_of_resolution hinv hr)) ho

example : (results St.empty (demoDefs ++ demoReqs))[12]? = some .refused := by decide

/-- … and `Keys` no longer changes. -/
theorem keys_frozen (h1 h2 : List Op) (r : Op) (hr : r.isResolution = true) :
    Keys (exec St.empty (h1 ++ r :: h2)) = Keys (exec St.empty (h1 ++ [r])) := by
  have hinv := inv_exec Inv.empty h1
  rw [exec_append, exec_append]
  exact (grow_exec (inv_step hinv r) h2).keys_frozen (blocked_of_resolution hinv hr)

/-! ### failure is safe -/

/-- The strongest statement.  Take any history `h` and let `s0` be its state after `Block` (the
definitions in force).  After any continuation `h'` that defines nothing new (it contains no
definition call, or `h` had already resolved something so that they are all refused), a `Get n` from
outside succeeds if and only if `n` is `Good` in `s0` — an inductive predicate on the definitions
alone: an instance, or a factory that returns an object and whose required dependencies are `Good`.
So no request in `h'` — failed, cyclic, optional-and-missing, or successful — changes the outcome
of any other or later request. -/
theorem outcome_history_independent (h h' : List Op) (n : Name)
    (hcond : (∀ o, o ∈ h' → o.isDef = false) ∨ (exec St.empty h).blocked = true) :
    (Get (exec St.empty (h ++ h')) n).2.isInst = true ↔ Good (block (exec St.empty h)) n := by
  have hinv := inv_exec Inv.empty h
  rw [exec_append]
  exact Get_iff_good (inv_exec hinv h')
    (rel_exec h' _ hinv (Rel.refl (block_blocked _)) hcond) n

example : (Get (exec St.empty (demoDefs ++ [.get 1, .get 3, .injectTo [⟨1, true⟩, ⟨0, false⟩], .get 6])) 0).2.isInst
    = true := by decide

/-- Spelled out: two request histories after the same definitions give every name the same outcome. -/
theorem answers_independent_of_requests (h r1 r2 : List Op) (n : Name)
    (h1 : ∀ o, o ∈ r1 → o.isDef = false) (h2 : ∀ o, o ∈ r2 → o.isDef = false) :
    (Get (exec St.empty (h ++ r1)) n).2.isInst = (Get (exec St.empty (h ++ r2)) n).2.isInst := by
  have a := outcome_history_independent h r1 n (Or.inl h1)
  have b := outcome_history_independent h r2 n (Or.inl h2)
  cases ha : (Get (exec St.empty (h ++ r1)) n).2.isInst <;>
    cases hb : (Get (exec St.empty (h ++ r2)) n).2.isInst <;> simp_all

/-- A set of names each of which is defined by a factory with a *required* dependency inside the set
(every required cycle is one, so is everything that requires its way into a cycle): a `Get` of any
member from outside returns an error — it does not recurse forever (`get` is total and
`fuel_sufficient` holds for the history extended by this request) and the error is a real answer,
not the fuel marker. -/
theorem cycle_is_error (h h' : List Op) (cyc : List Name)
    (hcond : (∀ o, o ∈ h' → o.isDef = false) ∨ (exec St.empty h).blocked = true)
    (hc : ∀ c, c ∈ cyc → ∃ f d, source (block (exec St.empty h)) c = some (.fac f) ∧ d ∈ f.deps ∧
      d.optional = false ∧ d.name ∈ cyc)
    (c : Name) (hmem : c ∈ cyc) :
    ∃ e, (Get (exec St.empty (h ++ h')) c).2 = .err e ∧ e ≠ .fuel := by
  have hng : ¬ Good (block (exec St.empty h)) c := fun hg => not_good_of_closed hc hg hmem
  have hiff := outcome_history_independent h h' c hcond
  have hinv := inv_exec Inv.empty (h ++ h')
  cases hres : (Get (exec St.empty (h ++ h')) c).2 with
  | inst i => rw [hres] at hiff; exact absurd (hiff.1 rfl) hng
  | err e =>
    refine ⟨e, rfl, ?_⟩
    intro he
    subst he
    have hf : fuelFor (exec St.empty (h ++ h')) = (exec St.empty (h ++ h')).keys.length + 1 := by
      simp [fuelFor, hinv.stack]
    unfold Get at hres
    rw [hf] at hres
    exact get_succ_ne_fuel _ _ _ hres

example : (Get (exec St.empty demoDefs) 4).2 = .err .failed ∧
    (∀ c, c ∈ [3, 4, 5] → ∃ f d, source (block (exec St.empty demoDefs)) c = some (.fac f) ∧ d ∈ f.deps ∧
      d.optional = false ∧ d.name ∈ [3, 4, 5]) := by
  refine ⟨by decide, ?_⟩
  intro c hc
  simp only [List.mem_cons, List.not_mem_nil, or_false] at hc
  rcases hc with rfl | rfl | rfl
  · exact ⟨⟨[⟨4, false, false⟩], .ok⟩, ⟨4, false, false⟩, by decide, by decide, rfl, by decide⟩
  · exact ⟨⟨[⟨5, false, true⟩], .ok⟩, ⟨5, false, true⟩, by decide, by decide, rfl, by decide⟩
  · exact ⟨⟨[⟨3, false, false⟩], .ok⟩, ⟨3, false, false⟩, by decide, by decide, rfl, by decide⟩

/-- The literal form: `cyc[0] → cyc[1] → … → cyc[len-1] → cyc[0]` by required edges. -/
theorem required_cycle_is_error (h h' : List Op) (cyc : List Name)
    (hcond : (∀ o, o ∈ h' → o.isDef = false) ∨ (exec St.empty h).blocked = true)
    (hc : ∀ (k : Nat) (hk : k < cyc.length), ∃ f d,
      source (block (exec St.empty h)) cyc[k] = some (.fac f) ∧ d ∈ f.deps ∧ d.optional = false ∧
      d.name = cyc[(k + 1) % cyc.length]'(Nat.mod_lt _ (Nat.zero_lt_of_lt hk)))
    (c : Name) (hmem : c ∈ cyc) :
    ∃ e, (Get (exec St.empty (h ++ h')) c).2 = .err e ∧ e ≠ .fuel := by
  refine cycle_is_error h h' cyc hcond ?_ c hmem
  intro x hx
  obtain ⟨k, hk, rfl⟩ := List.mem_iff_getElem.1 hx
  obtain ⟨f, d, h1, h2, h3, h4⟩ := hc k hk
  exact ⟨f, d, h1, h2, h3, h4 ▸ List.getElem_mem _⟩

end Goat.C10
