/-
Property C11 — scope close protocol, stated over the transition system `Goat/Model/Scope.lean`.

  "Closing a scope fires before-close, waits until every task added to the scope is done and every
   child scope has itself been closed, then fires exactly one of the commit triple (the scope has no
   error at that moment) or the rollback triple (it has one), then after-close - each once, in that
   order - and reports an error if and only if the scope holds one at the end; closing twice is
   refused loudly rather than repeating the events.  An error or kill in a child that shares the
   parent's context fails the parent too, whereas a child with an isolated context fails alone but is
   still stopped when the parent stops."

Quantification.  `run sched` is the state after the schedule `sched : List Act`; acts that are not
enabled when their turn comes are skipped.  The acts build the trees (`new`, `child p iso`), register
the listeners (`on s ev fails`: a listener that returns nil or an error at once; `onGated s ev fails g`:
a listener of a close event that RUNS until gate `g` has been opened by `release g` and then returns
nil or an error), and are the calls of the property (`addTasks`, `doneTask`, `appErr`, `kill`, `stop`)
and the moves of the goroutines: of the watcher of an isolated context (`propagate`, `watcherExit`)
and of the goroutine running `Close`, whose program counter is `(st.scp s).phase`:
  opened ─close→ begun → closing ─pick→ t0 → t1 → t2 → after → signing → signed → finished
`close s` is the guard and the start of the BeforeClose trigger; `step s` is one step (a running
listener returns and the trigger goes on until it ends or parks in the next gated listener; the wait
ends — `pick`, enabled only when the wait group is zero —; a trigger starts; `parent.DoneTask()`;
return); `finish s` is the coarse act "the wait ends and the goroutine runs on until it parks or
returns" (with ungated listeners: the whole second half of `Close`).  While a goroutine is parked
inside a listener every other goroutine may act.  Every theorem is for every schedule (any length, any
interleaving, any number of trees of any depth, any listener set, gated or not).

Vocabulary (`Goat/Model/Scope.lean`, `Goat/Proofs/Scope*.lean`):
  `st.closeTrace s`   the close-protocol events scope `s` has fired (its own `Trigger` calls), in order
  `fullSeq rb`        beforeClose, the rollback (`rb`) or commit triple, afterClose
  `closeSeq ph rb pk` the first `ph.idx (+1 if pk)` events of `fullSeq rb`
  `st.hasErr s`       `len(s.Errors()) != 0`;   `st.isDone s`  `s.IsDone()`
  `(st.scp s).phase`  the program counter above; `.live` = not yet signed off; `.waited` = `Wait()` has returned
  `(st.scp s).park`   `some _` while the closing goroutine of `s` is inside a (gated) listener
  `(st.scp s).rolled` the branch chosen when the wait ended;  `(st.scp s).lfail`  a trigger of its `Close`
                      returned an error;  `(st.scp c).late`  `c` was created after its parent's wait had ended
  `(st.scp c).registered`  the child signed on with its parent (`NewChild` found the parent not done)
  `exec st a = some (st', o)`  act `a` is enabled in `st`, leads to `st'`, the call's outcome is `o`
  `IsPick st a s`      `a` ends the wait of `s`: `finish s`, or `step s` while `s` sits in `Wait()`
  `SharedLink st c p`  `c` is `p` or descends from `p` through children sharing their parent's context
  `Act.onScope a c`    `a` is `appErr c`, `kill c`, `stop c`, `close c`, `finish c` or `step c`

Domain of the model (see its header): `doneTask` only for an outstanding task; no child of a scope
that has signed off; `On` on an event scope waits while one of its listeners runs; only listeners of the
eight close events are gated.

Known finding KF-C11-1 (`close_waits_full_false`): a child created from a scope whose context is
already done does not sign on (`parent.AddTasks(1)` is refused), so the parent's `Close` does not
wait for it.  `close_waits_partial` proves the waiting clause for the tasks and for every child that
signed on, i.e. every child created while its parent was not done.  A child created after the wait
has ended (`late`; e.g. by a commit listener) cannot be waited for by any implementation; the
all-states form `child_afterclose_before_parent_triple` is about the children that existed then.
-/
import Goat.Proofs.ScopeClose
import Goat.Proofs.ScopeClosers

namespace Goat.C11

open Goat.Scope

/-! ### 1. Ordered events, each once -/

/-- In every reachable state the close events a scope has fired are exactly the first events of
beforeClose · triple · afterClose that its program counter accounts for (the triggers that have ended
plus the one a listener of which is running) — never anything else, so no event is repeated or out
of order, whatever else happens in the schedule. -/
theorem close_event_order (sched : List Act) (s : Nat) :
    (run sched).closeTrace s =
      closeSeq ((run sched).scp s).phase ((run sched).scp s).rolled ((run sched).scp s).park.isSome :=
  (inv_run sched).order s

/-- The three situations of the coarse protocol: nothing before `Close`; `beforeClose` while `Close`
waits; the whole sequence once it has signed off or returned. -/
theorem close_event_order_coarse (sched : List Act) (s : Nat) :
    (((run sched).scp s).phase = .opened → (run sched).closeTrace s = []) ∧
    (((run sched).scp s).phase = .closing → (run sched).closeTrace s = [.beforeClose]) ∧
    (((run sched).scp s).phase.live = false →
      ((run sched).closeTrace s = [.beforeClose, .beforeCommit, .commit, .afterCommit, .afterClose] ∨
       (run sched).closeTrace s = [.beforeClose, .beforeRollback, .rollback, .afterRollback, .afterClose])) := by
  have hI := inv_run sched
  refine ⟨?_, ?_, ?_⟩
  · intro hp
    rw [hI.order s, hI.x.park_none (by rw [hp]; rfl), hp]; rfl
  · intro hp
    rw [hI.order s, hI.x.park_none (by rw [hp]; rfl), hp]
    cases ((run sched).scp s).rolled <;> rfl
  · intro hl
    rw [(signed_off_facts hI hl).2]
    cases ((run sched).scp s).rolled
    · exact Or.inl rfl
    · exact Or.inr rfl

/-- … and at every moment the events fired are a prefix of one of the two full sequences. -/
theorem close_events_prefix (sched : List Act) (s : Nat) :
    (run sched).closeTrace s <+: fullSeq ((run sched).scp s).rolled := by
  rw [close_event_order]; exact closeSeq_prefix _ _ _

-- a child that closes while its parent waits, listeners failing on the way: the child is finished,
-- the parent (scope 0) has fired beforeClose only
example :
    let st := run [.new, .on 0 .beforeClose true, .child 0 false, .close 0, .close 1, .finish 1]
    (st.scp 1).phase = .finished ∧ (st.scp 0).phase = .closing ∧
      st.closeTrace 1 = [.beforeClose, .beforeRollback, .rollback, .afterRollback, .afterClose] ∧
      st.closeTrace 0 = [.beforeClose] := by decide

-- a goroutine parked in a commit listener: three events fired, the third one's trigger is running
example :
    let st := run [.new, .onGated 0 .commit false 3, .close 0, .finish 0]
    (st.scp 0).phase = .t1 ∧ st.parked 0 = true ∧ st.closeTrace 0 = [.beforeClose, .beforeCommit, .commit] := by
  decide

/-! ### 2. Commit xor rollback, by the error state at that moment -/

/-- When the wait of `s` ends (`finish s`, or the `step s` of a goroutine sitting in `Wait()`), the
branch is the error state of that moment — rollback iff the scope holds an error —, and in EVERY
continuation of the schedule the events of `s` are a prefix of beforeClose · that triple · afterClose,
the whole of it once `s` has signed off. -/
theorem commit_xor_rollback (sched : List Act) (s : Nat) (a : Act) (hp : IsPick (run sched) a s)
    (st' : State) (o : Outcome) (he : exec (run sched) a = some (st', o)) :
    (st'.scp s).rolled = (run sched).hasErr s ∧
    ∀ rest : List Act,
      (runFrom st' rest).closeTrace s <+: fullSeq ((run sched).hasErr s) ∧
      (((runFrom st' rest).scp s).phase.live = false →
        (runFrom st' rest).closeTrace s = fullSeq ((run sched).hasErr s)) := by
  have hI := inv_run sched
  obtain ⟨hs, _, _, _, _, _, hm, hw, hr⟩ := pick_facts hI hp he
  refine ⟨hr, fun rest => ?_⟩
  have hs' : s < st'.nScopes := Nat.lt_of_lt_of_le (by simpa [State.pick] using hs) hm.nScopes
  have := trace_follows_pick (inv_exec hI he) hs' hw rest
  rw [hr] at this
  exact ⟨this.2.1, this.2.2⟩

/-- With ungated listeners the coarse `finish` is the whole second half of `Close`. -/
theorem commit_xor_rollback_coarse (sched : List Act) (s : Nat) (st' : State) (e : Bool)
    (he : exec (run sched) (.finish s) = some (st', .closed e)) :
    ((run sched).hasErr s = false →
      st'.closeTrace s = [.beforeClose, .beforeCommit, .commit, .afterCommit, .afterClose]) ∧
    ((run sched).hasErr s = true →
      st'.closeTrace s = [.beforeClose, .beforeRollback, .rollback, .afterRollback, .afterClose]) := by
  have hI := inv_run sched
  have hc := closed_facts hI (Or.inl rfl) he
  have h := (commit_xor_rollback sched s (.finish s) (Or.inl rfl) st' _ he).2 []
  have hl : (st'.scp s).phase.live = false := by rw [hc.2.2.1]; rfl
  have ht := h.2 hl
  constructor <;> intro hh <;> rw [hh] at ht <;> exact ht

/-- In no reachable state has a scope fired both a commit event and a rollback event. -/
theorem commit_rollback_exclusive (sched : List Act) (s : Nat) :
    ¬ (Ev.commit ∈ (run sched).closeTrace s ∧ Ev.rollback ∈ (run sched).closeTrace s) := by
  rw [close_event_order]
  cases ((run sched).scp s).phase <;> cases ((run sched).scp s).rolled <;>
    cases ((run sched).scp s).park.isSome <;> decide

-- an error appended while `Close` waits turns the commit into a rollback
example :
    let st := run [.new, .addTasks 0 1, .close 0, .child 0 false, .appErr 1, .doneTask 0, .close 1, .finish 1]
    st.hasErr 0 = true ∧ exec st (.finish 0) ≠ none := by decide
example :
    let st := run [.new, .addTasks 0 1, .close 0, .doneTask 0]
    st.hasErr 0 = false ∧ exec st (.finish 0) ≠ none ∧ IsPick st (.step 0) 0 ∧ exec st (.step 0) ≠ none := by
  refine ⟨by decide, by decide, Or.inr ⟨rfl, by decide⟩, by decide⟩

/-! ### 3. Close waits for tasks and children -/

/-- The wait of `s` can end only when every task added has been completed and every child that signed
on has SIGNED OFF — which it does after its AfterClose trigger has ended: it has fired its whole
sequence, after-close last, and none of its listeners is running any more. -/
theorem close_waits_partial (sched : List Act) (s : Nat) (a : Act) (hp : IsPick (run sched) a s)
    (st' : State) (o : Outcome) (he : exec (run sched) a = some (st', o)) :
    ((run sched).scp s).dones = ((run sched).scp s).adds ∧
    ∀ c, ((run sched).scp c).parent = some s → ((run sched).scp c).registered = true →
      ((run sched).scp c).phase.live = false ∧ ((run sched).scp c).park = none ∧
      (run sched).closeTrace c = fullSeq ((run sched).scp c).rolled := by
  have hI := inv_run sched
  obtain ⟨_, _, _, hk, hd, _⟩ := pick_facts hI hp he
  refine ⟨hd, ?_⟩
  intro c hpar hr
  have hl : ((run sched).scp c).phase.live = false := by
    cases hl : ((run sched).scp c).phase.live with
    | false => rfl
    | true =>
      have := hI.s.kidsMem c s hpar hr hl
      rw [hk] at this; cases this
  exact ⟨hl, signed_off_facts hI hl⟩

/-- `registered` is decided when the child is created: it signs on iff the parent is not done. -/
theorem registered_iff_parent_not_done (st : State) (p : Nat) (iso : Bool) :
    ((st.newChild p iso).scp st.nScopes).registered = !(st.isDone p) ∧
    ((st.newChild p iso).scp st.nScopes).parent = some p := by
  rw [newChild_scp_new]; exact ⟨rfl, rfl⟩

/-- The full waiting clause ("every child scope has itself been closed") is false — KF-C11-1:
stop the root, create a child, close the root: `Close` returns although the child is open. -/
theorem close_waits_full_false :
    ¬ (∀ (sched : List Act) (s : Nat) (st' : State) (o : Outcome),
        exec (run sched) (.finish s) = some (st', o) →
        ∀ c, ((run sched).scp c).parent = some s → ((run sched).scp c).phase.live = false) := by
  intro h
  have hex : ∃ r, exec (run [.new, .stop 0, .child 0 false, .close 0]) (.finish 0) = some r := by
    cases hr : exec (run [.new, .stop 0, .child 0 false, .close 0]) (.finish 0) with
    | none => exact absurd hr (by decide)
    | some r => exact ⟨r, rfl⟩
  obtain ⟨⟨st', o⟩, hr⟩ := hex
  have := h [.new, .stop 0, .child 0 false, .close 0] 0 st' o hr 1 (by decide)
  exact absurd this (by decide)

-- non-vacuity of the partial statement: a parent that has waited for one task and two children
example :
    let st := run [.new, .child 0 false, .child 0 true, .addTasks 0 1, .close 0, .close 2, .finish 2,
                   .doneTask 0, .close 1, .finish 1]
    exec st (.finish 0) ≠ none ∧ (st.scp 1).registered = true ∧ (st.scp 2).registered = true := by decide
-- … and it is blocked one step earlier
example :
    exec (run [.new, .child 0 false, .child 0 true, .addTasks 0 1, .close 0, .close 2, .finish 2,
               .doneTask 0, .close 1]) (.finish 0) = none := by decide
-- … and while the child's after-close listener is still running (gate 7 closed), and no longer after it
example :
    let st := run [.new, .child 0 false, .onGated 1 .afterClose false 7, .close 0, .close 1, .finish 1]
    st.parked 1 = true ∧ exec st (.finish 0) = none ∧ exec st (.step 0) = none ∧
      exec (runFrom st [.release 7, .step 1, .step 1]) (.finish 0) ≠ none := by decide

/-! ### 4. The reported error -/

/-- When `Close` returns (the coarse `finish s` or a `step s`), it returns an error iff the scope
holds one at that moment, and that is what is recorded as its result; it is an error whenever the
rollback branch was taken (the scope held an error when the wait ended) or a listener of this `Close`
returned one. -/
theorem close_result (sched : List Act) (s : Nat) (a : Act) (ha : a = .finish s ∨ a = .step s)
    (st' : State) (e : Bool) (he : exec (run sched) a = some (st', .closed e)) :
    e = st'.hasErr s ∧ (st'.scp s).result = some e ∧ (st'.scp s).phase = .finished ∧
    ((st'.scp s).rolled = true → e = true) ∧ ((st'.scp s).lfail = true → e = true) :=
  closed_facts (inv_run sched) ha he

/-- An error present when the wait ended is still reported, in whatever continuation `Close` returns. -/
theorem close_result_keeps_error (sched : List Act) (s : Nat) (a : Act) (hp : IsPick (run sched) a s)
    (st' : State) (o : Outcome) (he : exec (run sched) a = some (st', o))
    (herr : (run sched).hasErr s = true) (rest : List Act) (b : Act) (hb : b = .finish s ∨ b = .step s)
    (st'' : State) (e : Bool) (he2 : exec (runFrom st' rest) b = some (st'', .closed e)) : e = true := by
  have hI := inv_run sched
  obtain ⟨hs, _, _, _, _, _, hm, hw, hr⟩ := pick_facts hI hp he
  have hI' := inv_exec hI he
  have hs' : s < st'.nScopes := Nat.lt_of_lt_of_le (by simpa [State.pick] using hs) hm.nScopes
  have m1 := (mono_runFrom hI' rest).waited s hs' hw
  have hI2 := inv_runFrom hI' rest
  have m2 := (mono_exec hI2 he2).waited s (Nat.lt_of_lt_of_le hs' (mono_runFrom hI' rest).nScopes) m1.1
  have hc := closed_facts hI2 hb he2
  exact hc.2.2.2.1 (by rw [m2.2, m1.2, hr, herr])

/-- The coarse `finish` returns from `Close` or leaves the goroutine parked in a listener. -/
theorem finish_returns_or_parks (sched : List Act) (s : Nat) (st' : State) (o : Outcome)
    (he : exec (run sched) (.finish s) = some (st', o)) : o = .ok ∨ ∃ e, o = .closed e :=
  finish_ok_or_closed he

-- a listener failing on afterCommit makes a committing Close report an error
example :
    (exec (run [.new, .on 0 .afterCommit true, .close 0]) (.finish 0)).map (·.2) = some (.closed true) ∧
    (run [.new, .on 0 .afterCommit true, .close 0]).hasErr 0 = false := by decide
example : (exec (run [.new, .close 0]) (.finish 0)).map (·.2) = some (.closed false) := by decide
-- the same listener gated: `finish` parks (outcome ok), the `step` after the release … returns the error
example :
    let st := run [.new, .onGated 0 .afterCommit true 1, .close 0]
    (exec st (.finish 0)).map (·.2) = some .ok ∧
    (exec (runFrom st [.finish 0, .release 1, .step 0, .step 0, .step 0]) (.step 0)).map (·.2) = some (.closed true) := by
  decide

/-! ### 5. Closing twice -/

/-- A `Close` on a scope whose `Close` has begun (running, waiting or returned) panics and changes
nothing: no event, no listener call, no state change. -/
theorem double_close_refused (sched : List Act) (s : Nat) (hs : s < (run sched).nScopes)
    (hph : ((run sched).scp s).phase ≠ .opened) :
    exec (run sched) (.close s) = some (run sched, .panic) := by
  simp [exec, execWith, hs, hph]

/-- … and the wait cannot end a second time, nor can the coarse second half run again. -/
theorem finish_once (sched : List Act) (s : Nat) (hph : ((run sched).scp s).phase.waited = true) :
    exec (run sched) (.finish s) = none := by
  have : ((run sched).scp s).phase ≠ .closing := by
    intro h; rw [h] at hph; cases hph
  simp [exec, execWith, this]

example : ((run [.new, .addTasks 0 1, .close 0]).scp 0).phase ≠ .opened ∧ 0 < (run [.new, .addTasks 0 1, .close 0]).nScopes := by
  decide

/-! ### 5b. Closing from several goroutines AT THE SAME TIME (`Goat/Model/ScopeClosers.lean`)

Any number of goroutines call `Close` on one scope; a schedule is any list of goroutine numbers (the next
step of that goroutine); every goroutine has its own program counter (idle, run i, refused, done).
Protocol steps: 0 beforeClose, 1-3 the triple, 4 afterClose, 5 `parent.DoneTask()`.  `run true` is the
code (test of `closed` and `closed = true` are ONE step: both sit under `scp.mu`); `run false` is the
variant in which they are two steps (seeded change C11-9). -/

/-- For ALL interleavings of ANY number of concurrent closers, with the test-and-set atomic: what has
been fired is an initial piece of the protocol in protocol order, so every close event — and the
parent's `DoneTask()` — happens at most once; and once some call has returned, exactly once. -/
theorem close_protocol_once (sched : List Nat) :
    (Closers.run true sched).fired <+: List.range Closers.protoLen ∧
    ∀ g, (Closers.run true sched).pc g = .done → (Closers.run true sched).fired = List.range Closers.protoLen :=
  ⟨Closers.fired_prefix (Closers.inv_run sched), fun _ hd => Closers.done_fired_all (Closers.inv_run sched) hd⟩

/-- … and at most one of the callers runs the protocol: if `g` got past the guard, every other goroutine
has not called yet or has been refused (the `scope … is closed at` panic) — nobody else runs, nobody is
between test and set. -/
theorem closers_one_winner (sched : List Nat) (g : Nat) (hg : ((Closers.run true sched).pc g).runs = true) :
    ∀ x, x ≠ g → (Closers.run true sched).pc x = .idle ∨ (Closers.run true sched).pc x = .refused :=
  Closers.winner_unique (Closers.inv_run sched) hg

-- four closers in some interleaving: goroutine 2 wins, 0 1 3 are refused, everything fired once
example :
    let st := Closers.run true [2, 0, 2, 1, 3, 2, 2, 0, 2, 2, 2]
    st.pc 2 = .done ∧ st.pc 0 = .refused ∧ st.pc 1 = .refused ∧ st.pc 3 = .refused ∧
      st.fired = [0, 1, 2, 3, 4, 5] := by decide

/-- THE ATOMICITY MATTERS.  With test and set as two steps (the mutex narrowed to the assignment) two
callers can both pass the test: both run the protocol — beforeClose fires twice, every other event
fires twice, and the parent's task count is decremented twice. -/
theorem split_guard_runs_protocol_twice :
    ∃ sched : List Nat,
      ((Closers.run false sched).pc 0).runs = true ∧ ((Closers.run false sched).pc 1).runs = true ∧
      (Closers.run false sched).fired.count 0 = 2 ∧ (Closers.run false sched).fired.count 4 = 2 ∧
      (Closers.run false sched).fired.count 5 = 2 ∧
      ¬ (Closers.run false sched).fired <+: List.range Closers.protoLen :=
  ⟨[0, 1, 0, 1, 0, 0, 1, 0, 1, 0, 1, 0, 1, 0, 1, 1], by decide⟩

-- a sequential second Close is refused in the split variant too (why the package's tests do not see it)
example : (Closers.run false [0, 0, 0, 1]).pc 1 = .refused := by decide

/-! ### 6. A child sharing the parent's context fails the parent -/

/-- Scopes linked through shared contexts have the same error state and the same done state, in
every reachable state. -/
theorem shared_same_fate (sched : List Act) (c p : Nat) (l : SharedLink (run sched) c p) :
    (run sched).hasErr c = (run sched).hasErr p ∧ (run sched).isDone c = (run sched).isDone p := by
  have h := l.ctx_eq (inv_run sched).s
  simp [State.hasErr, State.isDone, State.ctxOf, h]

/-- After a successful `AppendError` or `Kill` on `c`, every scope `p` that `c` is linked to through
shared contexts holds an error and is done, and stays so for every continuation of the schedule;
when the wait of `p`'s `Close` then ends it takes the rollback branch, and when that `Close` returns
it returns an error. -/
theorem shared_child_fails_parent (sched : List Act) (c p : Nat) (l : SharedLink (run sched) c p)
    (hp : p < (run sched).nScopes) (a : Act) (ha : a = .appErr c ∨ a = .kill c) (st' : State)
    (he : exec (run sched) a = some (st', .ok)) (rest : List Act) :
    (runFrom st' rest).hasErr p = true ∧ (runFrom st' rest).isDone p = true ∧
    (∀ b st'' o, IsPick (runFrom st' rest) b p → exec (runFrom st' rest) b = some (st'', o) →
      (st''.scp p).rolled = true ∧ st''.closeTrace p <+: fullSeq true) ∧
    (∀ b st'' e, b = .finish p ∨ b = .step p → exec (runFrom st' rest) b = some (st'', .closed e) →
      e = true) := by
  have hI := inv_run sched
  have hI' : Inv st' := inv_exec hI he
  have hctx := l.ctx_eq hI.s
  have hf := fail_sets_error ha he
  rw [hctx] at hf
  have m1 := mono_exec hI he
  have m2 := mono_runFrom hI' rest
  have m := m1.trans m2
  have hI2 := inv_runFrom hI' rest
  have hc : ((runFrom st' rest).scp p).ctx = ((run sched).scp p).ctx := m.ctx p hp
  have herr : (runFrom st' rest).hasErr p = true := by
    simp only [State.hasErr, State.ctxOf, bne_iff_ne, ne_eq, hc]
    have := m2.errors ((run sched).scp p).ctx
    omega
  refine ⟨herr, ?_, ?_, ?_⟩
  · simp only [State.isDone, State.ctxOf, hc]
    exact m2.done _ hf.2
  · intro b st'' o hb hfin
    obtain ⟨_, _, _, _, _, _, _, _, hr⟩ := pick_facts hI2 hb hfin
    have hI3 := inv_exec hI2 hfin
    rw [herr] at hr
    refine ⟨hr, ?_⟩
    rw [hI3.order p, hr]; exact closeSeq_prefix _ _ _
  · intro b st'' e hb hfin
    have hcl := closed_facts hI2 hb hfin
    have m3 := mono_exec hI2 hfin
    have hp2 : p < (runFrom st' rest).nScopes := Nat.lt_of_lt_of_le hp m.nScopes
    rw [hcl.1]
    simp only [State.hasErr, State.ctxOf, bne_iff_ne, ne_eq, m3.ctx p hp2]
    have h0 : ((runFrom st' rest).ctx ((runFrom st' rest).scp p).ctx).errors ≠ 0 := by
      simpa [State.hasErr, State.ctxOf] using herr
    have := m3.errors ((runFrom st' rest).scp p).ctx
    omega

-- a grandchild through two shared links kills itself: the root is failed
example : SharedLink (run [.new, .child 0 false, .child 1 false]) 2 0 :=
  .child (m := 1) (by decide) (by decide) (.child (m := 0) (by decide) (by decide) (.refl 0))
example : (exec (run [.new, .child 0 false, .child 1 false]) (.kill 2)).map (·.2) = some .ok := by decide

/-! ### 7. A child with an isolated context fails alone -/

/-- An isolated child has a context of its own. -/
theorem isolated_child_own_context (sched : List Act) (c p : Nat)
    (hp : ((run sched).scp c).parent = some p) (hi : ((run sched).scp c).iso = true) :
    ((run sched).scp c).ctx ≠ ((run sched).scp p).ctx := by
  have := ((inv_run sched).s.isoCtx c p hp hi).2
  omega

/-- Whatever a scope `c` does through `AppendError`, `Kill`, `Stop` or its `Close` (any step of its
closing goroutine) — including every error returned by a listener on the way — leaves every scope `p`
with a different context exactly as it was: same errors, same done state.  (With
`isolated_child_own_context` and `shared_same_fate`: nothing an isolated child or its shared
descendants do fails the parent.) -/
theorem isolated_child_contained (sched : List Act) (c p : Nat)
    (hne : ((run sched).scp c).ctx ≠ ((run sched).scp p).ctx) (hp : p < (run sched).nScopes)
    (a : Act) (ha : a.onScope c) (st' : State) (o : Outcome) (he : exec (run sched) a = some (st', o)) :
    st'.ctxOf p = (run sched).ctxOf p ∧ st'.hasErr p = (run sched).hasErr p ∧
    st'.isDone p = (run sched).isDone p := by
  have m := mono_exec (inv_run sched) he
  have h1 : st'.ctxOf p = (run sched).ctxOf p := by
    simp only [State.ctxOf, m.ctx p hp]
    exact exec_footprint (inv_run sched) ha he _ (fun e => hne e.symm)
  simp [State.hasErr, State.isDone, h1]

-- an isolated child kills itself: the act is enabled, the contexts differ
example :
    let st := run [.new, .child 0 true]
    (st.scp 1).parent = some 0 ∧ (st.scp 1).iso = true ∧ exec st (.kill 1) ≠ none ∧ 0 < st.nScopes := by decide

/-! ### 8. … but inherits the parent's stop -/

/-- When the parent's context is done, an isolated child is done already or the watcher step that
makes it done is enabled — in *every* reachable state, so the step stays enabled until it is taken
(or the child becomes done by other means), whatever the other goroutines do meanwhile. -/
theorem isolated_inherits_stop (sched : List Act) (c p : Nat)
    (hp : ((run sched).scp c).parent = some p) (hi : ((run sched).scp c).iso = true)
    (hd : (run sched).isDone p = true) :
    (run sched).isDone c = true ∨
    ∃ st', exec (run sched) (.propagate ((run sched).scp c).ctx false) = some (st', .ok) ∧
      st'.isDone c = true := by
  have h := (inv_run sched).s
  obtain ⟨hpar, _⟩ := h.isoCtx c p hp hi
  by_cases hdc : (run sched).isDone c = true
  · exact Or.inl hdc
  · right
    have hw : ((run sched).ctx ((run sched).scp c).ctx).watch = true := by
      cases hw : ((run sched).ctx ((run sched).scp c).ctx).watch
      · exact absurd (h.watchDone _ (by rw [hpar]; rfl) hw) hdc
      · rfl
    have hlt := h.ctxParent_lt_n hpar
    refine ⟨(run sched).modCtx ((run sched).scp c).ctx fun x =>
      { x with errors := if false = true then x.errors + 1 else x.errors, done := true, watch := false }, ?_, ?_⟩
    · simp only [exec, execWith, hpar]
      rw [if_pos ⟨hlt, hw, hd, fun hf => by cases hf⟩]
    · simp [State.isDone, State.ctxOf]

/-- If the parent holds an error the kill variant of that step is enabled too and leaves the child
with an error. -/
theorem isolated_inherits_kill (sched : List Act) (c p : Nat)
    (hp : ((run sched).scp c).parent = some p) (hi : ((run sched).scp c).iso = true)
    (hd : (run sched).hasErr p = true) (hdc : (run sched).isDone c = false) :
    ∃ st', exec (run sched) (.propagate ((run sched).scp c).ctx true) = some (st', .ok) ∧
      st'.isDone c = true ∧ st'.hasErr c = true := by
  have h := (inv_run sched).s
  obtain ⟨hpar, _⟩ := h.isoCtx c p hp hi
  have hw : ((run sched).ctx ((run sched).scp c).ctx).watch = true := by
    cases hw : ((run sched).ctx ((run sched).scp c).ctx).watch
    · have := h.watchDone _ (by rw [hpar]; rfl) hw
      simp [State.isDone, State.ctxOf, this] at hdc
    · rfl
  have hlt := h.ctxParent_lt_n hpar
  have herr : ((run sched).ctx ((run sched).scp p).ctx).errors ≠ 0 := by
    simpa [State.hasErr, State.ctxOf] using hd
  refine ⟨(run sched).modCtx ((run sched).scp c).ctx fun x =>
    { x with errors := if true = true then x.errors + 1 else x.errors, done := true, watch := false }, ?_, ?_, ?_⟩
  · simp only [exec, execWith, hpar]
    rw [if_pos ⟨hlt, hw, h.errDone _ herr, fun _ => herr⟩]
  · simp [State.isDone, State.ctxOf]
  · simp [State.hasErr, State.ctxOf]

-- the parent is stopped, the isolated grandchild chain has not been reached yet
example :
    let st := run [.new, .child 0 true, .stop 0]
    (st.scp 1).parent = some 0 ∧ (st.scp 1).iso = true ∧ st.isDone 0 = true ∧ st.isDone 1 = false := by decide
example :
    let st := run [.new, .child 0 true, .kill 0]
    st.hasErr 0 = true ∧ st.isDone 1 = false := by decide

/-! ### 9. Listeners are arbitrary code: what holds while they run -/

/-- In EVERY reachable state: if a parent has started its commit or rollback triple (its wait has
ended), then every child that signed on before the wait ended has signed off — it has fired its whole
sequence, after-close last, and ALL its after-close listeners have returned (its goroutine is in no
listener). -/
theorem child_afterclose_before_parent_triple (sched : List Act) (p c : Nat)
    (hpar : ((run sched).scp c).parent = some p) (hreg : ((run sched).scp c).registered = true)
    (hlate : ((run sched).scp c).late = false)
    (hfire : Ev.beforeCommit ∈ (run sched).closeTrace p ∨ Ev.beforeRollback ∈ (run sched).closeTrace p ∨
      ((run sched).scp p).phase.waited = true) :
    ((run sched).scp c).phase.live = false ∧ ((run sched).scp c).park = none ∧
    (run sched).closeTrace c = fullSeq ((run sched).scp c).rolled ∧
    Ev.afterClose ∈ (run sched).closeTrace c := by
  have hI := inv_run sched
  have hw : ((run sched).scp p).phase.waited = true := by
    rcases hfire with h | h | h
    · exact waited_of_triple hI (Or.inl h)
    · exact waited_of_triple hI (Or.inr h)
    · exact h
  have hl := hI.x.nonLate c p hpar hreg hlate hw
  have hf := signed_off_facts hI hl
  refine ⟨hl, hf.1, hf.2, ?_⟩
  rw [hf.2]; cases ((run sched).scp c).rolled <;> decide

-- non-vacuity: parent 0 commits after child 1's gated after-close listener has been released
example :
    let st := run [.new, .child 0 false, .onGated 1 .afterClose false 0, .close 0, .close 1, .finish 1,
                   .release 0, .step 1, .step 1, .step 0, .step 0]
    (st.scp 1).parent = some 0 ∧ (st.scp 1).registered = true ∧ (st.scp 1).late = false ∧
      Ev.beforeCommit ∈ st.closeTrace 0 := by decide
-- a late child: created by another goroutine while the parent is parked in a commit listener
example :
    let st := run [.new, .onGated 0 .commit false 0, .close 0, .finish 0, .child 0 false]
    (st.scp 1).late = true ∧ (st.scp 1).registered = true ∧ (st.scp 0).phase = .t1 := by decide

/-- An error returned by a before-close, commit, rollback or after-close listener of a child that
shares the parent's context is in the parent's context BEFORE the parent picks commit or rollback:
when the parent's wait ends, a shared child that signed on (before) and whose `Close` had a failing
listener makes the parent roll back, and in every continuation no trigger of that child's `Close`
runs any more (`lfail` is final, its goroutine is in no listener). -/
theorem parent_sees_child_listener_error (sched : List Act) (p c : Nat)
    (hpar : ((run sched).scp c).parent = some p) (hreg : ((run sched).scp c).registered = true)
    (hiso : ((run sched).scp c).iso = false)
    (a : Act) (hp : IsPick (run sched) a p) (st' : State) (o : Outcome)
    (he : exec (run sched) a = some (st', o)) :
    (((run sched).scp c).lfail = true → (run sched).hasErr p = true ∧ (st'.scp p).rolled = true) ∧
    ∀ rest : List Act,
      ((runFrom st' rest).scp c).lfail = ((run sched).scp c).lfail ∧
      ((runFrom st' rest).scp c).park = none ∧ ((runFrom st' rest).scp c).phase.live = false := by
  have hI := inv_run sched
  obtain ⟨hl, hpk, _⟩ := (close_waits_partial sched p a hp st' o he).2 c hpar hreg
  obtain ⟨_, _, _, _, _, _, _, _, hr⟩ := pick_facts hI hp he
  have hc : c < (run sched).nScopes := hI.s.parent_lt_n hpar
  constructor
  · intro hlf
    have h1 := hI.x.lfailErr c hlf
    rw [hI.s.sharedCtx c p hpar hiso] at h1
    have : (run sched).hasErr p = true := by simpa [State.hasErr, State.ctxOf] using h1
    exact ⟨this, by rw [hr, this]⟩
  · intro rest
    have m := (mono_exec hI he).trans (mono_runFrom (inv_exec hI he) rest)
    have := m.frozen c hc hl
    exact ⟨this.2.1, by rw [this.2.2, hpk], this.1⟩

-- the child's gated after-close listener returns an error: the parent rolls back
example :
    let st := run [.new, .child 0 false, .onGated 1 .afterClose true 0, .close 0, .close 1, .finish 1,
                   .release 0, .step 1, .step 1]
    (st.scp 1).lfail = true ∧ (st.scp 1).iso = false ∧ IsPick st (.finish 0) 0 ∧
      (exec st (.finish 0)).map (·.2) = some (.closed true) := by
  refine ⟨by decide, by decide, Or.inl rfl, by decide⟩

/-- A goroutine parked inside a listener takes no lock any other goroutine needs: whether an act is
enabled does not depend on scope `c` being parked, except for `c`'s own closing goroutine and for `On`
on the event scope that owns the running listener (its read lock is held). -/
theorem gated_listener_blocks_only_its_closer (sched : List Act) (c : Nat) (pk : Park)
    (hp : ((run sched).scp c).park = some pk) (a : Act)
    (h1 : a ≠ .step c) (h2 : a ≠ .finish c) (h3 : ∀ ev f, a ≠ .on pk.owner ev f)
    (h4 : ∀ ev f g, a ≠ .onGated pk.owner ev f g) :
    (exec (run sched) a).isSome = (exec ((run sched).unpark c) a).isSome :=
  enabled_unpark hp a h1 h2 h3 h4

/-- … in particular every call on any allocated scope goes through (it returns or panics, it does
not block), the goroutine of any other scope `t` whose wait group is zero can end its wait, and the
only thing that waits for `c` is the `Wait()` of a scope whose wait group still counts it. -/
theorem others_can_act_while_parked (sched : List Act) (c t : Nat) (pk : Park)
    (_hp : ((run sched).scp c).park = some pk) (ht : t < (run sched).nScopes) :
    (exec (run sched) (.kill t)).isSome = true ∧ (exec (run sched) (.stop t)).isSome = true ∧
    (exec (run sched) (.appErr t)).isSome = true ∧ (∀ n, (exec (run sched) (.addTasks t n)).isSome = true) ∧
    (exec (run sched) (.close t)).isSome = true ∧
    (((run sched).scp t).phase = .closing → ((run sched).scp t).wg = 0 →
      (exec (run sched) (.step t)).isSome = true ∧ (exec (run sched) (.finish t)).isSome = true) := by
  have hI := inv_run sched
  refine ⟨?_, ?_, ?_, ?_, ?_, ?_⟩
  · simp only [exec, execWith, ht, if_true]; split <;> rfl
  · simp only [exec, execWith, ht, if_true]; split <;> rfl
  · simp only [exec, execWith, ht, if_true]; split <;> rfl
  · intro n; simp only [exec, execWith, ht, if_true]; split <;> rfl
  · simp only [exec, execWith, ht, if_true]; split <;> rfl
  · intro hph hwg
    have hpk : ((run sched).scp t).park = none := hI.x.park_none (by rw [hph]; rfl)
    constructor
    · simp only [exec, execWith, ht, if_true]
      rw [micro_isSome]
      simp [menabled, hpk, hph, hwg, evOf]
    · simp [exec, execWith, ht, hph, hpk, hwg]

-- child 1 is parked in its after-close listener; sibling 2 closes completely meanwhile, scope 0 is killed
example :
    let st := run [.new, .child 0 false, .child 0 true, .onGated 1 .afterClose false 0, .close 1, .finish 1]
    (∃ pk, (st.scp 1).park = some pk) ∧
      ((runFrom st [.close 2, .finish 2, .kill 0]).scp 2).phase = .finished ∧
      (runFrom st [.close 2, .finish 2, .kill 0]).hasErr 0 = true := by
  refine ⟨⟨_, rfl⟩, by decide, by decide⟩

/-- Ungated listeners keep the atomic semantics of the coarse protocol: if no listener on the chain
of `s` is gated, a trigger of `Close` never parks — it is `scp.appendError(scp.Trigger(ev, scp))` in one
piece (`fire`), followed by the move of the program counter. -/
theorem ungated_trigger_is_atomic (sched : List Act) (s : Nat) (ev : Ev)
    (h : (run sched).ungatedChain s) :
    (run sched).startTrigger s ev =
      ((run sched).fire s ev (some s)).modScp s fun x =>
        { x with phase := x.phase.next, park := none,
                 lfail := ((run sched).trigger s ev (some s)).2 || x.lfail } :=
  startTrigger_ungated (run sched) s ev h

example : (run [.new, .on 0 .commit true, .child 0 false, .on 1 .afterClose false]).ungatedChain 1 := by
  unfold State.ungatedChain; decide

/-- THE ORDER MATTERS.  In the variant system with `parent.DoneTask()` before the AfterClose trigger
(`execSw`/`runSw`), a state is reachable that contradicts `child_afterclose_before_parent_triple`:
the parent has fired its commit triple, returned nil (`result = some false`) — while its signed-on,
shared-context child is still inside its after-close listener; when that listener then returns an
error the parent's context holds an error although the parent committed. -/
theorem signoff_before_afterclose_breaks_waits :
    ∃ (sched : List Act) (p c : Nat),
      ((runSw sched).scp c).parent = some p ∧ ((runSw sched).scp c).registered = true ∧
      ((runSw sched).scp c).late = false ∧ ((runSw sched).scp c).iso = false ∧
      Ev.beforeCommit ∈ (runSw sched).closeTrace p ∧ ((runSw sched).scp p).phase.waited = true ∧
      ¬ (((runSw sched).scp c).phase.live = false ∧ ((runSw sched).scp c).park = none) ∧
      ((runSw sched).scp c).park.isSome = true ∧ ((runSw sched).scp p).result = some false ∧
      (runSw (sched ++ [.release 0, .step c])).hasErr p = true ∧
      ((runSw (sched ++ [.release 0, .step c])).scp p).rolled = false :=
  ⟨[.new, .child 0 false, .onGated 1 .afterClose true 0, .close 0, .close 1, .finish 1, .finish 0], 0, 1,
    by decide⟩

-- the same schedule in the system of the code: the parent is still waiting
example :
    let st := run [.new, .child 0 false, .onGated 1 .afterClose true 0, .close 0, .close 1, .finish 1, .finish 0]
    (st.scp 0).phase = .closing ∧ st.parked 1 = true ∧ (st.scp 0).result = none := by decide

end Goat.C11
