/-
Property C11 — scope close protocol, stated over the transition system `Goat/Model/Scope.lean`.

  "Closing a scope fires before-close, waits until every task added to the scope is done and every
   child scope has itself been closed, then fires exactly one of the commit triple (the scope has no
   error at that moment) or the rollback triple (it has one), then after-close - each once, in that
   order - and reports an error if and only if the scope holds one at the end; closing twice is
   refused loudly rather than repeating the events.  An error or kill in a child that shares the
   parent's context fails the parent too, whereas a child with an isolated context fails alone but is
   still stopped when the parent stops."

Quantification.  `run sched` is the state after the schedule `sched : List Act`; acts that are not
enabled when their turn comes are skipped.  The acts build the trees (`new`, `child p iso`), register
the listeners (`on s ev fails`: a listener that returns nil or an error), and are the calls of the
property (`addTasks`, `doneTask`, `appErr`, `kill`, `stop`, `close` = first half of `Close`,
`finish` = second half of `Close`, enabled only when the wait group is zero) and the moves of the
watcher goroutine of an isolated context (`propagate`, `watcherExit`).  Every theorem is for every
schedule (any length, any interleaving, any number of trees of any depth, any listener set).

Vocabulary (`Goat/Model/Scope.lean`, `Goat/Proofs/Scope*.lean`):
  `st.closeTrace s`   the close-protocol events scope `s` has fired (its own `Trigger` calls), in order
  `st.hasErr s`       `len(s.Errors()) != 0`;   `st.isDone s`  `s.IsDone()`
  `(st.scp s).phase`  `opened` / `closing` (Close waits) / `finished` (Close returned)
  `(st.scp c).registered`  the child signed on with its parent (`NewChild` found the parent not done)
  `exec st a = some (st', o)`  act `a` is enabled in `st`, leads to `st'`, the call's outcome is `o`
  `SharedLink st c p`  `c` is `p` or descends from `p` through children sharing their parent's context
  `Act.onScope a c`    `a` is `appErr c`, `kill c`, `stop c`, `close c` or `finish c`

Domain of the model (see its header): `doneTask` only for an outstanding task; no child of a scope
whose `Close` has returned.

Known finding KF-C11-1 (`close_waits_full_false`): a child created from a scope whose context is
already done does not sign on (`parent.AddTasks(1)` is refused), so the parent's `Close` does not
wait for it.  `close_waits_partial` proves the waiting clause for the tasks and for every child that
signed on, i.e. every child created while its parent was not done.
-/
import Goat.Proofs.ScopeProps

namespace Goat.C11

open Goat.Scope

/-! ### 1. Ordered events, each once -/

/-- The close events a scope has fired are: nothing before `Close`; `beforeClose` while `Close`
waits; `beforeClose`, one triple, `afterClose` once it returned — never anything else, so no event
is repeated or out of order, whatever else happens in the schedule. -/
theorem close_event_order (sched : List Act) (s : Nat) :
    ((run sched).scp s).phase = .opened ∧ (run sched).closeTrace s = [] ∨
    ((run sched).scp s).phase = .closing ∧ (run sched).closeTrace s = [.beforeClose] ∨
    ((run sched).scp s).phase = .finished ∧
      ((run sched).closeTrace s = [.beforeClose, .beforeCommit, .commit, .afterCommit, .afterClose] ∨
       (run sched).closeTrace s = [.beforeClose, .beforeRollback, .rollback, .afterRollback, .afterClose]) := by
  have h := (inv_run sched).order s
  cases hp : ((run sched).scp s).phase <;> rw [hp] at h
  · exact Or.inl ⟨rfl, h⟩
  · exact Or.inr (Or.inl ⟨rfl, h⟩)
  · refine Or.inr (Or.inr ⟨rfl, ?_⟩)
    cases hr : ((run sched).scp s).rolled <;> rw [hr] at h
    · exact Or.inl h
    · exact Or.inr h

-- a child that closes while its parent waits, listeners failing on the way: the child is finished,
-- the parent (scope 0) has fired beforeClose only
example :
    let st := run [.new, .on 0 .beforeClose true, .child 0 false, .close 0, .close 1, .finish 1]
    (st.scp 1).phase = .finished ∧ (st.scp 0).phase = .closing ∧
      st.closeTrace 1 = [.beforeClose, .beforeRollback, .rollback, .afterRollback, .afterClose] ∧
      st.closeTrace 0 = [.beforeClose] := by decide

/-! ### 2. Commit xor rollback, by the error state at that moment -/

/-- When the second half of `Close` runs (the wait is over) it fires the commit triple if the scope
holds no error at that moment and the rollback triple if it holds one; with `beforeClose` before and
`afterClose` after, that is the whole list of close events of the scope. -/
theorem commit_xor_rollback (sched : List Act) (s : Nat) (st' : State) (o : Outcome)
    (he : exec (run sched) (.finish s) = some (st', o)) :
    ((run sched).hasErr s = false →
      st'.closeTrace s = [.beforeClose, .beforeCommit, .commit, .afterCommit, .afterClose]) ∧
    ((run sched).hasErr s = true →
      st'.closeTrace s = [.beforeClose, .beforeRollback, .rollback, .afterRollback, .afterClose]) := by
  have h := (finish_outcome (inv_run sched) he).1
  constructor <;> intro hh <;> rw [hh] at h <;> exact h

/-- In no reachable state has a scope fired both a commit event and a rollback event. -/
theorem commit_rollback_exclusive (sched : List Act) (s : Nat) :
    ¬ (Ev.commit ∈ (run sched).closeTrace s ∧ Ev.rollback ∈ (run sched).closeTrace s) := by
  rcases close_event_order sched s with ⟨_, h⟩ | ⟨_, h⟩ | ⟨_, h | h⟩ <;> rw [h] <;> decide

-- an error appended while `Close` waits turns the commit into a rollback
example :
    let st := run [.new, .addTasks 0 1, .close 0, .child 0 false, .appErr 1, .doneTask 0, .close 1, .finish 1]
    st.hasErr 0 = true ∧ exec st (.finish 0) ≠ none := by decide
example :
    let st := run [.new, .addTasks 0 1, .close 0, .doneTask 0]
    st.hasErr 0 = false ∧ exec st (.finish 0) ≠ none := by decide

/-! ### 3. Close waits for tasks and children -/

/-- The second half of `Close` can run only when every task added has been completed and every child
that signed on has returned from its own `Close`. -/
theorem close_waits_partial (sched : List Act) (s : Nat) (st' : State) (o : Outcome)
    (he : exec (run sched) (.finish s) = some (st', o)) :
    ((run sched).scp s).dones = ((run sched).scp s).adds ∧
    ∀ c, ((run sched).scp c).parent = some s → ((run sched).scp c).registered = true →
      ((run sched).scp c).phase = .finished := by
  have h := (inv_run sched).s
  obtain ⟨_, _, hwg, _, _⟩ := exec_finish_inv he
  have h1 := h.wgEq s
  have h2 := h.donesLe s
  rw [hwg] at h1
  have hk : ((run sched).scp s).kids = [] := List.eq_nil_of_length_eq_zero (by omega)
  refine ⟨by omega, ?_⟩
  intro c hp hr
  apply Classical.byContradiction
  intro hph
  have := h.kidsMem c s hp hr hph
  rw [hk] at this
  cases this

/-- `registered` is decided when the child is created: it signs on iff the parent is not done. -/
theorem registered_iff_parent_not_done (st : State) (p : Nat) (iso : Bool) :
    ((st.newChild p iso).scp st.nScopes).registered = !(st.isDone p) ∧
    ((st.newChild p iso).scp st.nScopes).parent = some p := by
  unfold State.newChild
  cases iso <;> cases hd : st.isDone p <;> simp [upd]

/-- The full waiting clause ("every child scope has itself been closed") is false — KF-C11-1:
stop the root, create a child, close the root: `Close` returns although the child is open. -/
theorem close_waits_full_false :
    ¬ (∀ (sched : List Act) (s : Nat) (st' : State) (o : Outcome),
        exec (run sched) (.finish s) = some (st', o) →
        ∀ c, ((run sched).scp c).parent = some s → ((run sched).scp c).phase = .finished) := by
  intro h
  have hex : ∃ r, exec (run [.new, .stop 0, .child 0 false, .close 0]) (.finish 0) = some r := by
    cases hr : exec (run [.new, .stop 0, .child 0 false, .close 0]) (.finish 0) with
    | none => exact absurd hr (by decide)
    | some r => exact ⟨r, rfl⟩
  obtain ⟨⟨st', o⟩, hr⟩ := hex
  have := h [.new, .stop 0, .child 0 false, .close 0] 0 st' o hr 1 (by decide)
  exact absurd this (by decide)

-- non-vacuity of the partial statement: a parent that has waited for one task and two children
example :
    let st := run [.new, .child 0 false, .child 0 true, .addTasks 0 1, .close 0, .close 2, .finish 2,
                   .doneTask 0, .close 1, .finish 1]
    exec st (.finish 0) ≠ none ∧ (st.scp 1).registered = true ∧ (st.scp 2).registered = true := by decide
-- … and it is blocked one step earlier
example :
    exec (run [.new, .child 0 false, .child 0 true, .addTasks 0 1, .close 0, .close 2, .finish 2,
               .doneTask 0, .close 1]) (.finish 0) = none := by decide

/-! ### 4. The reported error -/

/-- `Close` returns an error iff the scope holds one when it returns (and that is what is recorded
as its result); an error present when the wait ended is still reported. -/
theorem close_result (sched : List Act) (s : Nat) (st' : State) (o : Outcome)
    (he : exec (run sched) (.finish s) = some (st', o)) :
    o = .closed (st'.hasErr s) ∧ (st'.scp s).result = some (st'.hasErr s) ∧
    ((run sched).hasErr s = true → o = .closed true) := by
  obtain ⟨_, h2, h3, h4⟩ := finish_outcome (inv_run sched) he
  exact ⟨h2, h3, fun h => by rw [h2, h4 h]⟩

-- a listener failing on afterCommit makes a committing Close report an error
example :
    (exec (run [.new, .on 0 .afterCommit true, .close 0]) (.finish 0)).map (·.2) = some (.closed true) ∧
    (run [.new, .on 0 .afterCommit true, .close 0]).hasErr 0 = false := by decide
example : (exec (run [.new, .close 0]) (.finish 0)).map (·.2) = some (.closed false) := by decide

/-! ### 5. Closing twice -/

/-- A `Close` on a scope whose `Close` has begun (waiting or returned) panics and changes nothing:
no event, no listener call, no state change. -/
theorem double_close_refused (sched : List Act) (s : Nat) (hs : s < (run sched).nScopes)
    (hph : ((run sched).scp s).phase ≠ .opened) :
    exec (run sched) (.close s) = some (run sched, .panic) := by
  simp [exec, hs, hph]

/-- … and the second half of `Close` cannot run a second time. -/
theorem finish_once (sched : List Act) (s : Nat) (hph : ((run sched).scp s).phase = .finished) :
    exec (run sched) (.finish s) = none := by
  simp [exec, hph]

example : ((run [.new, .addTasks 0 1, .close 0]).scp 0).phase ≠ .opened ∧ 0 < (run [.new, .addTasks 0 1, .close 0]).nScopes := by
  decide

/-! ### 6. A child sharing the parent's context fails the parent -/

/-- Scopes linked through shared contexts have the same error state and the same done state, in
every reachable state. -/
theorem shared_same_fate (sched : List Act) (c p : Nat) (l : SharedLink (run sched) c p) :
    (run sched).hasErr c = (run sched).hasErr p ∧ (run sched).isDone c = (run sched).isDone p := by
  have h := l.ctx_eq (inv_run sched).s
  simp [State.hasErr, State.isDone, State.ctxOf, h]

/-- After a successful `AppendError` or `Kill` on `c`, every scope `p` that `c` is linked to through
shared contexts holds an error and is done, and stays so for every continuation of the schedule;
when `p`'s `Close` then finishes it fires the rollback triple and returns an error. -/
theorem shared_child_fails_parent (sched : List Act) (c p : Nat) (l : SharedLink (run sched) c p)
    (hp : p < (run sched).nScopes) (a : Act) (ha : a = .appErr c ∨ a = .kill c) (st' : State)
    (he : exec (run sched) a = some (st', .ok)) (rest : List Act) :
    (runFrom st' rest).hasErr p = true ∧ (runFrom st' rest).isDone p = true ∧
    ∀ st'' o, exec (runFrom st' rest) (.finish p) = some (st'', o) →
      o = .closed true ∧
      st''.closeTrace p = [.beforeClose, .beforeRollback, .rollback, .afterRollback, .afterClose] := by
  have hI := inv_run sched
  have hI' : Inv st' := inv_exec hI he
  have hctx := l.ctx_eq hI.s
  have hf := fail_sets_error ha he
  rw [hctx] at hf
  have m1 := mono_exec hI he
  have m2 := mono_runFrom hI' rest
  have m := m1.trans m2
  have hc : ((runFrom st' rest).scp p).ctx = ((run sched).scp p).ctx := m.ctx p hp
  have herr : (runFrom st' rest).hasErr p = true := by
    simp only [State.hasErr, State.ctxOf, bne_iff_ne, ne_eq, hc]
    have := m2.errors ((run sched).scp p).ctx
    omega
  refine ⟨herr, ?_, ?_⟩
  · simp only [State.isDone, State.ctxOf, hc]
    exact m2.done _ hf.2
  · intro st'' o hfin
    obtain ⟨h1, h2, _, h4⟩ := finish_outcome (inv_runFrom hI' rest) hfin
    rw [herr] at h1
    exact ⟨by rw [h2, h4 herr], h1⟩

-- a grandchild through two shared links kills itself: the root is failed
example : SharedLink (run [.new, .child 0 false, .child 1 false]) 2 0 :=
  .child (m := 1) (by decide) (by decide) (.child (m := 0) (by decide) (by decide) (.refl 0))
example : (exec (run [.new, .child 0 false, .child 1 false]) (.kill 2)).map (·.2) = some .ok := by decide

/-! ### 7. A child with an isolated context fails alone -/

/-- An isolated child has a context of its own. -/
theorem isolated_child_own_context (sched : List Act) (c p : Nat)
    (hp : ((run sched).scp c).parent = some p) (hi : ((run sched).scp c).iso = true) :
    ((run sched).scp c).ctx ≠ ((run sched).scp p).ctx := by
  have := ((inv_run sched).s.isoCtx c p hp hi).2
  omega

/-- Whatever a scope `c` does through `AppendError`, `Kill`, `Stop` or its `Close` — including every
error returned by a listener on the way — leaves every scope `p` with a different context exactly as
it was: same errors, same done state.  (With `isolated_child_own_context` and `shared_same_fate`:
nothing an isolated child or its shared descendants do fails the parent.) -/
theorem isolated_child_contained (sched : List Act) (c p : Nat)
    (hne : ((run sched).scp c).ctx ≠ ((run sched).scp p).ctx) (hp : p < (run sched).nScopes)
    (a : Act) (ha : a.onScope c) (st' : State) (o : Outcome) (he : exec (run sched) a = some (st', o)) :
    st'.ctxOf p = (run sched).ctxOf p ∧ st'.hasErr p = (run sched).hasErr p ∧
    st'.isDone p = (run sched).isDone p := by
  have m := mono_exec (inv_run sched) he
  have h1 : st'.ctxOf p = (run sched).ctxOf p := by
    simp only [State.ctxOf, m.ctx p hp]
    exact exec_footprint ha he _ (fun e => hne e.symm)
  simp [State.hasErr, State.isDone, h1]

-- an isolated child kills itself: the act is enabled, the contexts differ
example :
    let st := run [.new, .child 0 true]
    (st.scp 1).parent = some 0 ∧ (st.scp 1).iso = true ∧ exec st (.kill 1) ≠ none ∧ 0 < st.nScopes := by decide

/-! ### 8. … but inherits the parent's stop -/

/-- When the parent's context is done, an isolated child is done already or the watcher step that
makes it done is enabled — in *every* reachable state, so the step stays enabled until it is taken
(or the child becomes done by other means), whatever the other goroutines do meanwhile. -/
theorem isolated_inherits_stop (sched : List Act) (c p : Nat)
    (hp : ((run sched).scp c).parent = some p) (hi : ((run sched).scp c).iso = true)
    (hd : (run sched).isDone p = true) :
    (run sched).isDone c = true ∨
    ∃ st', exec (run sched) (.propagate ((run sched).scp c).ctx false) = some (st', .ok) ∧
      st'.isDone c = true := by
  have h := (inv_run sched).s
  obtain ⟨hpar, _⟩ := h.isoCtx c p hp hi
  by_cases hdc : (run sched).isDone c = true
  · exact Or.inl hdc
  · right
    have hw : ((run sched).ctx ((run sched).scp c).ctx).watch = true := by
      cases hw : ((run sched).ctx ((run sched).scp c).ctx).watch
      · exact absurd (h.watchDone _ (by rw [hpar]; rfl) hw) hdc
      · rfl
    have hlt := h.ctxParent_lt_n hpar
    refine ⟨(run sched).modCtx ((run sched).scp c).ctx fun x =>
      { x with errors := if false = true then x.errors + 1 else x.errors, done := true, watch := false }, ?_, ?_⟩
    · simp only [exec, hpar]
      rw [if_pos ⟨hlt, hw, hd, fun hf => by cases hf⟩]
    · simp [State.isDone, State.ctxOf]

/-- If the parent holds an error the kill variant of that step is enabled too and leaves the child
with an error. -/
theorem isolated_inherits_kill (sched : List Act) (c p : Nat)
    (hp : ((run sched).scp c).parent = some p) (hi : ((run sched).scp c).iso = true)
    (hd : (run sched).hasErr p = true) (hdc : (run sched).isDone c = false) :
    ∃ st', exec (run sched) (.propagate ((run sched).scp c).ctx true) = some (st', .ok) ∧
      st'.isDone c = true ∧ st'.hasErr c = true := by
  have h := (inv_run sched).s
  obtain ⟨hpar, _⟩ := h.isoCtx c p hp hi
  have hw : ((run sched).ctx ((run sched).scp c).ctx).watch = true := by
    cases hw : ((run sched).ctx ((run sched).scp c).ctx).watch
    · have := h.watchDone _ (by rw [hpar]; rfl) hw
      simp [State.isDone, State.ctxOf, this] at hdc
    · rfl
  have hlt := h.ctxParent_lt_n hpar
  have herr : ((run sched).ctx ((run sched).scp p).ctx).errors ≠ 0 := by
    simpa [State.hasErr, State.ctxOf] using hd
  refine ⟨(run sched).modCtx ((run sched).scp c).ctx fun x =>
    { x with errors := if true = true then x.errors + 1 else x.errors, done := true, watch := false }, ?_, ?_, ?_⟩
  · simp only [exec, hpar]
    rw [if_pos ⟨hlt, hw, h.errDone _ herr, fun _ => herr⟩]
  · simp [State.isDone, State.ctxOf]
  · simp [State.hasErr, State.ctxOf]

-- the parent is stopped, the isolated grandchild chain has not been reached yet
example :
    let st := run [.new, .child 0 true, .stop 0]
    (st.scp 1).parent = some 0 ∧ (st.scp 1).iso = true ∧ st.isDone 0 = true ∧ st.isDone 1 = false := by decide
example :
    let st := run [.new, .child 0 true, .kill 0]
    st.hasErr 0 = true ∧ st.isDone 1 = false := by decide

end Goat.C11
