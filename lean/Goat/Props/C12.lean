/-
Property C12 — scope failure signalling is safe from any number of goroutines.

  "Errors may be appended to a scope, and the scope may be killed or stopped, from any number of
   goroutines at once and repeatedly: no call panics, every appended error is retained and
   reported by the scope's error accessors and by waiting on or closing it, and the done signal
   fires exactly once.  Creating and closing a child of a scope that is already done is equally
   safe."

Stated over the transition system `sys v cfg` of `Goat/Model/ScopeSignal.lean`:
`cfg.n` caller goroutines (any `n`), a forest `cfg.kinds` of plain and isolated contexts (any
size; one propagation goroutine per isolated context), child scopes created and closed
dynamically; a schedule is any `List Label`, each label lets one goroutine start an operation
(`AppendError` with any batch, `Kill`, `Stop`, `IsDone`, `Err`, `NewChild`, `Close`, on any scope)
or perform its next shared-memory access; disabled labels (goroutine blocked on `errorsMU` or on
the `sync.Once`, nothing to do) are skipped.  `(sys v cfg).run sched` is the state after the
schedule.  Theorems of sections 1–6 are about `Variant.fixed` (the code in /repo) and hold for every
configuration and every schedule; section 7 exhibits the defects of the older code / of mutants;
section 8 states the publication order (error recorded before the done signal) on the full system and on the
two-step system of `Goat/Model/ScopePublish.lean`, where the swapped order is refuted.

Vocabulary:
  `x.closes`     how many times `close(done)` was executed on context `x` (≥ 2 = run-time panic)
  `x.done`       `1 ≤ x.closes`: a receive on `Done()` succeeds, `IsDone()` answers true
  `x.errors`     the slice `Errors()` / `Err()` / `Wait()` / `Close()` report from
  `x.requested`  ghost: every non-nil error handed to `AppendError`/`Kill` on `x`, by anybody
  `x.stopCalls`, `x.propStops`, `x.propKills`  ghost: Stop calls by callers / by the propagation
                 goroutine, Kill calls by the propagation goroutine
  `s.quiet c`    no goroutine is inside an operation on context `c`
  `sc.wg`        the `sync.WaitGroup` counter of scope `sc` (an `Int`; `< 0` = run-time panic)
-/
import Goat.Proofs.ScopeSignalMain
import Goat.Proofs.ScopePublish

namespace Goat.C12

open Goat.LTS Goat.ScopeSignal

/-! ### 1. The done channel is closed at most once -/

/-- In every schedule `close(done)` is executed at most once per context, so the panic
"close of closed channel" cannot occur. -/
theorem done_closed_once (cfg : Config) (sched : List Label) (c : Nat) (x : Ctx)
    (hx : ((sys Variant.fixed cfg).run sched).ctxs[c]? = some x) : x.closes ≤ 1 :=
  closes_le_one (run_allInv cfg sched) hx

theorem no_double_close_panic (cfg : Config) (sched : List Label) :
    ((sys Variant.fixed cfg).run sched).doubleClose = false :=
  no_doubleClose (run_allInv cfg sched)

-- three goroutines: Stop, Kill and AppendError race on one context (goroutine 1 finds the Once
-- occupied and waits); the channel is closed exactly once and all three errors are held
example : (((sys Variant.fixed ⟨3, [.plain]⟩).run
    [.call 0 (.op .stop 0), .call 1 (.op .kill 0), .run 1, .run 1, .call 2 (.op (.append [5, 6]) 0),
     .run 1, .run 2, .run 2, .run 0, .run 1, .run 2]).ctxs[0]?.map
      (fun x => (x.closes, x.errors))) = some (1, [canceled, 5, 6]) := by decide

/-! ### 2. Every appended error is retained -/

/-- When no goroutine is inside an operation on context `c`, the errors it holds are exactly
(as a multiset) the non-nil errors ever handed to `AppendError`/`Kill` on it. -/
theorem all_errors_kept (cfg : Config) (sched : List Label) (c : Nat) (x : Ctx)
    (hx : ((sys Variant.fixed cfg).run sched).ctxs[c]? = some x)
    (hq : ((sys Variant.fixed cfg).run sched).quiet c) : x.errors.Perm x.requested :=
  errors_perm (run_allInv cfg sched) hx hq

/-- `|errors| = number of non-nil errors appended`. -/
theorem all_errors_kept_count (cfg : Config) (sched : List Label) (c : Nat) (x : Ctx)
    (hx : ((sys Variant.fixed cfg).run sched).ctxs[c]? = some x)
    (hq : ((sys Variant.fixed cfg).run sched).quiet c) : x.errors.length = x.requested.length :=
  (all_errors_kept cfg sched c x hx hq).length_eq

/-- At any moment, quiet or not: stored + still in the hands of goroutines inside `AppendError` =
handed in (for every class `q` of errors; `inflQ q c pc` is what goroutine `pc` still carries). -/
theorem errors_stored_or_in_flight (cfg : Config) (sched : List Label) (q : Nat → Bool) (c : Nat) (x : Ctx)
    (hx : ((sys Variant.fixed cfg).run sched).ctxs[c]? = some x) :
    x.errors.countP q + wsum (inflQ q c) ((sys Variant.fixed cfg).run sched).threads = x.requested.countP q :=
  (run_allInv cfg sched).err q c x hx

example : ((sys Variant.fixed ⟨3, [.plain]⟩).run
    [.call 0 (.op .stop 0), .call 1 (.op .kill 0), .run 1, .run 1, .call 2 (.op (.append [5, 6]) 0),
     .run 1, .run 2, .run 2, .run 0, .run 1, .run 2]).quiet 0 := by decide

/-! ### 3. The done signal fires exactly when the scope was stopped or holds an error -/

/-- With nobody inside an operation on the context: it is done iff `Stop` was called on it (by a
caller or, for an isolated context, by its propagation goroutine) or it holds an error. -/
theorem done_iff_stopped_or_error (cfg : Config) (sched : List Label) (c : Nat) (x : Ctx)
    (hx : ((sys Variant.fixed cfg).run sched).ctxs[c]? = some x)
    (hq : ((sys Variant.fixed cfg).run sched).quiet c) :
    x.done = true ↔ (0 < x.stopCalls ∨ 0 < x.propStops ∨ x.errors ≠ []) := by
  constructor
  · intro hd
    exact (run_allInv cfg sched).done.sound c x hx (by simpa [Ctx.done] using hd)
  · intro h
    simpa [Ctx.done] using done_of_should (run_allInv cfg sched) hx hq h

/-- The direction that needs no quiescence: `done` never fires spuriously. -/
theorem done_only_if_stopped_or_error (cfg : Config) (sched : List Label) (c : Nat) (x : Ctx)
    (hx : ((sys Variant.fixed cfg).run sched).ctxs[c]? = some x) (hd : x.done = true) :
    0 < x.stopCalls ∨ 0 < x.propStops ∨ x.errors ≠ [] :=
  (run_allInv cfg sched).done.sound c x hx (by simpa [Ctx.done] using hd)

-- an untouched context next to a killed one stays open
example : (((sys Variant.fixed ⟨1, [.plain, .plain]⟩).run
    [.call 0 (.op .kill 0), .run 0, .run 0, .run 0, .run 0]).ctxs.map Ctx.done) = [true, false] := by decide

/-! ### 4. Children of a finished parent -/

/-- No wait-group counter is ever negative, whatever the interleaving of `NewChild` (whose
`AddTasks` tests `IsDone` and then adds), of the parent's end, and of the children's `Close`. -/
theorem parent_counter_nonneg (cfg : Config) (sched : List Label) (p : Nat) (sc : Scope)
    (hp : ((sys Variant.fixed cfg).run sched).scopes[p]? = some sc) : 0 ≤ sc.wg :=
  wg_nonneg (run_allInv cfg sched) hp

theorem no_negative_counter_panic (cfg : Config) (sched : List Label) :
    ((sys Variant.fixed cfg).run sched).negativeCounter = false :=
  no_negativeCounter (run_allInv cfg sched)

-- the parent ends between the IsDone test and wg.Add(1) of a racing NewChild; a second child is
-- created after the end; both are closed: the counter returns to 0
example : (((sys Variant.fixed ⟨3, [.plain]⟩).run
    [.call 0 (.newChild 0 none), .call 1 (.op .stop 0), .run 1, .run 0, .run 0,
     .call 2 (.newChild 0 none), .run 2, .call 0 (.close 1), .call 2 (.close 2)]).scopes.map
      (fun sc => (sc.wg, sc.parent))) = [(0, none), (0, some 0), (0, none)] := by decide

/-! ### 5. Isolated contexts: what the propagation goroutine may do -/

/-- A `Kill` by the propagation goroutine happened only if the context is isolated and its parent
is done and holds an error (so an isolated context never gains a `Canceled` otherwise). -/
theorem propagated_kill_justified (cfg : Config) (sched : List Label) (c : Nat) (x : Ctx)
    (hx : ((sys Variant.fixed cfg).run sched).ctxs[c]? = some x) (hk : 0 < x.propKills) :
    ∃ p px, x.kind = .isolated p ∧ ((sys Variant.fixed cfg).run sched).ctxs[p]? = some px ∧
      px.done = true ∧ px.errors ≠ [] :=
  kill_justified (run_allInv cfg sched) hx hk

/-- A `Stop` by the propagation goroutine happened only if the parent is done. -/
theorem propagated_stop_justified (cfg : Config) (sched : List Label) (c : Nat) (x : Ctx)
    (hx : ((sys Variant.fixed cfg).run sched).ctxs[c]? = some x) (hk : 0 < x.propStops) :
    ∃ p px, x.kind = .isolated p ∧ ((sys Variant.fixed cfg).run sched).ctxs[p]? = some px ∧ px.done = true :=
  stop_justified (run_allInv cfg sched) hx hk

/-- The propagation goroutine acts at most once (one `Kill` or one `Stop`, never both). -/
theorem propagation_acts_once (cfg : Config) (sched : List Label) (c : Nat) (x : Ctx)
    (hx : ((sys Variant.fixed cfg).run sched).ctxs[c]? = some x) : x.propKills + x.propStops ≤ 1 :=
  prop_once (run_allInv cfg sched) hx

-- parent 0 fails, isolated child 1 is killed by propagation (gains Canceled), the parent is untouched
example : (((sys Variant.fixed ⟨1, [.plain, .isolated 0]⟩).run
    [.call 0 (.op (.append [9]) 0), .run 0, .run 0, .run 0, .run 0,
     .run 1, .run 1, .run 1, .run 1, .run 1, .run 1, .run 1]).ctxs.map
      (fun x => (x.errors, x.closes, x.propKills))) = [([9], 1, 0), ([canceled], 1, 1)] := by decide

/-! ### 6. The history monitor used by the stress harness is sound -/

/-- For every reachable state and every context nobody is operating on, the history the harness
records (how many tagged errors were appended, how many Kill and Stop calls were made, what the
accessors answer, what the parent looks like) is accepted by `conforms`: a rejected history
contradicts theorems 1–5. -/
theorem monitor_sound (cfg : Config) (sched : List Label) (c : Nat) (x : Ctx)
    (hx : ((sys Variant.fixed cfg).run sched).ctxs[c]? = some x)
    (hq : ((sys Variant.fixed cfg).run sched).quiet c) :
    conforms (histOf ((sys Variant.fixed cfg).run sched) x) = true :=
  conforms_histOf (run_allInv cfg sched) hx hq

-- the monitor is not trivially true: a lost error, an unexplained Canceled, a spurious done are rejected
example : conforms
    { isolated := false, appended := 5, kills := 2, stops := 1, parentDone := false, parentErr := false,
      lenTagged := 4, lenCancel := 2, errNonNil := true, done := true, panics := 0 } = false := by decide
example : conforms
    { isolated := false, appended := 0, kills := 0, stops := 0, parentDone := true, parentErr := true,
      lenTagged := 0, lenCancel := 1, errNonNil := true, done := true, panics := 0 } = false := by decide
example : conforms
    { isolated := true, appended := 0, kills := 0, stops := 0, parentDone := false, parentErr := false,
      lenTagged := 0, lenCancel := 0, errNonNil := false, done := true, panics := 0 } = false := by decide

/-! ### 7. The tree before the fix commits, and two mutants -/

/-- `Stop` as check-then-close (`if !IsDone() { close(done) }`): two goroutines, four steps, and
the channel is closed twice. -/
theorem stop_race_reachable :
    ∃ sched : List Label, sched.length = 4 ∧
      ((sys Variant.pinned ⟨2, [.plain]⟩).run sched).doubleClose = true :=
  ⟨[.call 0 (.op .stop 0), .call 1 (.op .stop 0), .run 0, .run 1], rfl, by decide⟩

/-- The same schedule on the repaired system closes once. -/
theorem stop_race_repaired :
    ((sys Variant.fixed ⟨2, [.plain]⟩).run
      [.call 0 (.op .stop 0), .call 1 (.op .stop 0), .run 0, .run 1]).ctxs.map Ctx.closes = [1] := by decide

/-- `NewChild` that ignores the refusal of `AddTasks`: one goroutine, stop the parent, create a
child, close it — the parent's counter is −1. -/
theorem child_of_done_parent_negative_reachable :
    ∃ sched : List Label,
      ((sys Variant.pinned ⟨1, [.plain]⟩).run sched).negativeCounter = true :=
  ⟨[.call 0 (.op .stop 0), .run 0, .call 0 (.newChild 0 none), .run 0, .call 0 (.close 1)], by decide⟩

/-- Mutant: `AppendError` without `errorsMU` loses an error (two appends have returned to the
point of calling Stop, one error is held). -/
theorem unlocked_append_loses_error :
    ∃ sched : List Label,
      (((sys Variant.unlockedAppend ⟨2, [.plain]⟩).run sched).ctxs.map
        (fun x => (x.requested.length, x.errors.length))) = [(2, 1)] ∧
      ((sys Variant.unlockedAppend ⟨2, [.plain]⟩).run sched).threads = [.stopEnter 0, .stopEnter 0] :=
  ⟨[.call 0 (.op (.append [7]) 0), .call 1 (.op (.append [8]) 0), .run 0, .run 1, .run 0, .run 1],
   by decide, by decide⟩

/-- Mutant: a propagation goroutine that acts on the parent instead of its own context gives a
plain context a `Canceled` that no caller asked for (`propagated_kill_justified` fails), and the
isolated context never learns of its parent's end. -/
theorem prop_to_parent_breaks_containment :
    ∃ sched : List Label,
      (((sys Variant.propToParent ⟨1, [.plain, .isolated 0]⟩).run sched).ctxs.map
        (fun x => (x.kind, x.errors, x.propKills, x.done))) =
        [(.plain, [9, canceled], 1, true), (.isolated 0, [], 0, false)] :=
  ⟨[.call 0 (.op (.append [9]) 0), .run 0, .run 0, .run 0, .run 0,
    .run 1, .run 1, .run 1, .run 1, .run 1], by decide⟩

/-! ### 8. Publication order: the error is recorded before the done signal fires

"Every appended error is … reported by the scope's error accessors", read at the moment the done signal is
observed: whoever learns from `Done()` / `IsDone()` that a scope nobody stopped has ended finds the error, and the
watcher goroutine of an isolated child — which is such an observer — therefore kills the child, never stops it. -/

/-- In the full system, at any moment (quiet or not): a done context on which nobody called `Stop` holds an error. -/
theorem done_by_error_shows_error (cfg : Config) (sched : List Label) (c : Nat) (x : Ctx)
    (hx : ((sys Variant.fixed cfg).run sched).ctxs[c]? = some x) (hd : x.done = true)
    (h1 : x.stopCalls = 0) (h2 : x.propStops = 0) : x.errors ≠ [] := by
  rcases done_only_if_stopped_or_error cfg sched c x hx hd with h | h | h
  · omega
  · omega
  · exact h

example : (((sys Variant.fixed ⟨1, [.plain]⟩).run
    [.call 0 (.op .kill 0), .run 0, .run 0, .run 0, .run 0]).ctxs[0]?.map
      (fun x => (x.done, x.stopCalls, x.propStops, x.errors))) = some (true, 0, 0, [canceled]) := by decide

/-- The same clause in the two-step system `Goat/Model/ScopePublish.lean` (`AppendError` = record; close), where
the swapped order can be stated too.  Any number of goroutines — appenders, observers blocked on `Done()`,
watchers of isolated children of any depth — any schedule: an observer that was woken by `Done()` and then read
`Err()` has read a non-nil error. -/
theorem error_published_before_done (pcs : Nat → ScopePublish.PC) (h : ∀ t, (pcs t).initial)
    (sched : List Nat) (t c : Nat) (b : Bool)
    (hsaw : ((ScopePublish.sys .recordThenClose pcs).run sched).pcs t = .obsSaw c b) : b = true :=
  (ScopePublish.inv_run pcs h sched).saw t c b hsaw

/-- Every closed context holds an error — the isolated children too: one that has ended, has ended killed. -/
theorem done_context_holds_error (pcs : Nat → ScopePublish.PC) (h : ∀ t, (pcs t).initial)
    (sched : List Nat) (c : Nat)
    (hc : ((ScopePublish.sys .recordThenClose pcs).run sched).closed c = true) :
    0 < ((ScopePublish.sys .recordThenClose pcs).run sched).errs c :=
  (ScopePublish.inv_run pcs h sched).pub c hc

/-- No watcher of an isolated child ever chooses `Stop()`: when it wakes up the parent's error is there. -/
theorem isolated_child_never_stopped (pcs : Nat → ScopePublish.PC) (h : ∀ t, (pcs t).initial)
    (sched : List Nat) (t c : Nat) :
    ((ScopePublish.sys .recordThenClose pcs).run sched).pcs t ≠ .stopStart c :=
  (ScopePublish.inv_run pcs h sched).nostop t c

-- goroutine 0 appends to context 0, 1 waits on it, 2 is the watcher of the isolated child 1, 3 waits on the child:
-- the hypotheses are satisfiable, both observers read an error, the child holds its Canceled
example : ∀ t, ((ScopePublish.ofList [.appStart 0, .obsWait 0, .watchWait 0 1, .obsWait 1]) t).initial := by
  intro t
  match t with
  | 0 | 1 | 2 | 3 => trivial
  | _ + 4 => trivial

example :
    let s := (ScopePublish.sys .recordThenClose
      (ScopePublish.ofList [.appStart 0, .obsWait 0, .watchWait 0 1, .obsWait 1])).run [0, 0, 1, 1, 2, 2, 2, 2, 3, 3]
    s.pcs 1 = .obsSaw 0 true ∧ s.pcs 3 = .obsSaw 1 true ∧ s.closed 1 = true ∧ s.errs 1 = 1 := by decide

/-- The swapped order (close, then record) is refuted by a schedule of nine steps: the observer of the failed
context reads `Err() == nil`, the watcher stops the isolated child instead of killing it, and the child stays done
without an error although its parent holds one. -/
theorem close_first_hides_error :
    ∃ sched : List Nat,
      let s := (ScopePublish.sys .closeThenRecord
        (ScopePublish.ofList [.appStart 0, .obsWait 0, .watchWait 0 1, .obsWait 1])).run sched
      s.pcs 1 = .obsSaw 0 false ∧ s.pcs 3 = .obsSaw 1 false ∧
      s.closed 1 = true ∧ s.errs 1 = 0 ∧ s.errs 0 = 1 ∧ s.pcs 0 = .idle ∧ s.pcs 2 = .idle :=
  ⟨[0, 1, 1, 2, 2, 2, 0, 3, 3], by decide⟩

end Goat.C12
