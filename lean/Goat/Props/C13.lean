import Goat.Model.DataScope
namespace Goat.C13
open Goat Goat.DataScope
theorem stub : (1 : Nat) = 1 := rfl
end Goat.C13
