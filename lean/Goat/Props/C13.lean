/-
Property C13 — "Data scope: child overlays parent, locked sections are atomic", stated over the
executable model `Goat/Model/DataScope.lean` of `/repo/app/scope/datascope/{data,child,locker}.go`.

  "A child data scope returns its own value for a key when it has one and otherwise the parent's
   current value, and setting a value in the child never changes the parent.  Between taking a
   scope's data lock and committing it the holder has exclusive access: no other goroutine's read,
   write or lock on that scope takes effect in between, so read-modify-write sequences done under
   the lock are never lost."

Vocabulary (model):
  `Scopes`            heap of scopes; a child names its parent by index, `WF`: parents are older
  `value ss s k`      `scope.Value(k)`: the walk up the chain;  `dataSet ss s k v`: `SetValue`
  `chain ss s`        the maps consulted, child first (any length);  `firstHit`: first entry found
  `anc ss j`          `j` and its ancestors
  `run st (.req r)`   the request interpreter the model driver executes (differentially tested)
  `sys init`          the transition system: one step = one critical section of the Go code;
                      a schedule is any `List Nat` of thread indices (disabled choices are skipped)
  `holds st t s`      thread `t` is between its `LockData` on scope `s` and the matching `Commit`
  `touches st i`      the scope the next action of thread `i` reads, writes or locks
  `initSt ss n p others f`  `n` threads running `p` next to threads running the programs `others`
  `incProg s c k`     `k` times: lock s; v := locker.Value c; locker.SetValue c (v+1); Commit
  `getOrCreate s c`   lock s; v := locker.Value c; if v == nil { v = new; locker.SetValue c v }; Commit
  `isNoise s c p`     p consists of plain SetValue (not of key c on scope s) / Value / Keys calls
  `isKeyNoise c p`    p consists of plain SetValue of keys other than c / Value / Keys calls
  `Svc`, `SvcOp`, `svcRun`   the service units on a tree (Model/DataScopeSvc): get-or-create `goc n k`, `bind n k m`
                      (BindScope), `clear n k` (Clear), plain `set`/`get`, locked sections `sect n ws`; instances are
                      numbered by `fresh`;  `resolve σ n k`: the instance a lookup on node `n` gives;
                      `ownSlot σ n k`: absent / cleared (`some none`) / `some (some inst)`;
                      `op.touches n k`: the op may write the own slot `(n, k)`
-/
import Goat.Proofs.DataScopeCounter
import Goat.Proofs.DataScopeCreate
import Goat.Proofs.DataScopeProgress
import Goat.Proofs.DataScopeSvc
import Goat.Tie.C13.Idiom
import Goat.Tie.C13.Expected

namespace Goat.C13

open Goat Goat.DataScope Goat.LTS

/-! ### 1. The overlay (sequential) -/

/-- A scope answers with its own entry when it has one (a stored nil counts) and otherwise with
whatever its parent answers *now*; a root answers nil. -/
theorem overlay_get (ss : Scopes) (hwf : WF ss) (c : Nat) (sc : Scope) (hc : ss[c]? = some sc) (k : Key) :
    value ss c k =
      match mget sc.data k with
      | some v => v
      | none =>
        match sc.parent with
        | some p => value ss p k
        | none => none := by
  rw [value_unfold hwf, readLevel_of_scope hc]
  cases mget sc.data k <;> cases sc.parent <;> rfl

/-- The same for chains of any depth at once: the answer is the first entry found along the chain
of maps from the scope up to its root (induction on the chain). -/
theorem overlay_get_chain (ss : Scopes) (s : Nat) (k : Key) : value ss s k = firstHit (chain ss s) k :=
  valueF_eq_firstHit _ _ _

/-- "the parent's CURRENT value": a child without an own entry follows a later write to its parent. -/
theorem overlay_tracks_parent (ss : Scopes) (hwf : WF ss) (c p : Nat) (sc : Scope) (hc : ss[c]? = some sc)
    (hp : sc.parent = some p) (k : Key) (hown : mget sc.data k = none) (v : Val) :
    value (dataSet ss p k v) c k = v := by
  have hlt : p < c := hwf c sc hc p hp
  have hc' : (dataSet ss p k v)[c]? = some sc := by
    rw [dataSet_getElem?_ne k v (by omega)]; exact hc
  rw [overlay_get _ (WF_dataSet hwf p k v) c sc hc' k, hown, hp]
  have hlen : c < ss.length := by
    rcases List.getElem?_eq_some_iff.mp hc with ⟨h, _⟩; exact h
  exact value_dataSet_same hwf p k v (by omega)

example :
    let ss : Scopes := [⟨none, [(1, some 5)], false⟩, ⟨some 0, [], false⟩, ⟨some 1, [(2, none)], false⟩]
    value ss 2 1 = some 5 ∧ value ss 2 2 = none ∧ value (dataSet ss 0 1 (some 7)) 2 1 = some 7 ∧
      value (dataSet ss 0 2 (some 7)) 2 2 = none := by decide

/-- Setting a value in a scope changes that scope only: every other scope record is the same, and
every scope whose chain does not pass through it — its parent, all its ancestors, its siblings —
answers every `Value` as before.  (A locker writes through `dataSet` on its own scope as well.) -/
theorem child_set_frames_parent (ss : Scopes) (s : Nat) (k : Key) (v : Val) :
    (∀ j, j ≠ s → (dataSet ss s k v)[j]? = ss[j]?) ∧
    (∀ j k', s ∉ anc ss j → value (dataSet ss s k v) j k' = value ss j k') :=
  ⟨fun _ h => dataSet_getElem?_ne k v h, fun j k' h => value_dataSet_frame ss s j k k' v h⟩

/-- in particular the parent (and every older scope) is unaffected: same answers, same keys -/
theorem child_set_frames_parent_lt (ss : Scopes) (hwf : WF ss) (s j : Nat) (hj : j < s) (k k' : Key) (v : Val) :
    value (dataSet ss s k v) j k' = value ss j k' ∧ dataKeys (dataSet ss s k v) j = dataKeys ss j := by
  refine ⟨value_dataSet_lt hwf s j k k' v hj, ?_⟩
  simp [dataKeys, dataSet_getElem?_ne k v (Nat.ne_of_lt hj)]

/-- and the child itself shows the new value for that key and its old answers for the others -/
theorem child_set_get (ss : Scopes) (hwf : WF ss) (s : Nat) (hs : s < ss.length) (k : Key) (v : Val) :
    value (dataSet ss s k v) s k = v ∧ ∀ k', k' ≠ k → value (dataSet ss s k v) s k' = value ss s k' :=
  ⟨value_dataSet_same hwf s k v hs, fun k' h => value_dataSet_other_key ss s s k k' v h⟩

example :
    let ss : Scopes := [⟨none, [(1, some 5)], false⟩, ⟨some 0, [], false⟩, ⟨some 0, [], false⟩]
    1 ∉ anc ss 0 ∧ 1 ∉ anc ss 2 ∧ value (dataSet ss 1 1 (some 9)) 1 1 = some 9 ∧
      value (dataSet ss 1 1 (some 9)) 0 1 = some 5 ∧ value (dataSet ss 1 1 (some 9)) 2 1 = some 5 := by decide

/-- The functions above are what the request interpreter (the code the model driver runs against
the Go implementation) computes when no lock is held. -/
theorem seq_interpreter (st : Store) (hwf : WF st.scopes) (hfree : AllFree st.scopes) (s : Nat)
    (hs : s < st.scopes.length) (k : Key) (v : Val) :
    run st (.req (.get s k)) = (st, .inl (.val (value st.scopes s k))) ∧
    run st (.req (.set s k v)) = ({ st with scopes := dataSet st.scopes s k v }, .inl .ok) :=
  ⟨run_get hwf hfree s k hs, run_set hfree s k v hs⟩

/-- ... and through a locker: `LockData` on a free scope hands out a locker on that scope's own map;
inside the section the locker's `Value` is the same overlay (own entry, else the parent's current
value), its `SetValue` is a write to that scope alone (so `child_set_frames_parent` applies), and
`Commit` releases the scope. -/
theorem locked_section_sequential (st : Store) (hwf : WF st.scopes) (s l : Nat) (sc : Scope)
    (hsc : st.scopes[s]? = some sc)
    (hlk : st.lockers[l]? = some { target := some s, parent := sc.parent, unlock := .scope s, held := false })
    (hheld : sc.held = true)
    (hothers : ∀ (i : Nat) (x : Scope), i ≠ s → st.scopes[i]? = some x → x.held = false) (k : Key) (v : Val) :
    run st (.req (.lget l k)) = (st, .inl (.val (value st.scopes s k))) ∧
    run st (.req (.lset l k v)) = ({ st with scopes := dataSet st.scopes s k v }, .inl .ok) ∧
    (run st (.req (.commit l))).2 = .inl .ok ∧
    (run st (.req (.commit l))).1.scopes = setHeld st.scopes s false :=
  run_locker hwf s l sc _ hsc hlk rfl hheld hothers k v

-- such a store is what `LockData` produces from an unlocked one
example :
    let st : Store := { scopes := [⟨none, [(1, some 5)], false⟩, ⟨some 0, [], false⟩], lockers := [] }
    run st (.req (.lock 1)) =
      ({ scopes := [⟨none, [(1, some 5)], false⟩, ⟨some 0, [], true⟩],
         lockers := [{ target := some 1, parent := some 0, unlock := .scope 1, held := false }] }, .inl (.locker 0)) := by
  decide

/-! ### 2. Locked sections (all schedules, any number of threads, any programs) -/

/-- Between the `LockData` of thread `o` on scope `s` and its `Commit`, no action of another
thread that reads, writes, lists or locks `s` occurs — in every schedule of every set of thread
programs (threads start without lockers; scopes, chains, programs are arbitrary). -/
theorem lock_exclusive (init : St) (h0 : ∀ th ∈ init.threads, th.lks = []) (sched : List Nat) :
    ∀ p ∈ (sys init).fired sched, ∀ (o s : Nat), holds p.1 o s = true → o ≠ p.2 → touches p.1 p.2 ≠ some s := by
  intro p hp o s hold hne
  rcases fired_sound (sys init) sched p hp with ⟨hreach, t, hstep⟩
  exact no_touch_while_held (LockInv_reachable h0 _ hreach) (step_rel hstep) hold hne

/-- consequently the held scope — its map and its mutex — is exactly as the holder left it after
every step of every other thread, and there is never a second holder. -/
theorem lock_exclusive_frame (init : St) (h0 : ∀ th ∈ init.threads, th.lks = []) (sched : List Nat) :
    ∀ p ∈ (sys init).fired sched, ∀ (o s : Nat), holds p.1 o s = true →
      (∀ o', holds p.1 o' s = true → o' = o) ∧ isHeld p.1.scopes s = true ∧
      (o ≠ p.2 → ∀ t, step p.1 p.2 = some t → t.scopes[s]? = p.1.scopes[s]?) := by
  intro p hp o s hold
  rcases fired_sound (sys init) sched p hp with ⟨hreach, _, _⟩
  have hinv := LockInv_reachable h0 _ hreach
  rcases holds_iff.mp hold with ⟨th, hth, hmem⟩
  refine ⟨?_, hinv.held o th s hth hmem, ?_⟩
  · intro o' hold'
    rcases holds_iff.mp hold' with ⟨th', hth', hmem'⟩
    exact hinv.uniq o' o th' th s hth' hth hmem' hmem
  · intro hne t hstep
    exact step_frame (step_rel hstep) (no_touch_while_held hinv (step_rel hstep) hold hne)

-- two threads contend for scope 1 (a child); thread 2 issues plain traffic on it
example :
    let init := initSt [⟨none, [], false⟩, ⟨some 0, [], false⟩] 2 [.lock 1, .lset 7 (some 1), .lget 7, .commit]
      [[.set 1 7 (some 9), .get 1 7]] 0
    (∀ th ∈ init.threads, th.lks = []) ∧
      ((sys init).fired [0, 1, 2, 0, 0, 2, 0, 2, 1, 2]).map (·.2) = [0, 0, 0, 0, 2, 1] := by decide

-- the lock is per scope (a child's `LockData` takes the child's mutex only): while thread 0 holds the
-- child (scope 1), the plain write of thread 1 to the parent (scope 0) goes through, and the holder's
-- fall-back read then sees the parent's current value
example :
    let init := initSt [⟨none, [(7, some 5)], false⟩, ⟨some 0, [], false⟩] 1 [.lock 1, .lget 7, .commit]
      [[.set 0 7 (some 6)]] 0
    ((sys init).fired [0, 1, 0, 0]).map (·.2) = [0, 1, 0, 0] ∧
      ((sys init).run [0, 1, 0, 0]).threads.map (·.reg) = [some 6, none] := by decide

/-! ### 3. No lost update -/

/-- `n` threads each perform `k` locked read-modify-write increments of key `c` on scope `s` (any
scope of any heap: root or child at any depth), interleaved in any way with any number of threads
issuing plain `SetValue` (not of that very entry) / `Value` / `Keys` on any scopes.  Whenever the
incrementing threads have finished, the counter has grown by exactly `n * k`. -/
theorem no_lost_update (ss : Scopes) (s : Nat) (c : Key) (v0 n k fresh : Nat) (others : List (List Instr))
    (hv : dataGet ss s c = some (some v0)) (hn : ∀ p ∈ others, isNoise s c p = true) (sched : List Nat) :
    let fin := (sys (initSt ss n (incProg s c k) others fresh)).run sched
    (∀ (i : Nat) (th : Thread), i < n → fin.threads[i]? = some th → th.prog = []) →
      dataGet fin.scopes s c = some (some (v0 + n * k)) := by
  intro fin hdone
  exact CInv_final (CInv_run hv hn sched) hdone

/-- and at every moment of every schedule: counter + increments still to be performed = `v0 + n*k`
(no increment is ever lost or duplicated on the way). -/
theorem no_lost_update_invariant (ss : Scopes) (s : Nat) (c : Key) (v0 n k fresh : Nat) (others : List (List Instr))
    (hv : dataGet ss s c = some (some v0)) (hn : ∀ p ∈ others, isNoise s c p = true) (sched : List Nat) :
    let st := (sys (initSt ss n (incProg s c k) others fresh)).run sched
    ∃ v, dataGet st.scopes s c = some (some v) ∧ v + pendTotal st.threads = v0 + n * k :=
  (CInv_run hv hn sched).count

/-- "final" is always reached: in the same scenario (well-formed heap, no lock taken at the start,
the plain traffic names existing scopes) the locked sections never deadlock — while some thread has
work left some thread can move — and no schedule performs more than `stMeasure` actions, so every
execution that keeps scheduling enabled threads ends with all threads finished and the count above. -/
theorem no_lost_update_progress (ss : Scopes) (hwf : WF ss) (hfree : AllFree ss) (s : Nat) (c : Key)
    (v0 n k fresh : Nat) (others : List (List Instr))
    (hv : dataGet ss s c = some (some v0)) (hn : ∀ p ∈ others, isNoise s c p = true)
    (hvalid : ∀ p ∈ others, progValid ss.length p = true) (sched : List Nat) :
    let init := initSt ss n (incProg s c k) others fresh
    (allDone ((sys init).run sched) = false → ∃ i t, step ((sys init).run sched) i = some t) ∧
    ((sys init).fired sched).length ≤ stMeasure ss.length init := by
  intro init
  refine ⟨counter_enabled (PInv_run hwf hfree hv hn hvalid sched), ?_⟩
  exact fired_bounded sched init (PInv_init hwf hfree hv hn hvalid).toTInv

example :
    let ss : Scopes := [⟨none, [(3, some 0)], false⟩, ⟨some 0, [(3, some 0)], false⟩]
    WF ss ∧ AllFree ss ∧ progValid ss.length [.set 1 4 (some 1), .set 0 3 (some 8), .get 1 3] = true ∧
      stMeasure ss.length (initSt ss 2 (incProg 1 3 2) [[.set 1 4 (some 1), .set 0 3 (some 8), .get 1 3]] 0) = 57 := by
  refine ⟨?_, ?_, by decide, by decide⟩
  · intro i sc hi p hp
    match i, hi with
    | 0, hi => simp at hi; subst hi; simp at hp
    | 1, hi => simp at hi; subst hi; simp at hp; omega
    | i + 2, hi => simp at hi
  · intro i sc hi
    match i, hi with
    | 0, hi => simp at hi; subst hi; rfl
    | 1, hi => simp at hi; subst hi; rfl
    | i + 2, hi => simp at hi

-- 2 threads × 2 increments on a child scope, a third thread writing another key of the same scope
-- and the same key of the parent: one complete schedule, final value 4
example :
    let init := initSt [⟨none, [(3, some 0)], false⟩, ⟨some 0, [(3, some 0)], false⟩] 2 (incProg 1 3 2)
      [[.set 1 4 (some 1), .set 0 3 (some 8), .get 1 3]] 0
    let fin := (sys init).run [0, 1, 2, 0, 2, 0, 1, 0, 1, 1, 2, 1, 1, 0, 0, 0, 0, 1, 1, 1, 1, 2, 2, 2]
    allDone fin = true ∧ dataGet fin.scopes 1 3 = some (some 4) ∧ dataGet fin.scopes 0 3 = some (some 8) := by
  decide

/-! ### 4. Get-or-create -/

/-- The idiom of `tasks.Unit.FromScope`, `envs.Unit.Envs`, `waits.WaitManager.ForScope`: `n` callers
on scope `s` (root or child at any depth of any well-formed heap), interleaved in any way with plain
traffic that does not write the service's key.  Every caller that has returned holds the same,
non-nil instance — the one the scope answers with —, and at most one instance was ever created. -/
theorem get_or_create_once (ss : Scopes) (hwf : WF ss) (s : Nat) (hs : s < ss.length) (c : Key) (n fresh : Nat)
    (others : List (List Instr)) (hn : ∀ p ∈ others, isKeyNoise c p = true) (sched : List Nat) :
    let fin := (sys (initSt ss n (getOrCreate s c) others fresh)).run sched
    (∀ (i j : Nat) (a b : Thread), i < n → j < n → fin.threads[i]? = some a → fin.threads[j]? = some b →
        a.prog = [] → b.prog = [] → a.reg = b.reg ∧ a.reg ≠ none ∧ a.reg = value fin.scopes s c) ∧
    fin.fresh ≤ fresh + 1 := by
  intro fin
  have hinv : GInv s c n fresh fin := GInv_run hwf hs hn sched
  refine ⟨?_, ?_⟩
  · intro i j a b hi hj ha hb hpa hpb
    have h1 := GInv_done hinv hi ha hpa
    have h2 := GInv_done hinv hj hb hpb
    exact ⟨by rw [h1.1, h2.1], h1.2, h1.1⟩
  · rcases hinv.once with h | ⟨h, _⟩ <;> omega

-- the hypotheses are satisfiable: a chain root → child → grandchild as built by `New`/`NewChild`
example :
    let ss := newChild (newChild (newRoot [] []) 0 []) 1 []
    WF ss ∧ 2 < ss.length ∧ isKeyNoise 5 [.set 1 6 (some 1), .get 2 5] = true ∧
      ss = [⟨none, [], false⟩, ⟨some 0, [], false⟩, ⟨some 1, [], false⟩] :=
  ⟨WF_newChild (WF_newChild (WF_newRoot WF_nil []) 0 (by decide) []) 1 (by decide) [], by decide, by decide, by decide⟩

-- three callers on a grandchild scope whose chain has no instance yet, one thread of plain traffic
example :
    let init := initSt [⟨none, [], false⟩, ⟨some 0, [], false⟩, ⟨some 1, [], false⟩] 3 (getOrCreate 2 5)
      [[.set 1 6 (some 1), .get 2 5]] 100
    let fin := (sys init).run [1, 0, 1, 1, 2, 1, 3, 1, 1, 0, 3, 0, 0, 0, 0, 3, 2, 2, 2, 2, 2, 2]
    allDone fin = true ∧ fin.threads.map (·.reg) = [some 100, some 100, some 100, some 100] ∧ fin.fresh = 101 := by
  decide

-- the parent already has an instance: the child's callers reuse it, nothing is created
example :
    let init := initSt [⟨none, [(5, some 42)], false⟩, ⟨some 0, [], false⟩] 2 (getOrCreate 1 5) [] 100
    let fin := (sys init).run [0, 0, 0, 1, 0, 0, 1, 1, 1, 1, 1]
    allDone fin = true ∧ fin.threads.map (·.reg) = [some 42, some 42] ∧ fin.fresh = 100 := by
  decide

/-! ### 5. Get-or-create, for the code shape of the services

Vocabulary (`Goat/Tie/C13/{Tok,Idiom,Expected}.lean`):
  `ITok`                    the events of a function that takes a data locker, as `datascope facts` extracts
                            them from the Go source on every run (lock, value, nil test, create, setValue,
                            commit / defer commit, every return with its operands, any use of the scope itself)
  `runSkeleton s c sk`      the model program such a skeleton denotes on scope `s` with service key `c`;
                            `none` unless the key is read under the lock, that read is what is tested, the
                            created instance is what is stored under the same key and returned, the lock is
                            released exactly once on every path and the scope itself is not used
  `skeletonProgs s c sks`   the programs of a list of skeletons, one goroutine each
  `initStOf ss ps others f` goroutines running the programs `ps` next to goroutines running `others`
  `Expected.idiomShapes`    the three spellings found in /repo; `Goat.Tie.C13.tie_*_get_or_create` say that
                            the skeletons extracted from `tasks.Unit.FromScope`, `envs.Unit.Envs`,
                            `waits.WaitManager.ForScope` are these, `tie_idiom_users` that no other function
                            takes a data locker, `tie_services_run` that the extracted skeletons are read by
                            `runSkeleton` (the hypothesis `hsk` below for the repository's code) -/

open Goat.Tie.C13 in
/-- Any number of goroutines, each running ANY skeleton the interpreter reads (in particular any mix of
the three services' code shapes), on the same scope `s` (root or child at any depth of any well-formed
heap) with the same key, interleaved in any way with plain traffic that does not write that key: every
caller that has returned holds the same, non-nil instance — the one the scope answers with —, and
`create` ran at most once. -/
theorem get_or_create_once_services (ss : Scopes) (hwf : WF ss) (s : Nat) (hs : s < ss.length) (c : Key) (fresh : Nat)
    (sks : List (List ITok)) (hsk : ∀ sk ∈ sks, runSkeleton s c sk ≠ none)
    (others : List (List Instr)) (hn : ∀ p ∈ others, isKeyNoise c p = true) (sched : List Nat) :
    let fin := (sys (initStOf ss (skeletonProgs s c sks) others fresh)).run sched
    (∀ (i j : Nat) (a b : Thread), i < sks.length → j < sks.length → fin.threads[i]? = some a → fin.threads[j]? = some b →
        a.prog = [] → b.prog = [] → a.reg = b.reg ∧ a.reg ≠ none ∧ a.reg = value fin.scopes s c) ∧
    fin.fresh ≤ fresh + 1 := by
  intro fin
  have h := get_or_create_once ss hwf s hs c sks.length fresh others hn sched
  have e : initStOf ss (skeletonProgs s c sks) others fresh = initSt ss sks.length (getOrCreate s c) others fresh := by
    rw [skeletonProgs_eq s c sks hsk, initStOf_replicate]
  simp only [fin, e]
  exact h

-- the hypothesis holds for the spellings of the three services (any scope, any key: `tie_idiom_shapes_run`)
example : ∀ sk ∈ Goat.Tie.C13.Expected.idiomShapes, Goat.Tie.C13.runSkeleton 2 5 sk ≠ none := by decide

-- four callers on a grandchild scope, one per spelling and a second `FromScope`-shaped one, one thread of
-- plain traffic: one complete schedule, one instance
example :
    let sks := Goat.Tie.C13.Expected.idiomShapes ++ [Goat.Tie.C13.Expected.getOrCreateDeferred]
    let init := Goat.Tie.C13.initStOf [⟨none, [], false⟩, ⟨some 0, [], false⟩, ⟨some 1, [], false⟩]
      (Goat.Tie.C13.skeletonProgs 2 5 sks) [[.set 1 6 (some 1), .get 2 5]] 100
    let fin := (sys init).run [1, 0, 1, 1, 2, 1, 4, 1, 1, 0, 4, 0, 0, 0, 0, 4, 2, 2, 2, 2, 2, 2, 3, 3, 3, 3, 3, 3]
    allDone fin = true ∧ fin.threads.map (·.reg) = [some 100, some 100, some 100, some 100, some 100] ∧
      fin.fresh = 101 := by
  decide

-- why the skeleton matters: a caller that reads the key on the scope itself, BEFORE taking the lock, and
-- creates under the lock without reading again (`scp.Value(k)` as a fast path in front of `LockData`) is
-- refused by `runSkeleton` (`tie_idiom_refused`), and rightly: two such callers that both saw nil create
-- two instances
example :
    let init := initSt [⟨none, [], false⟩] 2 [.get 0 5, .lock 0, .lcreate 5, .commit] [] 100
    let fin := (sys init).run [0, 1, 0, 0, 0, 1, 1, 1]
    allDone fin = true ∧ fin.threads.map (·.reg) = [some 100, some 101] ∧ fin.fresh = 102 := by
  decide

/-! ### 4. The service units on a scope tree (tasks.Unit FromScope/BindScope/Clear, envs.Unit.Envs, waits ForScope)

Every service operation is a composition of the overlay operations of section 1 (Model/DataScopeSvc):
`bind`/`clear` are one `SetValue` of an instance / of nil on the node itself, get-or-create is the locked
section `getOrCreate` of section 3 read sequentially.  The model driver `m_dssvc`, which is compared with the
real services on random operation sequences, runs get-or-create through the request interpreter (`gocRun`). -/

/-- get-or-create through the request interpreter (LockData; locker.Value; if nil: new instance,
locker.SetValue; Commit) never waits on a heap where nobody holds a lock, and is `svcGoc`: it returns what
the node resolves to when that is an instance, and otherwise makes instance `fresh` and stores it in the
node's own slot. -/
theorem gocRun_is_svcGoc (st : Store) (hwf : WF st.scopes) (hfree : AllFree st.scopes) (fresh n : Nat) (k : Key)
    (hn : n < st.scopes.length) :
    ∃ st', gocRun st fresh n k = some (st', (svcGoc ⟨st.scopes, fresh⟩ n k).1.fresh, (svcGoc ⟨st.scopes, fresh⟩ n k).2) ∧
      st'.scopes = (svcGoc ⟨st.scopes, fresh⟩ n k).1.ss :=
  gocRun_eq hwf hfree fresh n k hn

example :
    let st : Store := { scopes := [⟨none, [(101, some 4)], false⟩, ⟨some 0, [(101, none)], false⟩, ⟨some 0, [], false⟩], lockers := [] }
    (gocRun st 7 2 101).map (fun r => (r.1.scopes, r.2)) = some (st.scopes, 7, 4) ∧          -- follows the parent
    (gocRun st 7 1 101).map (fun r => (r.1.scopes, r.2)) =                                   -- cleared child: a new one
      some ([⟨none, [(101, some 4)], false⟩, ⟨some 0, [(101, some 7)], false⟩, ⟨some 0, [], false⟩], 8, 7) := by
  decide

/-- `BindScope(n, m)` is sticky: after it, whatever the other nodes do — for EVERY later sequence of service
operations (get-or-create, bind, clear, plain writes, locked sections, on the parent, on siblings, on
descendants, with any instances) that does not write the own slot of `n` for that key — node `n` resolves
to `m`.  In particular binding a child to the very instance its parent holds at that moment gives the child
its own value: re-binding or clearing the parent later does not move the child. -/
theorem bind_is_sticky (σ : Svc) (hwf : WF σ.ss) (n : Nat) (hn : n < σ.ss.length) (k : Key) (m : Nat)
    (ops : List SvcOp) (h : ∀ op ∈ ops, op.touches n k = false) :
    resolve (svcRun (svcBind σ n k m) ops) n k = some m :=
  svcRun_sticky (σ := svcBind σ n k m) (WF_dataSet hwf n k _) (dataGet_dataSet_same k (some m) hn) ops h

/-- `Clear(n)` is sticky in the same sense: the stored nil shadows the ancestors, so `n` resolves to nil
(and the next get-or-create on `n` makes a fresh instance) whatever the ancestors are given later. -/
theorem clear_is_sticky (σ : Svc) (hwf : WF σ.ss) (n : Nat) (hn : n < σ.ss.length) (k : Key)
    (ops : List SvcOp) (h : ∀ op ∈ ops, op.touches n k = false) :
    resolve (svcRun (svcClear σ n k) ops) n k = none :=
  svcRun_sticky (σ := svcClear σ n k) (WF_dataSet hwf n k _) (dataGet_dataSet_same k none hn) ops h

/-- more generally the own slot decides: a node that has one (instance or stored nil) answers with it for as
long as nothing writes that slot. -/
theorem own_slot_is_sticky (σ : Svc) (hwf : WF σ.ss) (n : Nat) (k : Key) (v : Val) (hown : ownSlot σ n k = some v)
    (ops : List SvcOp) (h : ∀ op ∈ ops, op.touches n k = false) :
    resolve (svcRun σ ops) n k = v :=
  svcRun_sticky hwf hown ops h

/-- get-or-create gives the node an own slot exactly when it made the instance; the instance is then `fresh` -/
theorem goc_creates_own (σ : Svc) (hwf : WF σ.ss) (n : Nat) (hn : n < σ.ss.length) (k : Key)
    (hnil : resolve σ n k = none) :
    (svcGoc σ n k).2 = σ.fresh ∧ (svcGoc σ n k).1.fresh = σ.fresh + 1 ∧
      ownSlot (svcGoc σ n k).1 n k = some (some σ.fresh) ∧ resolve (svcGoc σ n k).1 n k = some σ.fresh := by
  unfold resolve at hnil
  simp only [svcGoc, hnil, ownSlot, resolve]
  exact ⟨trivial, trivial, dataGet_dataSet_same k _ hn, value_dataSet_same hwf n k _ hn⟩

/-- … and stores nothing when the node already resolves to an instance (its own or an ancestor's) -/
theorem goc_finds (σ : Svc) (n : Nat) (k : Key) (i : Nat) (h : resolve σ n k = some i) : svcGoc σ n k = (σ, i) := by
  unfold resolve at h
  simp [svcGoc, h]

-- non-vacuity of the hypotheses of bind_is_sticky / clear_is_sticky, and the scenario they decide:
-- root 0 holds instance 0, child 1 is bound to that SAME instance, grandchild 2 and sibling 3 have nothing.
-- Then the root is re-bound to instance 5, cleared, a sibling gets-or-creates, a locked section rewrites
-- the root: none of these touches slot (1, 101), child 1 (and the grandchild that follows it) stay on 0.
example :
    let σ : Svc := { ss := [⟨none, [(101, some 0)], false⟩, ⟨some 0, [], false⟩, ⟨some 1, [], false⟩, ⟨some 0, [], false⟩], fresh := 1 }
    let ops : List SvcOp := [.bind 0 101 5, .goc 3 101, .clear 0 101, .goc 3 101, .sect 0 [(101, some 9), (102, none)], .goc 2 101, .set 2 102 (some 3)]
    WF σ.ss ∧ (∀ op ∈ ops, op.touches 1 101 = false) ∧
      resolve σ 1 101 = some 0 ∧ ownSlot σ 1 101 = none ∧                      -- before: follows the parent
      ownSlot (svcBind σ 1 101 0) 1 101 = some (some 0) ∧                       -- bind stores although the parent has the same
      (List.range 4).map (fun n => resolve (svcRun (svcBind σ 1 101 0) ops) n 101) = [some 9, some 0, some 0, some 1] ∧
      -- without the bind the child would have followed the root
      (List.range 4).map (fun n => resolve (svcRun σ ops) n 101) = [some 9, some 9, some 9, some 1] := by
  refine ⟨?_, by decide, by decide, by decide, by decide, by decide, by decide⟩
  intro i sc hi p hp
  match i, hi with
  | 0, hi => simp at hi; subst hi; simp at hp
  | 1, hi => simp at hi; subst hi; simp at hp; omega
  | 2, hi => simp at hi; subst hi; simp at hp; omega
  | 3, hi => simp at hi; subst hi; simp at hp; omega
  | i + 4, hi => simp at hi

-- clear on a child while no ancestor holds anything stores a nil: the child does not pick up what the parent gets later
example :
    let σ : Svc := { ss := [⟨none, [], false⟩, ⟨some 0, [], false⟩], fresh := 0 }
    let τ := svcRun (svcClear σ 1 101) [.goc 0 101]
    resolve τ 0 101 = some 0 ∧ resolve τ 1 101 = none ∧ (svcGoc τ 1 101).2 = 1 := by decide

end Goat.C13
