/-
Property C14 — pipeline tasks honour wait lists and never run after a failed prerequisite.

The theorems are about the executable model `Goat/Model/Pipeline.lean` (runner, task manager,
completion latch, manager `Wait`, nested submissions, try blocks) and quantify over ALL well-formed
graphs `g` (any number of tasks, any wait lists — also invalid ones —, any failing commands, nested
submissions and try blocks to any depth) and ALL schedules `sched : List Label` (every interleaving
of the main thread, the runner goroutines and the try goroutines, of any length).
`(run g sched).tr` is the trace of events of that run; a statement about `pre ++ e :: post` is a
statement about every occurrence of the event `e` and everything that happened before it.

LEVEL: partial.  That the running system (goroutines, scopes, terminal parsing) realises the model
is *sampled* by trace conformance: every trace recorded from the real code is run through the
monitor `accepts`, which decides exactly the declarative property every model run is proved to have
(`accepts_iff`, `model_runs_accepted`).  The clauses are one-directional where the implementation
is: task scopes share their parent's context, so a task may report an error although nothing of its
own failed; the converse implication is never demanded.

Helper lemmas: `Goat/Proofs/Pipeline*.lean`.  This file contains only the property statements and
their non-vacuity examples.
-/
import Goat.Proofs.PipelineExamples

namespace Goat.C14
open Goat.Pipeline

/-- A task starts its body (enters its first command) only after every task named in its wait list
has closed — and closed WITHOUT error. -/
theorem body_after_waits (g : Graph) (hw : wf g = true) (sched : List Label) (pre post : List Ev) (t : Nat)
    (h : (run g sched).tr = pre ++ Ev.cmd t 0 :: post) :
    ∀ w ∈ g.waits t, Ev.done w true ∈ pre := by
  have := run_traceOk ((wf_iff g).mp hw) sched pre _ post h
  have h2 := this.2.2.2
  simp only [if_true] at h2
  exact h2.2

example : ∃ pre post, (run gEx14 schedEx14).tr = pre ++ Ev.cmd 1 0 :: post ∧ gEx14.waits 1 = [0] ∧
    Ev.done 0 true ∈ pre :=
  ⟨[.sub 0, .acc 0, .sub 1, .acc 1, .sub 2, .acc 2, .cmd 0 0, .ret 0 0 true, .done 0 true],
   [.ret 1 0 true, .cmd 1 1, .ret 1 1 false, .done 1 false, .done 2 false, .mwait false, .fin 0 false,
    .fin 1 false, .fin 2 false, .root false], by rw [gEx14_trace]; rfl, rfl, by decide⟩

/-- If a task named in the wait list closed with an error, the body of the waiting task is never
executed (no command of it is ever entered) and the task itself cannot close without error. -/
theorem no_body_after_failed_prereq (g : Graph) (hw : wf g = true) (sched : List Label) (t w : Nat)
    (hwt : w ∈ g.waits t) (hf : Ev.done w false ∈ (run g sched).tr) :
    (∀ i, Ev.cmd t i ∉ (run g sched).tr) ∧ Ev.done t true ∉ (run g sched).tr :=
  failed_prereq (run_traceOk ((wf_iff g).mp hw) sched) hwt hf

example : (1 : Nat) ∈ gEx14.waits 2 ∧ Ev.done 1 false ∈ (run gEx14 schedEx14).tr ∧
    Ev.done 2 false ∈ (run gEx14 schedEx14).tr := by
  rw [gEx14_trace]; decide

/-- Within one body the commands are entered one at a time in script order: when command `i` is
entered it has not been entered before, and every earlier command has been entered and has returned
nil before; after a command FAILED — it returned an error, its name is unknown, or its text cannot be
read (ends inside a quoted argument / an unterminated multi-line value): `Cmd.fail`, the event
`ret t j false` marks the position — no later command of the task is entered, and the task does not
close without error (third part; with `all_finish`: it closes WITH an error). -/
theorem commands_in_order_stop_at_first_failure (g : Graph) (hw : wf g = true) (sched : List Label) :
    (∀ pre post t i, (run g sched).tr = pre ++ Ev.cmd t i :: post →
      i < (g.body t).length ∧ Ev.cmd t i ∉ pre ∧
      ∀ j, j < i → Ev.cmd t j ∈ pre ∧ Ev.ret t j true ∈ pre) ∧
    (∀ t j i, Ev.ret t j false ∈ (run g sched).tr → j < i → Ev.cmd t i ∉ (run g sched).tr) ∧
    (∀ t j, Ev.ret t j false ∈ (run g sched).tr → Ev.done t true ∉ (run g sched).tr) := by
  have htr := run_traceOk ((wf_iff g).mp hw) sched
  refine ⟨fun pre post t i h => ?_, fun t j i hf hji => no_cmd_after_failure htr hf hji,
    fun t j hf => no_done_true_after_failure htr hf⟩
  have := htr pre _ post h
  exact ⟨this.1, this.2.1, cmd_prev i htr h⟩

/-- the position of a failing command is exactly a `Cmd.fail` of the script: a command returns an
error only where the script says so (or where a submission is refused) -/
theorem failure_only_where_scripted (g : Graph) (hw : wf g = true) (sched : List Label) (pre post : List Ev)
    (t i : Nat) (h : (run g sched).tr = pre ++ Ev.ret t i false :: post) :
    g.cmdAt t i = some .fail ∨ (∃ c, g.cmdAt t i = some (.spawn c)) ∨ (∃ y, g.cmdAt t i = some (.try_ y)) := by
  have := (run_traceOk ((wf_iff g).mp hw) sched pre _ post h).2.2.2
  unfold retOk at this
  split at this
  · cases this
  · cases this
  · exact Or.inl (by assumption)
  · exact Or.inr (Or.inl ⟨_, by assumption⟩)
  · exact Or.inr (Or.inr ⟨_, by assumption⟩)
  · exact this.elim

example : Ev.ret 1 1 false ∈ (run gEx14 schedEx14).tr ∧ Ev.cmd 1 0 ∈ (run gEx14 schedEx14).tr ∧
    (gEx14.body 1).length = 2 := by
  rw [gEx14_trace]; decide

/-- A submission by name (top-level task or nested `pip:run`) is accepted only if every name in its
wait list was accepted strictly earlier: the wait relation of accepted tasks follows the order of
acceptance and is therefore acyclic. -/
theorem accepted_graph_acyclic (g : Graph) (hw : wf g = true) (sched : List Label) (pre post : List Ev) :
    (∀ t, (run g sched).tr = pre ++ Ev.acc t :: post → ∀ w ∈ g.waits t, acceptedEv g pre w) ∧
    (∀ p i c, (run g sched).tr = pre ++ Ev.ret p i true :: post → g.cmdAt p i = some (.spawn c) →
      ∀ w ∈ g.waits c, acceptedEv g pre w) := by
  have htr := run_traceOk ((wf_iff g).mp hw) sched
  refine ⟨fun t h => (htr pre _ post h).2, fun p i c h hc => ?_⟩
  have := (htr pre _ post h).2.2.2
  unfold retOk at this
  rw [hc] at this
  exact this rfl

example : ∃ pre post, (run gEx14 schedEx14).tr = pre ++ Ev.acc 2 :: post ∧ acceptedEv gEx14 pre 1 :=
  ⟨[.sub 0, .acc 0, .sub 1, .acc 1, .sub 2], _, by rw [gEx14_trace]; rfl, by decide⟩

/-- Deadlock freedom and termination: whatever has happened so far, the run can be continued until the
main thread has finished — `TasksManager.Wait` has returned — and then every accepted task has
released its latch.  (`progress`: in every reachable state in which the main thread has not
finished some thread can move; `mu_step`: every step decreases a measure.) -/
theorem all_finish (g : Graph) (hw : wf g = true) (sched : List Label) :
    ∃ ext, (run g (sched ++ ext)).mp = .finished ∧
      ∀ u, ((run g (sched ++ ext)).pc u).accepted = true → (run g (sched ++ ext)).pc u = .finished := by
  have hW := (wf_iff g).mp hw
  obtain ⟨ext, hext⟩ := can_finish hW _ _ (LTS.run_reachable (sys g) sched) rfl
  refine ⟨ext, ?_, ?_⟩
  · unfold run LTS.Sys.run; rw [LTS.runFrom_append]; exact hext
  · have hq := (run_quiet_ok2 hW (sched ++ ext)).1
    apply hq
    right
    unfold run LTS.Sys.run; rw [LTS.runFrom_append]; exact hext

example : (run gEx14 schedEx14).mp = .finished := gEx14_finished

/-- no reachable stuck state while the main thread is still waiting -/
theorem no_stuck_state (g : Graph) (hw : wf g = true) (sched : List Label)
    (h : (run g sched).mp ≠ .finished) : ∃ l, (step g (run g sched) l).isSome = true :=
  progress ((wf_iff g).mp hw) (inv_reachable ((wf_iff g).mp hw) (LTS.run_reachable (sys g) sched)) h

/-- When the manager's `Wait` returns, every task whose acceptance is visible in the trace (top-level
tasks, nested `pip:run` tasks, try bodies) has closed before; and it returns in every run that is
continued long enough (`all_finish`). -/
theorem manager_wait_returns (g : Graph) (hw : wf g = true) (sched : List Label) :
    (∀ pre post ok, (run g sched).tr = pre ++ Ev.mwait ok :: post →
      ∀ t, t < g.n → acceptedEv g pre t → hasDone pre t) ∧
    (∃ ext ok, Ev.mwait ok ∈ (run g (sched ++ ext)).tr) := by
  have hW := (wf_iff g).mp hw
  refine ⟨fun pre post ok h t ht ha => ?_, ?_⟩
  · exact (run_traceOk hW sched pre _ post h).1 t (List.mem_range.mpr ht) ha
  · obtain ⟨ext, hfin, _⟩ := all_finish g hw sched
    have hI := inv_reachable hW (LTS.run_reachable (sys g) (sched ++ ext))
    have := hI.mi.mw (Or.inr hfin)
    rcases this with h | h
    · exact ⟨ext, true, h⟩
    · exact ⟨ext, false, h⟩

/-- `Wait` reports an error exactly when some task closed with an error. -/
theorem manager_error_iff_some_failed (g : Graph) (hw : wf g = true) (sched : List Label)
    (pre post : List Ev) (ok : Bool) (h : (run g sched).tr = pre ++ Ev.mwait ok :: post) :
    ok = false ↔ ∃ u, Ev.done u false ∈ pre := by
  have hW := (wf_iff g).mp hw
  have h1 := (run_traceOk hW sched pre _ post h).2
  have h2 := (run_quiet_ok2 hW sched).2 pre _ post h
  cases ok
  · simp only [true_iff]
    obtain ⟨e, he, hd⟩ := h2
    cases e <;> simp [isDoneFail] at hd
    rename_i u b
    cases b <;> simp at hd
    exact ⟨u, he⟩
  · simp only [Bool.true_eq_false, false_iff, if_true] at h1 ⊢
    rintro ⟨u, hu⟩
    have := h1 _ hu
    simp [isDoneFail] at this

example : ∃ pre post, (run gEx14 schedEx14).tr = pre ++ Ev.mwait false :: post ∧ Ev.done 1 false ∈ pre :=
  ⟨[.sub 0, .acc 0, .sub 1, .acc 1, .sub 2, .acc 2, .cmd 0 0, .ret 0 0 true, .done 0 true, .cmd 1 0,
    .ret 1 0 true, .cmd 1 1, .ret 1 1 false, .done 1 false, .done 2 false],
   [.fin 0 false, .fin 1 false, .fin 2 false, .root false], by rw [gEx14_trace]; rfl, by decide⟩

/-! ### The trace monitor -/

/-- The monitor is sound and complete for the declarative trace property: it accepts a trace iff
every event of the trace satisfies its clause (`Ok`, `Ok2` in `Model/Pipeline.lean`) with respect to
the events before it. -/
theorem accepts_iff (g : Graph) (tr : List Ev) :
    accepts g tr = true ↔
      (∀ pre e post, tr = pre ++ e :: post → Ok g pre e) ∧ (∀ pre e post, tr = pre ++ e :: post → Ok2 g pre e) :=
  Goat.Pipeline.accepts_iff g tr

/-- Every run of the model, under every schedule, is accepted by the monitor. -/
theorem model_runs_accepted (g : Graph) (hw : wf g = true) (sched : List Label) :
    accepts g (run g sched).tr = true :=
  run_accepted ((wf_iff g).mp hw) sched

example : accepts gEx14 (run gEx14 schedEx14).tr = true := model_runs_accepted gEx14 gEx14_wf schedEx14

/-- the monitor rejects a trace in which a body starts before its prerequisite has closed -/
example : accepts gEx14 [.sub 0, .acc 0, .sub 1, .acc 1, .cmd 1 0] = false := by decide

/-! ### The defect of the pinned tree (fixed by a91657e) -/

/-- In the model of the code BEFORE the fix — a rejected submission stays in the manager's table
with its completion latch armed — one rejected submission is enough: no schedule whatsoever lets
`TasksManager.Wait` return. -/
theorem reject_leaves_latch (sched : List Label) (b : Bool) :
    wf gLatch = true ∧ Ev.mwait b ∉ ((sysOld gLatch).run sched).tr :=
  ⟨gLatch_wf, latch_never_returns sched b⟩

/-- … whereas in the model of the repaired code the same graph finishes -/
example : ∃ sched, (run gLatch sched).mp = .finished :=
  ⟨rep 3 .main ++ rep 4 .main, by decide⟩

end Goat.C14
