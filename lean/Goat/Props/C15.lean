/-
Property C15 — named resource locks (`commservices.SharedMutex`): writers exclude everyone,
readers share, no deadlock.

  "Two tasks (or any two holders of the shared mutex) whose lock maps name the same resource never
   hold it at the same time unless both asked for read access; holders of disjoint or
   read-only-overlapping maps are not serialised against each other by the lock.  Any set of
   holders with any lock maps always all get their turn: acquisition never deadlocks.
   Quantifier: for all numbers of holders, all lock maps over a resource pool (any mix of read and
   write, any size), all hold durations, and all interleavings."

Model: `Goat/Model/Mutex.lean`.  `sys v maps` is the transition system of `n = maps.length` holders,
holder `i` executing `h := SharedMutex.Lock(maps[i]); …critical section…; h.Unlock()`, one atomic
step per RWMutex operation; `v` selects the lock semantics: `.plain` (ideal readers/writer lock) or
`.pref` (Go's `sync.RWMutex`: a writer first announces itself, then waits for the readers inside to
leave; readers arriving after the announcement are parked until that writer unlocks).  EVERY theorem
below is proved for BOTH variants (`∀ v`), for every number of holders (`maps : List LockMap`, any
length), every lock map (any list of rows with distinct names — Go map keys — in any iteration
order), and every interleaving and all hold durations (`sched : List Nat`, any length: a schedule
names which holder moves next; a holder that stays in its critical section for a long time is one
that is not scheduled for a long time; choices of blocked holders are skipped).

Vocabulary (`Goat/Proofs/MutexMain.lean`, namespace `Goat.Mutex`):
  `NodupNames m`      : the names of the rows of `m` are pairwise distinct
  `InsideAt s i`      : holder `i` is in its critical section (`Lock` returned, `Unlock` not yet called)
  `HoldsAt s i r`     : holder `i` has acquired row `r = (name, write?)` and not yet released it
  `ActiveAt s i`      : holder `i` exists and has not finished
  `AllDone s`         : every holder has finished
  `MapsCompatible a b`: every name common to `a` and `b` is requested for reading on both sides
  `step v s i`        : `some s'` if holder `i` can move in `s`, `none` if it is blocked or finished

Sections 1–5 are about holders that acquire, hold and release.  Sections 6–8 are about the holders the
property names first — pipeline tasks, which wait for the tasks of their wait list BEFORE they take
their lock map (`Goat/Model/MutexTasks.lean`, tied to `Runner.runGo` by `Goat/Tie/C15.lean`).
-/
import Goat.Proofs.MutexMain
import Goat.Proofs.MutexParties
import Goat.Model.MutexNames
import Goat.Proofs.MutexTasksMain

namespace Goat.C15

open Goat Goat.Mutex Goat.LTS

/-! ### 1. Exclusion -/

/-- Two holders that are inside their critical sections at the same time have compatible lock
maps: a resource named by both is read-locked by both. -/
theorem exclusion (v : Variant) (maps : List LockMap) (hmaps : ∀ m ∈ maps, NodupNames m)
    (sched : List Nat) (i j : Nat) (hne : i ≠ j) (mi mj : LockMap)
    (hmi : maps[i]? = some mi) (hmj : maps[j]? = some mj)
    (in1 : InsideAt ((sys v maps).run sched) i) (in2 : InsideAt ((sys v maps).run sched) j) :
    ∀ m w1 w2, (m, w1) ∈ mi → (m, w2) ∈ mj → w1 = false ∧ w2 = false :=
  exclusion_main v maps hmaps (run_reachable _ sched) hne hmi hmj in1 in2

/-- The same at the level of single rows, also while holders are still acquiring or already
releasing: a resource held for writing is held by nobody else in any mode. -/
theorem exclusion_rows (v : Variant) (maps : List LockMap) (hmaps : ∀ m ∈ maps, NodupNames m)
    (sched : List Nat) (i j : Nat) (hne : i ≠ j) (m : Name) (w : Bool)
    (h1 : HoldsAt ((sys v maps).run sched) i (m, true)) :
    ¬ HoldsAt ((sys v maps).run sched) j (m, w) :=
  exclusion_rows_main v maps hmaps (run_reachable _ sched) hne h1

-- non-vacuity: two readers of resource 0 and a writer of resource 1 are inside together;
-- the hypotheses of `exclusion` hold for holders 0 and 1 (and its conclusion is about row (0,false))
example : InsideAt ((sys .pref [[(0, false), (1, true)], [(0, false)]]).run [0, 0, 0, 0, 1, 1]) 0 ∧
    InsideAt ((sys .pref [[(0, false), (1, true)], [(0, false)]]).run [0, 0, 0, 0, 1, 1]) 1 := by
  constructor <;> exact ⟨_, rfl, rfl⟩

example : ∀ m ∈ [[(0, false), (1, true)], [((0 : Name), false)]], NodupNames m := by
  intro m hm; simp at hm; rcases hm with rfl | rfl <;> simp [NodupNames]

/-! ### 2. Compatible holders are never blocked -/

/-- A holder whose lock map is compatible with the map of every other holder (disjoint names, or
common names read on both sides) can move in every reachable state until it has finished: the
lock never makes it wait, whatever the other holders do. -/
theorem disjoint_never_blocked (v : Variant) (maps : List LockMap) (hmaps : ∀ m ∈ maps, NodupNames m)
    (sched : List Nat) (i : Nat)
    (hc : ∀ mi, maps[i]? = some mi → ∀ j mj, j ≠ i → maps[j]? = some mj → MapsCompatible mi mj)
    (hact : ActiveAt ((sys v maps).run sched) i) :
    (step v ((sys v maps).run sched) i).isSome = true :=
  never_blocked_main v maps hmaps (run_reachable _ sched) hc hact

-- non-vacuity: holder 0 = {0:R, 1:W} is compatible with holder 1 = {0:R} and holder 2 = {2:W, 3:W}
example : ∀ mi, [[((0 : Name), false), (1, true)], [(0, false)], [(3, true), (2, true)]][0]? = some mi →
    ∀ j mj, j ≠ 0 → [[((0 : Name), false), (1, true)], [(0, false)], [(3, true), (2, true)]][j]? = some mj →
      MapsCompatible mi mj := by
  intro mi hmi j mj hj hmj
  simp at hmi; subst hmi
  match j, hj, hmj with
  | 1, _, hmj => simp at hmj; subst hmj; intro m w1 w2 h1 h2; simp at h1 h2; rcases h1 with ⟨rfl, rfl⟩ | ⟨rfl, rfl⟩ <;> simp_all
  | 2, _, hmj => simp at hmj; subst hmj; intro m w1 w2 h1 h2; simp at h1 h2; rcases h1 with ⟨rfl, rfl⟩ | ⟨rfl, rfl⟩ <;> simp_all
  | (k + 3), _, hmj => simp at hmj

/-- Three and more parties.  A holder `a`, ANY number of further holders `bs` with ANY maps — in the check's
`parties` cases: requests that conflict with `a` and are parked inside `Lock`, possibly holding part of their
maps — and a late-comer `c` (the last index, `bs.length + 1`) whose map is disjoint from, or only read-overlaps
with, the map of `a` and of every member of `bs`: in EVERY reachable state — in particular while `a` is inside
and every member of `bs` is blocked — `c` can make its next move until it has finished.  Nothing that the
others hold or wait for serialises `c` behind them. -/
theorem third_party_not_serialised (v : Variant) (a : LockMap) (bs : List LockMap) (c : LockMap)
    (hmaps : ∀ m ∈ a :: bs ++ [c], NodupNames m)
    (hca : MapsCompatible c a) (hcb : ∀ b ∈ bs, MapsCompatible c b) (sched : List Nat)
    (hact : ActiveAt ((sys v (a :: bs ++ [c])).run sched) (bs.length + 1)) :
    (step v ((sys v (a :: bs ++ [c])).run sched) (bs.length + 1)).isSome = true :=
  parties_never_blocked_main v a bs c hmaps hca hcb (run_reachable _ sched) hact

-- non-vacuity: A = {1:W} is inside; B = {0:W, 1:W} holds 0 and is blocked on 1 (no step); C = {2:W, 3:R}
-- (compatible with both) has not started and is active — and scheduled alone (5 moves) it is inside its
-- critical section while A is still inside and B still cannot move
example : InsideAt ((sys .pref [[(1, true)], [(0, true), (1, true)], [(2, true), (3, false)]]).run [0, 0, 0, 1, 1]) 0 ∧
    step .pref ((sys .pref [[(1, true)], [(0, true), (1, true)], [(2, true), (3, false)]]).run [0, 0, 0, 1, 1]) 1 = none ∧
    HoldsAt ((sys .pref [[(1, true)], [(0, true), (1, true)], [(2, true), (3, false)]]).run [0, 0, 0, 1, 1]) 1 (0, true) ∧
    ActiveAt ((sys .pref [[(1, true)], [(0, true), (1, true)], [(2, true), (3, false)]]).run [0, 0, 0, 1, 1]) 2 :=
  ⟨⟨_, rfl, rfl⟩, rfl, ⟨_, rfl, by decide⟩, ⟨_, rfl, by decide⟩⟩

example : InsideAt ((sys .pref [[(1, true)], [(0, true), (1, true)], [(2, true), (3, false)]]).run [0, 0, 0, 1, 1, 2, 2, 2, 2]) 0 ∧
    step .pref ((sys .pref [[(1, true)], [(0, true), (1, true)], [(2, true), (3, false)]]).run [0, 0, 0, 1, 1, 2, 2, 2, 2]) 1 = none ∧
    InsideAt ((sys .pref [[(1, true)], [(0, true), (1, true)], [(2, true), (3, false)]]).run [0, 0, 0, 1, 1, 2, 2, 2, 2]) 2 :=
  ⟨⟨_, rfl, rfl⟩, rfl, ⟨_, rfl, rfl⟩⟩

example : MapsCompatible [((2 : Name), true), (3, false)] [(1, true)] ∧
    ∀ b ∈ [[((0 : Name), true), (1, true)]], MapsCompatible [((2 : Name), true), (3, false)] b := by
  refine ⟨?_, ?_⟩
  · intro m w1 w2 h1 h2; simp at h1 h2; rcases h1 with ⟨rfl, rfl⟩ | ⟨rfl, rfl⟩ <;> simp_all
  · intro b hb; simp at hb; subst hb
    intro m w1 w2 h1 h2; simp at h1 h2; rcases h1 with ⟨rfl, rfl⟩ | ⟨rfl, rfl⟩ <;> rcases h2 with ⟨h, _⟩ | ⟨h, _⟩ <;> simp_all

/-! ### 3. Deadlock freedom and completion -/

/-- Whatever the number of holders, their lock maps and the interleaving so far: as long as
somebody has not finished, somebody can move. -/
theorem deadlock_free (v : Variant) (maps : List LockMap) (hmaps : ∀ m ∈ maps, NodupNames m)
    (sched : List Nat) (hact : ¬ AllDone ((sys v maps).run sched)) :
    ∃ i, (step v ((sys v maps).run sched) i).isSome = true :=
  deadlock_free_main v maps hmaps (run_reachable _ sched) hact

/-- Every step makes progress: no schedule, however long, contains more than `4·|map| + 4` moves
per holder.  Together with `deadlock_free`: every execution that keeps scheduling an enabled holder
ends, after at most that many moves, in the state where all holders have had their turn. -/
theorem steps_bounded (v : Variant) (maps : List LockMap) (sched : List Nat) :
    ((sys v maps).fired sched).length ≤ (maps.map fun m => 4 * m.length + 4).sum :=
  fired_bounded_main v maps sched

/-- From every reachable state the holders can all be completed. -/
theorem all_get_their_turn (v : Variant) (maps : List LockMap) (hmaps : ∀ m ∈ maps, NodupNames m)
    (sched : List Nat) : ∃ more : List Nat, AllDone ((sys v maps).run (sched ++ more)) := by
  obtain ⟨more, h⟩ := can_finish_main v maps hmaps (run_reachable (sys v maps) sched)
  exact ⟨more, by rw [Sys.run, runFrom_append]; exact h⟩

-- non-vacuity: three holders with overlapping maps, given in different iteration orders, mid-run
example : ¬ AllDone ((sys .pref [[(2, true), (0, true)], [(0, true), (2, false)], [(2, false)]]).run [0, 0, 1, 2]) := by
  intro h; have := h _ (List.mem_cons_self ..); revert this; decide

/-! ### 4. The sort is what the theorem uses -/

/-- Without the sort (`sysRaw`: rows are acquired in map-iteration order) two holders whose maps
name the same two resources in opposite orders reach a state in which neither has finished and
no step is enabled — for both lock variants. -/
theorem unsorted_can_deadlock (v : Variant) :
    ∃ (reqs : List (List Row)) (sched : List Nat),
      (∀ r ∈ reqs, NodupNames r) ∧ reqs.length = 2 ∧
      ¬ AllDone ((sysRaw v reqs).run sched) ∧ Stuck (sysRaw v reqs) ((sysRaw v reqs).run sched) := by
  have hnd : ∀ r ∈ [[((0 : Name), true), (1, true)], [(1, true), (0, true)]], NodupNames r := by
    intro r hr; simp at hr; rcases hr with rfl | rfl <;> simp [NodupNames]
  cases v with
  | plain =>
    -- 0 takes resource 0, 1 takes resource 1; each now needs what the other holds
    refine ⟨[[(0, true), (1, true)], [(1, true), (0, true)]], [0, 1], hnd, rfl, ?_, ?_⟩
    · intro h; have := h _ (List.mem_cons_self ..); revert this; decide
    · intro i
      match i with
      | 0 => rfl
      | 1 => rfl
      | (k + 2) => rfl
  | pref =>
    -- announce + acquire for each holder, then each finds the other's writer side taken
    refine ⟨[[(0, true), (1, true)], [(1, true), (0, true)]], [0, 0, 1, 1], hnd, rfl, ?_, ?_⟩
    · intro h; have := h _ (List.mem_cons_self ..); revert this; decide
    · intro i
      match i with
      | 0 => rfl
      | 1 => rfl
      | (k + 2) => rfl

/-- `SharedMutex.Lock`'s sort turns every map into a strictly increasing acquisition order with the
same rows; with it the two maps of `unsorted_can_deadlock` are harmless (instance of `deadlock_free`). -/
theorem sort_orders (m : LockMap) (h : NodupNames m) :
    Sorted (sortRows m) ∧ ∀ r, r ∈ sortRows m ↔ r ∈ m :=
  ⟨sorted_sortRows h, fun _ => mem_sortRows⟩

example : sortRows [(1, true), (0, true)] = [(0, true), (1, true)] := by decide

/-! ### 5. The interval monitor used on traces of the real code -/

/-- The monitor accepts a list of recorded critical-section intervals exactly when any two of
them that were recorded by different holders and intersect in time belong to compatible lock maps. -/
theorem monitor_accepts_iff (ivs : List Interval) :
    monitor ivs = none ↔
      ∀ (i j : Nat) (x y : Interval), i ≠ j → ivs[i]? = some x → ivs[j]? = some y → x.holder ≠ y.holder →
        overlap x y = true → ∀ m w1 w2, (m, w1) ∈ x.rows → (m, w2) ∈ y.rows → w1 = false ∧ w2 = false :=
  monitor_none_iff ivs

-- two writers of resource 7 with intersecting intervals are rejected; readers are accepted
example : monitor [⟨0, [(7, true)], 1, 4⟩, ⟨1, [(7, true)], 3, 6⟩] = some (0, 1, 7) := by decide
example : monitor [⟨0, [(7, false)], 1, 4⟩, ⟨1, [(7, false)], 3, 6⟩] = none := by decide

/-! ### 6. The holders are pipeline tasks: the wait list first, then the lock map

Model: `Goat/Model/MutexTasks.lean` (namespace `Goat.MutexTasks`).  `tsys v tasks` is the transition
system of `tasks.length` tasks run by `Runner.runGo`: task `i` first goes through `waitForTasks` (one
step per entry of its wait list, enabled only when that task has ended — its deferred `Unlock` and
then `task.Close()` have run; an entry that ended with an error ends the waiting task without any
lock), THEN calls `SharedMutex.Lock(tasks[i].map)`, runs its body, unlocks, ends.  The lock table is
the one of sections 1–5 (both variants), so the lock-level steps are literally `Goat.Mutex.step`.
Every theorem is for all numbers of tasks, all lock maps, all wait lists over earlier tasks
(`WellFormed`, what `validWaitList` guarantees at `Create`), all failing subsets, all schedules.

  `MutexTasks.Task`          : wait list (indices), lock map, whether the body fails
  `MutexTasks.WellFormed`    : every wait list names tasks with a smaller index
  `MutexTasks.AllFinished`   : every task has ended
  `MutexTasks.finishedAt ts j` / `failedAt tasks ts j` : task `j` has ended / ended with an error
  `ts.lock`                  : the lock table (`Goat.Mutex.State`), entry `i` belongs to task `i`
  `ts.stage[i]`              : `.waiting k` (in `waitForTasks`), `.running` (between `Lock` and the end
                               of `Unlock`), `.aborted` (returned from `waitForTasks` with the error)
-/

/-- Whatever the tasks, their maps, their wait lists and the interleaving so far: as long as some task
has not ended, some task can move.  (Tasks still in `waitForTasks` hold nothing, so among the tasks
that called `Lock` the greatest-awaited-name argument of `deadlock_free` applies unchanged; if the
lock table is idle, the waiting task with the least index finds its prerequisite ended.) -/
theorem tasks_deadlock_free (v : Variant) (tasks : List MutexTasks.Task) (hwf : MutexTasks.WellFormed tasks)
    (hmaps : ∀ t ∈ tasks, NodupNames t.map) (sched : List Nat)
    (hact : ¬ MutexTasks.AllFinished tasks ((MutexTasks.tsys v tasks).run sched)) :
    ∃ i, (MutexTasks.step v tasks ((MutexTasks.tsys v tasks).run sched) i).isSome = true :=
  MutexTasks.tasks_deadlock_free_main v tasks hwf hmaps (run_reachable _ sched) hact

/-- No schedule contains more than `|wait list| + 4·|map| + 5` moves per task. -/
theorem tasks_steps_bounded (v : Variant) (tasks : List MutexTasks.Task) (sched : List Nat) :
    ((MutexTasks.tsys v tasks).fired sched).length ≤
      (tasks.map fun t => t.waits.length + 4 * t.map.length + 5).sum :=
  MutexTasks.tasks_fired_bounded_main v tasks sched

/-- From every reachable state all tasks can be brought to their end: every task gets its turn. -/
theorem tasks_all_finish (v : Variant) (tasks : List MutexTasks.Task) (hwf : MutexTasks.WellFormed tasks)
    (hmaps : ∀ t ∈ tasks, NodupNames t.map) (sched : List Nat) :
    ∃ more : List Nat, MutexTasks.AllFinished tasks ((MutexTasks.tsys v tasks).run (sched ++ more)) := by
  obtain ⟨more, h⟩ := MutexTasks.tasks_can_finish_main v tasks hwf hmaps (run_reachable (MutexTasks.tsys v tasks) sched)
  exact ⟨more, by rw [Sys.run, runFrom_append]; exact h⟩

/-- Exclusion is unaffected by the waiting phase: two tasks inside their bodies at the same time have
compatible lock maps. -/
theorem tasks_exclusion (v : Variant) (tasks : List MutexTasks.Task) (hmaps : ∀ t ∈ tasks, NodupNames t.map)
    (sched : List Nat) (i j : Nat) (hne : i ≠ j) (ti tj : MutexTasks.Task)
    (hti : tasks[i]? = some ti) (htj : tasks[j]? = some tj)
    (in1 : InsideAt ((MutexTasks.tsys v tasks).run sched).lock i)
    (in2 : InsideAt ((MutexTasks.tsys v tasks).run sched).lock j) :
    ∀ m w1 w2, (m, w1) ∈ ti.map → (m, w2) ∈ tj.map → w1 = false ∧ w2 = false :=
  MutexTasks.tasks_exclusion_main v tasks hmaps (run_reachable _ sched) hne hti htj in1 in2

/-- Row level, at every instant: a resource held for writing by one task is held by no other task. -/
theorem tasks_exclusion_rows (v : Variant) (tasks : List MutexTasks.Task) (hmaps : ∀ t ∈ tasks, NodupNames t.map)
    (sched : List Nat) (i j : Nat) (hne : i ≠ j) (m : Name) (w : Bool)
    (h1 : HoldsAt ((MutexTasks.tsys v tasks).run sched).lock i (m, true)) :
    ¬ HoldsAt ((MutexTasks.tsys v tasks).run sched).lock j (m, w) :=
  MutexTasks.tasks_exclusion_rows_main v tasks hmaps (run_reachable _ sched) hne h1

/-- A task that is still waiting for its prerequisites (or gave up because one of them failed) holds
no resource — the fact the swapped order destroys. -/
theorem tasks_waiting_hold_nothing (v : Variant) (tasks : List MutexTasks.Task) (hmaps : ∀ t ∈ tasks, NodupNames t.map)
    (sched : List Nat) (i : Nat) (st : MutexTasks.Stage)
    (hs : ((MutexTasks.tsys v tasks).run sched).stage[i]? = some st) (hne : st ≠ .running) (r : Row) :
    ¬ HoldsAt ((MutexTasks.tsys v tasks).run sched).lock i r :=
  MutexTasks.tasks_waiting_holds_nothing_main v tasks hmaps (run_reachable _ sched) hs hne r

/-- A task is inside its body only when every task of its wait list has ended — has released all its
resources and closed — without error. -/
theorem tasks_body_after_prereqs (v : Variant) (tasks : List MutexTasks.Task) (hmaps : ∀ t ∈ tasks, NodupNames t.map)
    (sched : List Nat) (i : Nat) (t : MutexTasks.Task) (ht : tasks[i]? = some t)
    (hin : InsideAt ((MutexTasks.tsys v tasks).run sched).lock i) :
    ∀ j ∈ t.waits, MutexTasks.finishedAt ((MutexTasks.tsys v tasks).run sched) j = true ∧
      MutexTasks.failedAt tasks ((MutexTasks.tsys v tasks).run sched) j = false ∧
      ∀ r, ¬ HoldsAt ((MutexTasks.tsys v tasks).run sched).lock j r := by
  intro j hj
  obtain ⟨h1, h2⟩ := MutexTasks.tasks_body_after_prereqs_main v tasks hmaps (run_reachable _ sched) ht hin j hj
  exact ⟨h1, h2, MutexTasks.tasks_finished_holds_nothing_main v tasks hmaps (run_reachable _ sched) h1⟩

/-- Tasks are serialised by wait lists and by conflicting maps only: once past `waitForTasks`, a task
whose map is compatible with every other task's map can always move. -/
theorem tasks_compatible_never_blocked (v : Variant) (tasks : List MutexTasks.Task)
    (hmaps : ∀ t ∈ tasks, NodupNames t.map) (sched : List Nat) (i : Nat)
    (hc : ∀ mi, (MutexTasks.mapsOf tasks)[i]? = some mi → ∀ j mj, j ≠ i →
      (MutexTasks.mapsOf tasks)[j]? = some mj → MapsCompatible mi mj)
    (hact : ActiveAt ((MutexTasks.tsys v tasks).run sched).lock i) :
    (MutexTasks.step v tasks ((MutexTasks.tsys v tasks).run sched) i).isSome = true :=
  MutexTasks.tasks_never_blocked_main v tasks hmaps (run_reachable _ sched) hc hact

-- non-vacuity.  A = {0:W}; B = {1:W, 0:W}; D waits for B and needs {1:W} (the adversarial family of the
-- check: D and its prerequisite B share resource 1, A delays B on the smaller resource 0).
example : MutexTasks.WellFormed
    [⟨[], [(0, true)], false⟩, ⟨[], [(1, true), (0, true)], false⟩, ⟨[1], [(1, true)], false⟩] := by
  intro i t ht j hj
  match i, ht with
  | 0, ht => simp at ht; subst ht; simp at hj
  | 1, ht => simp at ht; subst ht; simp at hj
  | 2, ht => simp at ht; subst ht; simp at hj; omega
  | (k + 3), ht => simp at ht

example : ∀ t ∈ ([⟨[], [(0, true)], false⟩, ⟨[], [(1, true), (0, true)], false⟩, ⟨[1], [(1, true)], false⟩] :
    List MutexTasks.Task), NodupNames t.map := by
  intro t ht; simp at ht; rcases ht with rfl | rfl | rfl <;> simp [NodupNames]

-- D moves first as often as it likes: it stays in `waitForTasks`, holds nothing, and B (delayed by A) is not finished
example : ¬ MutexTasks.AllFinished
    [⟨[], [(0, true)], false⟩, ⟨[], [(1, true), (0, true)], false⟩, ⟨[1], [(1, true)], false⟩]
    ((MutexTasks.tsys .pref
      [⟨[], [(0, true)], false⟩, ⟨[], [(1, true), (0, true)], false⟩, ⟨[1], [(1, true)], false⟩]).run
      [2, 2, 0, 0, 0, 0, 1, 1, 2]) := by
  intro h; have := h 2 (by decide); revert this; decide

-- … and after A and B have ended D is inside its body (hypothesis of `tasks_body_after_prereqs` for i = 2)
example : InsideAt ((MutexTasks.tsys .plain
      [⟨[], [(0, true)], false⟩, ⟨[], [(1, true), (0, true)], false⟩, ⟨[1], [(1, true)], false⟩]).run
      [0, 0, 0, 1, 0, 0, 0, 1, 1, 1, 1, 1, 1, 1, 2, 2, 2, 2]).lock 2 := ⟨_, rfl, rfl⟩

-- two readers of resource 0, the second waiting for a third task, are inside together (`tasks_exclusion`)
example : InsideAt ((MutexTasks.tsys .pref
      [⟨[], [(0, false)], false⟩, ⟨[], [], false⟩, ⟨[1], [(0, false)], false⟩]).run
      [0, 0, 0, 1, 1, 1, 1, 2, 2, 2, 2]).lock 0 ∧
    InsideAt ((MutexTasks.tsys .pref
      [⟨[], [(0, false)], false⟩, ⟨[], [], false⟩, ⟨[1], [(0, false)], false⟩]).run
      [0, 0, 0, 1, 1, 1, 1, 2, 2, 2, 2]).lock 2 := by
  constructor <;> exact ⟨_, rfl, rfl⟩

-- a prerequisite whose body fails: the dependant gives up in `waitForTasks` and never takes its lock map
example : ((MutexTasks.tsys .pref [⟨[], [(0, true)], true⟩, ⟨[0], [(0, true)], false⟩]).run
      [0, 0, 0, 0, 0, 0, 0, 1]).stage[1]? = some .aborted ∧
    MutexTasks.AllFinished [⟨[], [(0, true)], true⟩, ⟨[0], [(0, true)], false⟩]
      ((MutexTasks.tsys .pref [⟨[], [(0, true)], true⟩, ⟨[0], [(0, true)], false⟩]).run
        [0, 0, 0, 0, 0, 0, 0, 1]) := by
  refine ⟨rfl, ?_⟩
  intro j hj
  match j, hj with
  | 0, _ => rfl
  | 1, _ => rfl

/-- A task whose body fails is no obstacle.  In every reachable state (1) a task that has ended — its body
succeeded, failed, or it gave up in `waitForTasks` — holds no resource; (2) a task gives up only because a
task of its own wait list has ended with an error (its body failed, or it had given up itself), and it
never held anything; (3) all tasks can still be brought to their end — in particular every task that
needs a resource the failed task held gets it. -/
theorem failed_task_releases (v : Variant) (tasks : List MutexTasks.Task) (hwf : MutexTasks.WellFormed tasks)
    (hmaps : ∀ t ∈ tasks, NodupNames t.map) (sched : List Nat) :
    (∀ j r, MutexTasks.finishedAt ((MutexTasks.tsys v tasks).run sched) j = true →
      ¬ HoldsAt ((MutexTasks.tsys v tasks).run sched).lock j r) ∧
    (∀ i t, tasks[i]? = some t → ((MutexTasks.tsys v tasks).run sched).stage[i]? = some .aborted →
      (∀ r, ¬ HoldsAt ((MutexTasks.tsys v tasks).run sched).lock i r) ∧
      ∃ j ∈ t.waits, MutexTasks.finishedAt ((MutexTasks.tsys v tasks).run sched) j = true ∧
        MutexTasks.failedAt tasks ((MutexTasks.tsys v tasks).run sched) j = true) ∧
    ∃ more : List Nat, MutexTasks.AllFinished tasks ((MutexTasks.tsys v tasks).run (sched ++ more)) :=
  ⟨fun _ r hf => MutexTasks.tasks_finished_holds_nothing_main v tasks hmaps (run_reachable _ sched) hf r,
   fun i t ht hs =>
    ⟨fun r => MutexTasks.tasks_waiting_holds_nothing_main v tasks hmaps (run_reachable _ sched) hs (by simp) r,
     MutexTasks.abortedWhy_reachable (run_reachable _ sched) i t ht hs⟩,
   tasks_all_finish v tasks hwf hmaps sched⟩

-- F = {0:W} fails; D waits for F and gives up; S = {0:W, 1:W} gets resource 0 afterwards and is inside its body
example : ((MutexTasks.tsys .pref
      [⟨[], [(0, true)], true⟩, ⟨[0], [(1, true)], false⟩, ⟨[], [(1, true), (0, true)], false⟩]).run
      [0, 0, 0, 0, 0, 0, 0, 1, 2, 2, 2, 2, 2, 2]).stage[1]? = some .aborted ∧
    InsideAt ((MutexTasks.tsys .pref
      [⟨[], [(0, true)], true⟩, ⟨[0], [(1, true)], false⟩, ⟨[], [(1, true), (0, true)], false⟩]).run
      [0, 0, 0, 0, 0, 0, 0, 1, 2, 2, 2, 2, 2, 2]).lock 2 := ⟨rfl, _, rfl, rfl⟩

/-! ### 7. The order is what the theorem uses -/

/-- With the two statements swapped (`tsysSwapped`: `SharedMutex.Lock(map)` first, `waitForTasks` while
holding the map) two tasks suffice for a state in which nobody has ended and no step is enabled — for
both lock variants: task 1 waits for task 0, both write resource 0, task 1 reaches `Lock` first.
(`tsys` on the same two tasks cannot get stuck: instance of `tasks_deadlock_free`.) -/
theorem lock_before_wait_can_deadlock (v : Variant) :
    ∃ (tasks : List MutexTasks.Task) (sched : List Nat),
      MutexTasks.WellFormed tasks ∧ (∀ t ∈ tasks, NodupNames t.map) ∧ tasks.length = 2 ∧
      ¬ AllDone ((MutexTasks.tsysSwapped v tasks).run sched).lock ∧
      Stuck (MutexTasks.tsysSwapped v tasks) ((MutexTasks.tsysSwapped v tasks).run sched) := by
  have hwf : MutexTasks.WellFormed [⟨[], [(0, true)], false⟩, ⟨[0], [(0, true)], false⟩] := by
    intro i t ht j hj
    match i, ht with
    | 0, ht => simp at ht; subst ht; simp at hj
    | 1, ht => simp at ht; subst ht; simp at hj; omega
    | (k + 2), ht => simp at ht
  have hnd : ∀ t ∈ ([⟨[], [(0, true)], false⟩, ⟨[0], [(0, true)], false⟩] : List MutexTasks.Task),
      NodupNames t.map := by
    intro t ht; simp at ht; rcases ht with rfl | rfl <;> simp [NodupNames]
  cases v with
  | plain =>
    -- task 1 acquires resource 0 and is inside `Lock … Unlock`; it now waits for task 0, which needs resource 0
    refine ⟨[⟨[], [(0, true)], false⟩, ⟨[0], [(0, true)], false⟩], [1, 1], hwf, hnd, rfl, ?_, ?_⟩
    · intro h; have := h _ (List.mem_cons_self ..); revert this; decide
    · intro i
      match i with
      | 0 => rfl
      | 1 => rfl
      | (k + 2) => rfl
  | pref =>
    refine ⟨[⟨[], [(0, true)], false⟩, ⟨[0], [(0, true)], false⟩], [1, 1, 1], hwf, hnd, rfl, ?_, ?_⟩
    · intro h; have := h _ (List.mem_cons_self ..); revert this; decide
    · intro i
      match i with
      | 0 => rfl
      | 1 => rfl
      | (k + 2) => rfl

/-! ### 8. The order monitor used on traces of the real runner -/

/-- The order monitor accepts recorded body intervals exactly when every recorded body of a task was
entered after, for each task of its wait list, some recorded body of that task had been left. -/
theorem order_monitor_accepts_iff (waits : List (List Nat)) (ivs : List Interval) :
    MutexTasks.orderMonitor waits ivs = none ↔
      ∀ x ∈ ivs, ∀ j ∈ waits.getD x.holder [], ∃ y ∈ ivs, y.holder = j ∧ y.exit < x.enter :=
  MutexTasks.orderMonitor_none_iff waits ivs

-- task 1 waits for task 0: entering its body before task 0 left is rejected, afterwards accepted
example : MutexTasks.orderMonitor [[], [0]] [⟨0, [(7, true)], 1, 4⟩, ⟨1, [], 3, 6⟩] = some (1, 0) := by decide
example : MutexTasks.orderMonitor [[], [0]] [⟨0, [(7, true)], 1, 4⟩, ⟨1, [], 5, 6⟩] = none := by decide

/-- The failure monitor accepts exactly when no task recorded a body although a task of its wait list is
one whose body fails. -/
theorem fail_monitor_accepts_iff (waits : List (List Nat)) (fails : List Bool) (ivs : List Interval) :
    MutexTasks.failMonitor waits fails ivs = none ↔
      ∀ x ∈ ivs, ∀ j ∈ waits.getD x.holder [], fails.getD j false = false :=
  MutexTasks.failMonitor_none_iff waits fails ivs

example : MutexTasks.failMonitor [[], [0]] [true, false] [⟨0, [(7, true)], 1, 4⟩, ⟨1, [], 5, 6⟩] = some (1, 0) := by decide
example : MutexTasks.failMonitor [[], [0]] [false, false] [⟨0, [(7, true)], 1, 4⟩, ⟨1, [], 5, 6⟩] = none := by decide

/-! ### 9. Which name a resource of `pip:run` is locked under (`Goat/Model/MutexNames.lean`) -/

/-- A `pip:run --rlock=… --wlock=…` in the body of a task names its resources in the LOCK namespace that task
was created with: the name of the parent task — and of any chain of parents, the TASK namespace — plays no
part.  Two nested tasks under different parents of one lock namespace therefore lock the same names (and
sections 1–8 make them exclude each other); `@name` is global by `parseLocks`. -/
theorem nested_lock_names_ignore_task_names (p : Namespaces) (parent rlock wlock : Bytes) :
    nestedLocks p parent rlock wlock = parseLocks p.lock rlock wlock ∧
    ∀ inner, (taskNamespaces (taskNamespaces p parent) inner).lock = p.lock := by
  have h : ∀ q : Namespaces, ∀ n, (taskNamespaces q n).lock = q.lock := by
    intro q n
    simp only [taskNamespaces, subNamespaces, subName]
    by_cases hq : q.lock = [] <;> simp [hq]
  exact ⟨by simp [nestedLocks, runLocks, h], fun inner => by rw [h, h]⟩

-- `--wlock=res` nested in task `first` and in task `second` (no lock namespace): both lock `res`; in lock
-- namespace `ns` both lock `nsres`; `@g` stays `@g`; the task namespaces differ
-- (bytes: first = [102, 105, 114, 115, 116], second = [115, 101, 99, 111, 110, 100], res = [114, 101, 115], ns = [110, 115], @g = [64, 103])
example : nestedLocks ⟨[], []⟩ [102, 105, 114, 115, 116] [] [114, 101, 115] = some [([114, 101, 115], true)] ∧
    nestedLocks ⟨[], []⟩ [115, 101, 99, 111, 110, 100] [] [114, 101, 115] = some [([114, 101, 115], true)] ∧
    nestedLocks ⟨[], [110, 115]⟩ [102, 105, 114, 115, 116] [64, 103] [114, 101, 115] = some [([64, 103], false), ([110, 115, 114, 101, 115], true)] ∧
    (taskNamespaces ⟨[], []⟩ [102, 105, 114, 115, 116]).task ≠ (taskNamespaces ⟨[], []⟩ [115, 101, 99, 111, 110, 100]).task := by decide

end Goat.C15
