/-
Property C16 — `pip:try` runs exactly the matching handler and contains the body's failure.

Same model, same quantification as `Props/C14.lean`: ALL well-formed graphs (try blocks anywhere, to
any nesting depth, bodies that fail at any command or spawn nested tasks that succeed or fail, any
subset of defined handlers, handlers that fail themselves) and ALL schedules.
For try block `y`: `(g.tryd y).owner` is the task whose body contains the `pip:try` at command index
`(g.tryd y).idx`, `(g.tryd y).body` is the body task (its scope has its OWN context, `ctx = y+1`),
`(g.tryd y).succ / .fail / .fin` the handlers (they run in the owner's context).

The "if" directions (a handler that has to run does run) hold unless the surrounding context — or
the root context, whose failure makes the task manager refuse every submission — has a cause of
failure of its own (`causeFor`): a handler cannot be started in a scope that is already done.
This is the behaviour of the implementation (after fix 5b521a4; before it the process panicked).

LEVEL: partial, as C14 (model + monitor proved; the implementation is tied by trace conformance).
Helper lemmas: `Goat/Proofs/Pipeline*.lean`.
-/
import Goat.Proofs.PipelineExamples

namespace Goat.C16
open Goat.Pipeline

/-- The success handler starts only if the body closed without error; and when the owner of the try
block closes, the success handler of a body that closed without error has been started — unless the
owner's (or the root) context has a cause of failure. -/
theorem success_iff_body_ok (g : Graph) (hw : wf g = true) (sched : List Label) (pre post : List Ev) :
    (∀ h y, (run g sched).tr = pre ++ Ev.cmd h 0 :: post → g.role h = .hsucc y →
      Ev.done (g.tryd y).body true ∈ pre) ∧
    (∀ p ok i y h, (run g sched).tr = pre ++ Ev.done p ok :: post → g.cmdAt p i = some (.try_ y) →
      Ev.ret p i true ∈ pre → Ev.done (g.tryd y).body true ∈ pre → (g.tryd y).succ = some h →
      Ev.cmd h 0 ∈ pre ∨ causeFor g pre p) := by
  have htr := run_traceOk ((wf_iff g).mp hw) sched
  refine ⟨fun h y hs hr => ?_, fun p ok i y h hs hc hret hb hsu => ?_⟩
  · have := (htr pre _ post hs).2.2.2
    simp only [if_true] at this
    have h1 := this.1
    unfold submitted at h1; rw [hr] at h1; exact h1
  · have hpre : TraceOk g pre := traceOk_prefix (b := Ev.done p ok :: post) (by rw [← hs]; exact htr)
    have hcl := (htr pre _ post hs).2.1 i (List.mem_range.mpr (cmdAt_lt hc)) (cmd_of_ret hpre hret)
    have := hcl.2 hret
    rw [hc] at this
    apply this.2.2 h
    unfold selected
    simp [hb, hsu]

/-- The fail handler starts only if the body closed with an error; and when the owner closes, the fail
handler of a body that closed with an error has been started — unless the owner's (or the root)
context has a cause of failure. -/
theorem fail_iff_body_err (g : Graph) (hw : wf g = true) (sched : List Label) (pre post : List Ev) :
    (∀ h y, (run g sched).tr = pre ++ Ev.cmd h 0 :: post → g.role h = .hfail y →
      Ev.done (g.tryd y).body false ∈ pre) ∧
    (∀ p ok i y h, (run g sched).tr = pre ++ Ev.done p ok :: post → g.cmdAt p i = some (.try_ y) →
      Ev.ret p i true ∈ pre → Ev.done (g.tryd y).body false ∈ pre → (g.tryd y).fail = some h →
      Ev.cmd h 0 ∈ pre ∨ causeFor g pre p) := by
  have htr := run_traceOk ((wf_iff g).mp hw) sched
  refine ⟨fun h y hs hr => ?_, fun p ok i y h hs hc hret hb hsu => ?_⟩
  · have := (htr pre _ post hs).2.2.2
    simp only [if_true] at this
    have h1 := this.1
    unfold submitted at h1; rw [hr] at h1; exact h1
  · have hpre : TraceOk g pre := traceOk_prefix (b := Ev.done p ok :: post) (by rw [← hs]; exact htr)
    have hcl := (htr pre _ post hs).2.1 i (List.mem_range.mpr (cmdAt_lt hc)) (cmd_of_ret hpre hret)
    have := hcl.2 hret
    rw [hc] at this
    apply this.2.2 h
    unfold selected
    simp [hb, hsu]

/-- The finally handler starts only after the body closed, whatever the outcome; and when the owner
closes, the body has closed and the finally handler has been started — unless the owner's (or the
root) context has a cause of failure. -/
theorem finally_always (g : Graph) (hw : wf g = true) (sched : List Label) (pre post : List Ev) :
    (∀ h y, (run g sched).tr = pre ++ Ev.cmd h 0 :: post → g.role h = .hfin y →
      hasDone pre (g.tryd y).body) ∧
    (∀ p ok i y h, (run g sched).tr = pre ++ Ev.done p ok :: post → g.cmdAt p i = some (.try_ y) →
      Ev.ret p i true ∈ pre → (g.tryd y).fin = some h →
      hasDone pre (g.tryd y).body ∧ (Ev.cmd h 0 ∈ pre ∨ causeFor g pre p)) := by
  have htr := run_traceOk ((wf_iff g).mp hw) sched
  refine ⟨fun h y hs hr => ?_, fun p ok i y h hs hc hret hsu => ?_⟩
  · have := (htr pre _ post hs).2.2.2
    simp only [if_true] at this
    have h1 := this.1
    unfold submitted at h1; rw [hr] at h1; exact h1
  · have hpre : TraceOk g pre := traceOk_prefix (b := Ev.done p ok :: post) (by rw [← hs]; exact htr)
    have hcl := (htr pre _ post hs).2.1 i (List.mem_range.mpr (cmdAt_lt hc)) (cmd_of_ret hpre hret)
    have := hcl.2 hret
    rw [hc] at this
    refine ⟨this.1, this.2.2 h ?_⟩
    unfold selected
    simp [hsu]

/-- Handlers start only after the body has closed, and a task — in particular the body of a try
block — closes only after everything it submitted has closed: nested `pip:run` tasks, the bodies of
nested try blocks and every handler of them that ran.  So a handler never overlaps the body or
anything the body spawned. -/
theorem handlers_after_body_and_spawned (g : Graph) (hw : wf g = true) (sched : List Label)
    (pre post : List Ev) :
    (∀ h y, (run g sched).tr = pre ++ Ev.cmd h 0 :: post → y < g.tries.length → h ∈ g.handlers y →
      hasDone pre (g.tryd y).body) ∧
    (∀ t ok i c, (run g sched).tr = pre ++ Ev.done t ok :: post → g.cmdAt t i = some (.spawn c) →
      Ev.ret t i true ∈ pre → hasDone pre c) ∧
    (∀ t ok i y, (run g sched).tr = pre ++ Ev.done t ok :: post → g.cmdAt t i = some (.try_ y) →
      Ev.ret t i true ∈ pre →
      hasDone pre (g.tryd y).body ∧ ∀ h ∈ g.handlers y, Ev.cmd h 0 ∈ pre → hasDone pre h) := by
  have hW := (wf_iff g).mp hw
  have htr := run_traceOk hW sched
  refine ⟨fun h y hs hy hh => ?_, fun t ok i c hs hc hret => ?_, fun t ok i y hs hc hret => ?_⟩
  · have := (htr pre _ post hs).2.2.2
    simp only [if_true] at this
    have h1 := this.1
    unfold submitted at h1
    obtain ⟨a, b, c⟩ := hW.tryHandlers hy
    rcases mem_handlers.mp hh with hx | hx | hx
    · rw [(c h hx).2] at h1; exact h1
    · rw [(b h hx).2] at h1; exact Or.inr h1
    · rw [(a h hx).2] at h1; exact Or.inl h1
  · have hpre : TraceOk g pre := traceOk_prefix (b := Ev.done t ok :: post) (by rw [← hs]; exact htr)
    have hcl := (htr pre _ post hs).2.1 i (List.mem_range.mpr (cmdAt_lt hc)) (cmd_of_ret hpre hret)
    have := hcl.2 hret
    rw [hc] at this
    exact this
  · have hpre : TraceOk g pre := traceOk_prefix (b := Ev.done t ok :: post) (by rw [← hs]; exact htr)
    have hcl := (htr pre _ post hs).2.1 i (List.mem_range.mpr (cmdAt_lt hc)) (cmd_of_ret hpre hret)
    have := hcl.2 hret
    rw [hc] at this
    exact ⟨this.1, this.2.1⟩

/-- A failing body does not mark the surrounding scope as failed: a task closes with an error only
if a command of a task of ITS OWN context (or of the root context) returned an error — and the body
of a try block has a context of its own, so its failing commands are no such cause; likewise a
task / the root scope reports an error at the end exactly when a task of that same context closed
with an error.  Only a failing handler (it runs in the owner's context) or a failing command of
the owner itself makes the owner fail. -/
theorem body_failure_contained (g : Graph) (hw : wf g = true) (sched : List Label) (pre post : List Ev) :
    (∀ p, (run g sched).tr = pre ++ Ev.done p false :: post →
      ∃ u i, Ev.ret u i false ∈ pre ∧ (g.ctx u = g.ctx p ∨ g.ctx u = 0)) ∧
    (∀ t, (run g sched).tr = pre ++ Ev.fin t false :: post →
      ∃ u, u < g.n ∧ Ev.done u false ∈ pre ∧ g.ctx u = g.ctx t) ∧
    ((run g sched).tr = pre ++ Ev.root false :: post →
      ∃ u, u < g.n ∧ Ev.done u false ∈ pre ∧ g.ctx u = 0) ∧
    (∀ t, (run g sched).tr = pre ++ Ev.fin t true :: post →
      ∀ u, u < g.n → Ev.done u false ∈ pre → g.ctx u ≠ g.ctx t) := by
  have hW := (wf_iff g).mp hw
  have htr := run_traceOk hW sched
  have htr2 := (run_quiet_ok2 hW sched).2
  refine ⟨fun p hs => ?_, fun t hs => ?_, fun hs => ?_, fun t hs u hu hd => ?_⟩
  · have := (htr pre _ post hs).2.2
    simp only [Bool.false_eq_true, if_false] at this
    have ex : ∀ X, causeIn g X pre → ∃ u i, Ev.ret u i false ∈ pre ∧ g.ctx u = X := by
      intro X ⟨e, he, hc⟩
      cases e <;> simp [isCause] at hc
      rename_i u i b
      cases b <;> simp at hc
      exact ⟨u, i, he, hc⟩
    rcases this with h | h
    · obtain ⟨u, i, h1, h2⟩ := ex _ h; exact ⟨u, i, h1, Or.inl h2⟩
    · obtain ⟨u, i, h1, h2⟩ := ex _ h; exact ⟨u, i, h1, Or.inr h2⟩
  · obtain ⟨u, hu, hd, hc⟩ := htr2 pre _ post hs
    exact ⟨u, List.mem_range.mp hu, hd, hc⟩
  · obtain ⟨u, hu, hd, hc⟩ := htr2 pre _ post hs
    exact ⟨u, List.mem_range.mp hu, hd, hc⟩
  · have := (htr pre _ post hs).2
    simp only [if_true] at this
    exact this u (List.mem_range.mpr hu) hd

/-- the example run: the body (task 1, context 1) fails at its second command; the fail handler (2)
and the finally handler (3) run after the body closed, the success handler (4) never does; the
owner (0) continues after the try block and closes without error, the root reports no error, and
only the body task itself reports one -/
example :
    Ev.done 1 false ∈ (run gEx16 schedEx16).tr ∧ Ev.cmd 2 0 ∈ (run gEx16 schedEx16).tr ∧
    Ev.cmd 3 0 ∈ (run gEx16 schedEx16).tr ∧ (∀ i, Ev.cmd 4 i ∉ (run gEx16 schedEx16).tr) ∧
    Ev.cmd 0 2 ∈ (run gEx16 schedEx16).tr ∧ Ev.done 0 true ∈ (run gEx16 schedEx16).tr ∧
    Ev.root true ∈ (run gEx16 schedEx16).tr ∧ Ev.fin 1 false ∈ (run gEx16 schedEx16).tr ∧
    gEx16.ctx 1 = 1 ∧ gEx16.ctx 0 = 0 := by
  rw [gEx16_trace]
  refine ⟨by decide, by decide, by decide, ?_, by decide, by decide, by decide, by decide, rfl, rfl⟩
  intro i h
  simp at h

example : gEx16.role 2 = .hfail 0 ∧ gEx16.role 3 = .hfin 0 ∧ gEx16.role 4 = .hsucc 0 ∧
    gEx16.cmdAt 0 1 = some (.try_ 0) ∧ (gEx16.tryd 0).body = 1 := by decide

/-! ### The trace monitor (the same `accepts` as in C14; its try-block clauses) -/

/-- every model run is accepted (restated for a graph with try blocks in mind) -/
theorem model_runs_accepted (g : Graph) (hw : wf g = true) (sched : List Label) :
    accepts g (run g sched).tr = true :=
  run_accepted ((wf_iff g).mp hw) sched

/-- the monitor accepts exactly the traces that satisfy the declarative clauses -/
theorem accepts_iff (g : Graph) (tr : List Ev) :
    accepts g tr = true ↔
      (∀ pre e post, tr = pre ++ e :: post → Ok g pre e) ∧ (∀ pre e post, tr = pre ++ e :: post → Ok2 g pre e) :=
  Goat.Pipeline.accepts_iff g tr

example : accepts gEx16 (run gEx16 schedEx16).tr = true := model_runs_accepted gEx16 gEx16_wf schedEx16

/-- the monitor rejects a success handler that starts although the body failed … -/
example : accepts gEx16 [.sub 0, .acc 0, .cmd 0 0, .ret 0 0 true, .cmd 0 1, .ret 0 1 true, .cmd 1 0,
    .ret 1 0 true, .cmd 1 1, .ret 1 1 false, .done 1 false, .cmd 4 0] = false := by decide

/-- … a handler that starts before the body has closed … -/
example : accepts gEx16 [.sub 0, .acc 0, .cmd 0 0, .ret 0 0 true, .cmd 0 1, .ret 0 1 true, .cmd 1 0,
    .cmd 3 0] = false := by decide

/-- … and an owner that is marked failed by nothing but the failure of the body -/
example : accepts gEx16 [.sub 0, .acc 0, .cmd 0 0, .ret 0 0 true, .cmd 0 1, .ret 0 1 true, .cmd 1 0,
    .ret 1 0 true, .cmd 1 1, .ret 1 1 false, .done 1 false, .cmd 3 0, .ret 3 0 true, .done 3 true,
    .cmd 2 0, .ret 2 0 true, .done 2 true, .done 0 false] = false := by decide

end Goat.C16
