/-
Property C16 — `pip:try` runs exactly the matching handler and contains the body's failure.

Same model, same quantification as `Props/C14.lean`: ALL well-formed graphs (try blocks anywhere, to
any nesting depth, bodies that fail at any command or spawn nested tasks that succeed or fail, any
subset of defined handlers, handlers that fail themselves) and ALL schedules.
For try block `y`: `(g.tryd y).owner` is the task whose body contains the `pip:try` at command index
`(g.tryd y).idx`, `(g.tryd y).body` is the body task (its scope has its OWN context, `ctx = y+1`),
`(g.tryd y).succ / .fail / .fin` the handlers (they run in the owner's context).

The "if" directions (a handler that has to run does run) carry a TIMED excuse.  Handlers run in the
owner's shared context, so a handler may legitimately not start when that context (or the root
context, whose failure makes the task manager refuse submissions) has failed — but only a failure
recorded BEFORE the event that seals the handler's fate counts (`handlerFate`, `sealsFate`):
the handler's own close without a first command (`done h false`, whose clause demands a cause before
it) or a refused submission of the try (`hrej`, which demands a cause before it as well).  A failure
that comes later — e.g. of the fail handler, after `finally` could have started — excuses nothing
(`handler_starts_unless_prior_cause`, `finally_starts_unless_prior_cause`; the try goroutine submits
`finally` first: `finally_submitted_first`).  "Never starts while the other handler runs" cannot be
seen in one free-running trace; the harness steers the schedule (holds one handler of the try in its
first command until it has seen the fate of the other) and records a `stall` if nothing happens:
`stall_free` — under every steering policy and every schedule the model never stalls.

LEVEL: partial, as C14 (model + monitor proved; the implementation is tied by trace conformance,
free-running and steered).  Helper lemmas: `Goat/Proofs/Pipeline*.lean`.
-/
import Goat.Proofs.PipelineExamples

namespace Goat.C16
open Goat.Pipeline

/-- The success handler starts only if the body closed without error; and when the owner of the try
block closes, the success handler of a body that closed without error has been started — unless the
owner's (or the root) context has a cause of failure. -/
theorem success_iff_body_ok (g : Graph) (hw : wf g = true) (sched : List Label) (pre post : List Ev) :
    (∀ h y, (run g sched).tr = pre ++ Ev.cmd h 0 :: post → g.role h = .hsucc y →
      Ev.done (g.tryd y).body true ∈ pre) ∧
    (∀ p ok i y h, (run g sched).tr = pre ++ Ev.done p ok :: post → g.cmdAt p i = some (.try_ y) →
      Ev.ret p i true ∈ pre → Ev.done (g.tryd y).body true ∈ pre → (g.tryd y).succ = some h →
      Ev.cmd h 0 ∈ pre ∨ causeFor g pre p) := by
  have htr := run_traceOk ((wf_iff g).mp hw) sched
  refine ⟨fun h y hs hr => ?_, fun p ok i y h hs hc hret hb hsu => ?_⟩
  · have := (htr pre _ post hs).2.2.2
    simp only [if_true] at this
    have h1 := this.1
    unfold submitted at h1; rw [hr] at h1; exact h1
  · have hW := (wf_iff g).mp hw
    have hpre : TraceOk g pre := traceOk_prefix (b := Ev.done p ok :: post) (by rw [← hs]; exact htr)
    have hp : p < g.n := by
      rcases Nat.lt_or_ge p g.n with h1 | h1
      · exact h1
      · have := cmdAt_lt hc; rw [body_out h1] at this; simp at this
    obtain ⟨hy, ho, _⟩ := hW.tryc hp hc
    have hsel : h ∈ selected g pre y := by unfold selected; simp [hb, hsu]
    have := fate_cause hW hpre hy (selected_sub_handlers hsel) (fate_at_close hW htr hs hc hret hsel)
    rw [ho] at this; exact this

/-- The fail handler starts only if the body closed with an error; and when the owner closes, the fail
handler of a body that closed with an error has been started — unless the owner's (or the root)
context has a cause of failure. -/
theorem fail_iff_body_err (g : Graph) (hw : wf g = true) (sched : List Label) (pre post : List Ev) :
    (∀ h y, (run g sched).tr = pre ++ Ev.cmd h 0 :: post → g.role h = .hfail y →
      Ev.done (g.tryd y).body false ∈ pre) ∧
    (∀ p ok i y h, (run g sched).tr = pre ++ Ev.done p ok :: post → g.cmdAt p i = some (.try_ y) →
      Ev.ret p i true ∈ pre → Ev.done (g.tryd y).body false ∈ pre → (g.tryd y).fail = some h →
      Ev.cmd h 0 ∈ pre ∨ causeFor g pre p) := by
  have htr := run_traceOk ((wf_iff g).mp hw) sched
  refine ⟨fun h y hs hr => ?_, fun p ok i y h hs hc hret hb hsu => ?_⟩
  · have := (htr pre _ post hs).2.2.2
    simp only [if_true] at this
    have h1 := this.1
    unfold submitted at h1; rw [hr] at h1; exact h1
  · have hW := (wf_iff g).mp hw
    have hpre : TraceOk g pre := traceOk_prefix (b := Ev.done p ok :: post) (by rw [← hs]; exact htr)
    have hp : p < g.n := by
      rcases Nat.lt_or_ge p g.n with h1 | h1
      · exact h1
      · have := cmdAt_lt hc; rw [body_out h1] at this; simp at this
    obtain ⟨hy, ho, _⟩ := hW.tryc hp hc
    have hsel : h ∈ selected g pre y := by unfold selected; simp [hb, hsu]
    have := fate_cause hW hpre hy (selected_sub_handlers hsel) (fate_at_close hW htr hs hc hret hsel)
    rw [ho] at this; exact this

/-- The finally handler starts only after the body closed, whatever the outcome; and when the owner
closes, the body has closed and the finally handler has been started — unless the owner's (or the
root) context has a cause of failure. -/
theorem finally_always (g : Graph) (hw : wf g = true) (sched : List Label) (pre post : List Ev) :
    (∀ h y, (run g sched).tr = pre ++ Ev.cmd h 0 :: post → g.role h = .hfin y →
      hasDone pre (g.tryd y).body) ∧
    (∀ p ok i y h, (run g sched).tr = pre ++ Ev.done p ok :: post → g.cmdAt p i = some (.try_ y) →
      Ev.ret p i true ∈ pre → (g.tryd y).fin = some h →
      hasDone pre (g.tryd y).body ∧ (Ev.cmd h 0 ∈ pre ∨ causeFor g pre p)) := by
  have htr := run_traceOk ((wf_iff g).mp hw) sched
  refine ⟨fun h y hs hr => ?_, fun p ok i y h hs hc hret hsu => ?_⟩
  · have := (htr pre _ post hs).2.2.2
    simp only [if_true] at this
    have h1 := this.1
    unfold submitted at h1; rw [hr] at h1; exact h1
  · have hW := (wf_iff g).mp hw
    have hpre : TraceOk g pre := traceOk_prefix (b := Ev.done p ok :: post) (by rw [← hs]; exact htr)
    have hcl := (htr pre _ post hs).2.1 i (List.mem_range.mpr (cmdAt_lt hc)) (cmd_of_ret hpre hret)
    have hbody := hcl.2 hret
    rw [hc] at hbody
    have hp : p < g.n := by
      rcases Nat.lt_or_ge p g.n with h1 | h1
      · exact h1
      · have := cmdAt_lt hc; rw [body_out h1] at this; simp at this
    obtain ⟨hy, ho, _⟩ := hW.tryc hp hc
    have hsel : h ∈ selected g pre y := by unfold selected; simp [hsu]
    have := fate_cause hW hpre hy (selected_sub_handlers hsel) (fate_at_close hW htr hs hc hret hsel)
    rw [ho] at this; exact ⟨hbody.1, this⟩

/-- Handlers start only after the body has closed, and a task — in particular the body of a try
block — closes only after everything it submitted has closed: nested `pip:run` tasks, the bodies of
nested try blocks and every handler of them that ran or was accepted by the task manager.  So a
handler never overlaps the body or anything the body spawned. -/
theorem handlers_after_body_and_spawned (g : Graph) (hw : wf g = true) (sched : List Label)
    (pre post : List Ev) :
    (∀ h y, (run g sched).tr = pre ++ Ev.cmd h 0 :: post → y < g.tries.length → h ∈ g.handlers y →
      hasDone pre (g.tryd y).body) ∧
    (∀ t ok i c, (run g sched).tr = pre ++ Ev.done t ok :: post → g.cmdAt t i = some (.spawn c) →
      Ev.ret t i true ∈ pre → hasDone pre c) ∧
    (∀ t ok i y, (run g sched).tr = pre ++ Ev.done t ok :: post → g.cmdAt t i = some (.try_ y) →
      Ev.ret t i true ∈ pre →
      hasDone pre (g.tryd y).body ∧ (∀ h ∈ g.handlers y, Ev.cmd h 0 ∈ pre → hasDone pre h) ∧
      (∀ h ∈ g.handlers y, Ev.hacc h ∈ pre → hasDone pre h)) := by
  have hW := (wf_iff g).mp hw
  have htr := run_traceOk hW sched
  refine ⟨fun h y hs hy hh => ?_, fun t ok i c hs hc hret => ?_, fun t ok i y hs hc hret => ?_⟩
  · have := (htr pre _ post hs).2.2.2
    simp only [if_true] at this
    have h1 := this.1
    unfold submitted at h1
    obtain ⟨a, b, c⟩ := hW.tryHandlers hy
    rcases mem_handlers.mp hh with hx | hx | hx
    · rw [(c h hx).2] at h1; exact h1
    · rw [(b h hx).2] at h1; exact Or.inr h1
    · rw [(a h hx).2] at h1; exact Or.inl h1
  · have hpre : TraceOk g pre := traceOk_prefix (b := Ev.done t ok :: post) (by rw [← hs]; exact htr)
    have hcl := (htr pre _ post hs).2.1 i (List.mem_range.mpr (cmdAt_lt hc)) (cmd_of_ret hpre hret)
    have := hcl.2 hret
    rw [hc] at this
    exact this
  · have hpre : TraceOk g pre := traceOk_prefix (b := Ev.done t ok :: post) (by rw [← hs]; exact htr)
    have hcl := (htr pre _ post hs).2.1 i (List.mem_range.mpr (cmdAt_lt hc)) (cmd_of_ret hpre hret)
    have := hcl.2 hret
    rw [hc] at this
    exact ⟨this.1, this.2.1, this.2.2.1⟩

/-- A failing body does not mark the surrounding scope as failed: a task closes with an error only
if a command of a task of ITS OWN context (or of the root context) returned an error — and the body
of a try block has a context of its own, so its failing commands are no such cause; likewise a
task / the root scope reports an error at the end exactly when a task of that same context closed
with an error.  Only a failing handler (it runs in the owner's context) or a failing command of
the owner itself makes the owner fail. -/
theorem body_failure_contained (g : Graph) (hw : wf g = true) (sched : List Label) (pre post : List Ev) :
    (∀ p, (run g sched).tr = pre ++ Ev.done p false :: post →
      ∃ u i, Ev.ret u i false ∈ pre ∧ (g.ctx u = g.ctx p ∨ g.ctx u = 0)) ∧
    (∀ t, (run g sched).tr = pre ++ Ev.fin t false :: post →
      ∃ u, u < g.n ∧ Ev.done u false ∈ pre ∧ g.ctx u = g.ctx t) ∧
    ((run g sched).tr = pre ++ Ev.root false :: post →
      ∃ u, u < g.n ∧ Ev.done u false ∈ pre ∧ g.ctx u = 0) ∧
    (∀ t, (run g sched).tr = pre ++ Ev.fin t true :: post →
      ∀ u, u < g.n → Ev.done u false ∈ pre → g.ctx u ≠ g.ctx t) := by
  have hW := (wf_iff g).mp hw
  have htr := run_traceOk hW sched
  have htr2 := (run_quiet_ok2 hW sched).2
  refine ⟨fun p hs => ?_, fun t hs => ?_, fun hs => ?_, fun t hs u hu hd => ?_⟩
  · have := (htr pre _ post hs).2.2
    simp only [Bool.false_eq_true, if_false] at this
    have ex : ∀ X, causeIn g X pre → ∃ u i, Ev.ret u i false ∈ pre ∧ g.ctx u = X := by
      intro X ⟨e, he, hc⟩
      cases e <;> simp [isCause] at hc
      rename_i u i b
      cases b <;> simp at hc
      exact ⟨u, i, he, hc⟩
    rcases this with h | h
    · obtain ⟨u, i, h1, h2⟩ := ex _ h; exact ⟨u, i, h1, Or.inl h2⟩
    · obtain ⟨u, i, h1, h2⟩ := ex _ h; exact ⟨u, i, h1, Or.inr h2⟩
  · obtain ⟨u, hu, hd, hc⟩ := htr2 pre _ post hs
    exact ⟨u, List.mem_range.mp hu, hd, hc⟩
  · obtain ⟨u, hu, hd, hc⟩ := htr2 pre _ post hs
    exact ⟨u, List.mem_range.mp hu, hd, hc⟩
  · have := (htr pre _ post hs).2
    simp only [if_true] at this
    exact this u (List.mem_range.mpr hu) hd

/-- The owner of a try block is blocked in the `pip:try` command until every handler that was accepted
by the task manager has closed: in every state of every run in which the owner is not (any more)
blocked there, an accepted handler has closed.  (Before the repair "a pipeline task signs on to the
scope it is started in" the implementation let a handler that was accepted into an already failed
context run detached from its owner; now such a submission is refused.) -/
theorem accepted_handlers_close_before_owner_leaves (g : Graph) (hw : wf g = true) (sched : List Label)
    (y h : Nat) (hy : y < g.tries.length) (hh : h ∈ g.handlers y)
    (hna : (run g sched).pc (g.tryd y).owner ≠ .afterCmd (g.tryd y).idx)
    (hacc : Ev.hacc h ∈ (run g sched).tr) : hasDone (run g sched).tr h :=
  accepted_closed_when_owner_leaves ((wf_iff g).mp hw)
    (inv_reachable ((wf_iff g).mp hw) (LTS.run_reachable (sys g) sched)) hy hh hna hacc

/-- How a body ENDS decides which handler runs.  A task closes without error (`done t true`: for the
body of a try block that selects the SUCCESS handler) only if every command of its script completed,
or a command that stops the scope (`Cmd.stop`: `Scope.Stop()`, done WITHOUT an error) had been entered
and every command that was entered completed — a clean stop is no failure, the rest of the script may
be skipped.  And a task in which some command FAILED — returned an error, unknown command name,
unreadable (truncated) text: `ret t j false` — never closes without error, and (`fail_iff_body_err`)
the fail handler is what runs. -/
theorem body_ok_iff_completed_or_stopped (g : Graph) (hw : wf g = true) (sched : List Label) (pre post : List Ev)
    (t : Nat) :
    ((run g sched).tr = pre ++ Ev.done t true :: post →
      (∀ i, i < (g.body t).length → cmdDoneOk g pre t i) ∨
      ((∃ i, i < (g.body t).length ∧ g.cmdAt t i = some .stop ∧ Ev.cmd t i ∈ pre) ∧
        ∀ i, i < (g.body t).length → Ev.cmd t i ∈ pre → cmdDoneOk g pre t i)) ∧
    (∀ j, Ev.ret t j false ∈ (run g sched).tr → Ev.done t true ∉ (run g sched).tr) := by
  have htr := run_traceOk ((wf_iff g).mp hw) sched
  refine ⟨fun hs => ?_, fun j hf => no_done_true_after_failure htr hf⟩
  have := (htr pre _ post hs).2.2
  simp only [if_true] at this
  rcases this.2 with h | ⟨⟨_, i, hi, hc, hm⟩, h⟩
  · exact Or.inl (fun i hi => h i (List.mem_range.mpr hi))
  · exact Or.inr ⟨⟨i, List.mem_range.mp hi, hc, hm⟩, fun i hi => h i (List.mem_range.mpr hi)⟩

/-- the stop in action: the body (task 1: `p, stop, p`) of `gStop` closes without error after its second
command, its third command is never entered, the success handler (3) runs, the fail handler (2) does
not, the owner and the root report no error -/
example :
    Ev.done 1 true ∈ (run gStop schedStop).tr ∧ Ev.cmd 1 1 ∈ (run gStop schedStop).tr ∧
    Ev.cmd 1 2 ∉ (run gStop schedStop).tr ∧ Ev.cmd 3 0 ∈ (run gStop schedStop).tr ∧
    Ev.cmd 2 0 ∉ (run gStop schedStop).tr ∧ Ev.done 0 true ∈ (run gStop schedStop).tr ∧
    Ev.root true ∈ (run gStop schedStop).tr ∧ gStop.cmdAt 1 1 = some .stop ∧ gStop.role 3 = .hsucc 0 := by
  rw [gStop_trace]; decide

/-- the monitor rejects a stopped body that is treated as failed (nothing failed in its context) … -/
example : accepts gStop [.sub 0, .acc 0, .cmd 0 0, .ret 0 0 true, .cmd 0 1, .ret 0 1 true, .cmd 1 0, .ret 1 0 true,
    .cmd 1 1, .ret 1 1 true, .done 1 false] = false := by decide

/-- … and a body that closes ok although one of its commands failed (e.g. a truncated last command that
is taken for a clean end of input) -/
example : accepts gEx16 [.sub 0, .acc 0, .cmd 0 0, .ret 0 0 true, .cmd 0 1, .ret 0 1 true, .cmd 1 0,
    .ret 1 0 true, .cmd 1 1, .ret 1 1 false, .done 1 true] = false := by decide

/-! ### The timed excuse -/

/-- Handlers are SUBMITTED only after the body has closed with the matching outcome: the acceptance
(`hacc`) or refusal (`hrej`) of a handler submission is preceded by the close of the body — any close
for `finally`, a close without error for the success handler, with an error for the fail handler —
and a refusal moreover by a cause of failure in the handler's (= the owner's) or the root context:
the task manager refuses a task only when the scope it is started in, or the root scope, is done. -/
theorem handlers_submitted_after_body (g : Graph) (hw : wf g = true) (sched : List Label) (pre post : List Ev)
    (h : Nat) :
    ((run g sched).tr = pre ++ Ev.hacc h :: post → isHandler g h = true ∧ submitted g pre h) ∧
    ((run g sched).tr = pre ++ Ev.hrej h :: post →
      isHandler g h = true ∧ submitted g pre h ∧ causeFor g pre h) := by
  have htr := run_traceOk ((wf_iff g).mp hw) sched
  exact ⟨fun hs => htr pre _ post hs, fun hs => htr pre _ post hs⟩

/-- In every run the try goroutine submits `finally` FIRST: when the submission of the fail or of the
success handler is decided (accepted or refused), the finally handler of the same try — if one is
defined — has already been accepted.  (A refused `finally` ends the try goroutine: nothing else is
submitted.)  This is a fact about the model, not a clause of the monitor: the property does not
prescribe an order of submission. -/
theorem finally_submitted_first (g : Graph) (hw : wf g = true) (sched : List Label) (pre post : List Ev)
    (h y f : Nat) (hr : g.role h = .hfail y ∨ g.role h = .hsucc y) (hf : (g.tryd y).fin = some f) :
    ((run g sched).tr = pre ++ Ev.hacc h :: post → Ev.hacc f ∈ pre) ∧
    ((run g sched).tr = pre ++ Ev.hrej h :: post → Ev.hacc f ∈ pre) := by
  have ho := run_traceOrd ((wf_iff g).mp hw) sched
  exact ⟨fun hs => ho pre _ post hs y f hr hf, fun hs => (ho pre _ post hs).1 y f hr hf⟩

/-- Every handler that has to run — `finally`, and the one selected by the outcome of the body — has
STARTED when the owner of the try block closes, unless its fate was sealed by an event with a cause of
failure (in the owner's or the root context) strictly BEFORE that event: `pre = a ++ e :: b` where `e`
is the handler's own close without a first command (`done h false`; it had been accepted, `hacc`) or
a refused handler submission of this try (`hrej`), and the cause lies in `a`.  A failure recorded
after that event — in particular one produced by another handler of the same try — is no excuse. -/
theorem handler_starts_unless_prior_cause (g : Graph) (hw : wf g = true) (sched : List Label)
    (pre post : List Ev) (p i y h : Nat) (ok : Bool)
    (hs : (run g sched).tr = pre ++ Ev.done p ok :: post) (hc : g.cmdAt p i = some (.try_ y))
    (hret : Ev.ret p i true ∈ pre) (hsel : h ∈ selected g pre y) :
    handlerFate g pre y h ∧
    (Ev.cmd h 0 ∈ pre ∨ ∃ a e b, pre = a ++ e :: b ∧ sealsFate g y h e ∧ causeFor g a p) := by
  have hW := (wf_iff g).mp hw
  have htr := run_traceOk hW sched
  have hpre : TraceOk g pre := traceOk_prefix (b := Ev.done p ok :: post) (by rw [← hs]; exact htr)
  have hp : p < g.n := by
    rcases Nat.lt_or_ge p g.n with h1 | h1
    · exact h1
    · have := cmdAt_lt hc; rw [body_out h1] at this; simp at this
  obtain ⟨hy, ho, _⟩ := hW.tryc hp hc
  have hf := fate_at_close hW htr hs hc hret hsel
  have := fate_timed hW hpre hy (selected_sub_handlers hsel) hf
  rw [ho] at this
  exact ⟨hf, this⟩

/-- `finally` in particular: whatever the outcome of the body, when the owner closes the finally
handler has started, or its fate was sealed by an event with a cause of failure strictly before it. -/
theorem finally_starts_unless_prior_cause (g : Graph) (hw : wf g = true) (sched : List Label)
    (pre post : List Ev) (p i y f : Nat) (ok : Bool)
    (hs : (run g sched).tr = pre ++ Ev.done p ok :: post) (hc : g.cmdAt p i = some (.try_ y))
    (hret : Ev.ret p i true ∈ pre) (hf : (g.tryd y).fin = some f) :
    Ev.cmd f 0 ∈ pre ∨ ∃ a e b, pre = a ++ e :: b ∧ sealsFate g y f e ∧ causeFor g a p :=
  (handler_starts_unless_prior_cause g hw sched pre post p i y f ok hs hc hret
    (by unfold selected; simp [hf])).2

/-- non-vacuity: on the example run the owner (0) closes after the try block at its command 1; the
fail handler (2) and `finally` (3) are selected, both started; `finally` was accepted before the fail
handler -/
example : ∃ pre post, (run gEx16 schedEx16).tr = pre ++ Ev.done 0 true :: post ∧
    gEx16.cmdAt 0 1 = some (.try_ 0) ∧ Ev.ret 0 1 true ∈ pre ∧ 2 ∈ selected gEx16 pre 0 ∧ 3 ∈ selected gEx16 pre 0 ∧
    Ev.cmd 2 0 ∈ pre ∧ Ev.cmd 3 0 ∈ pre :=
  ⟨[.sub 0, .acc 0, .cmd 0 0, .ret 0 0 true, .cmd 0 1, .ret 0 1 true, .cmd 1 0, .ret 1 0 true,
    .cmd 1 1, .ret 1 1 false, .done 1 false, .hacc 3, .hacc 2, .cmd 3 0, .ret 3 0 true, .done 3 true,
    .cmd 2 0, .ret 2 0 true, .done 2 true, .cmd 0 2, .ret 0 2 true],
   [.mwait false, .fin 0 true, .fin 1 false, .fin 2 true, .fin 3 true, .root true],
   by rw [gEx16_trace]; rfl, by decide, by decide, by decide, by decide, by decide, by decide⟩

example : ∃ pre post, (run gEx16 schedEx16).tr = pre ++ Ev.hacc 2 :: post ∧ gEx16.role 2 = .hfail 0 ∧
    (gEx16.tryd 0).fin = some 3 ∧ Ev.hacc 3 ∈ pre :=
  ⟨[.sub 0, .acc 0, .cmd 0 0, .ret 0 0 true, .cmd 0 1, .ret 0 1 true, .cmd 1 0, .ret 1 0 true,
    .cmd 1 1, .ret 1 1 false, .done 1 false, .hacc 3], _, by rw [gEx16_trace]; rfl, by decide, by decide, by decide⟩

/-- the excuse in action (a run of the model): the fail handler (2) of `gEx16f` fails before `finally`
(3) has entered its first command; `finally` closes without having started — its fate is sealed by
`done 3 false`, and the cause (`ret 2 0 false`, context 0 = the owner's) lies before that event -/
example : ∃ pre post a b, (run gEx16f schedEx16f).tr = pre ++ Ev.done 0 false :: post ∧
    3 ∈ selected gEx16f pre 0 ∧ Ev.cmd 3 0 ∉ pre ∧
    pre = a ++ Ev.done 3 false :: b ∧ sealsFate gEx16f 0 3 (.done 3 false) ∧ Ev.ret 2 0 false ∈ a ∧ gEx16f.ctx 2 = gEx16f.ctx 0 :=
  ⟨[.sub 0, .acc 0, .cmd 0 0, .ret 0 0 true, .cmd 0 1, .ret 0 1 true, .cmd 1 0, .ret 1 0 true,
    .cmd 1 1, .ret 1 1 false, .done 1 false, .hacc 3, .hacc 2, .cmd 2 0, .ret 2 0 false, .done 2 false, .done 3 false],
   [.mwait false, .fin 0 false, .fin 1 false, .fin 2 false, .fin 3 false, .root false],
   [.sub 0, .acc 0, .cmd 0 0, .ret 0 0 true, .cmd 0 1, .ret 0 1 true, .cmd 1 0, .ret 1 0 true,
    .cmd 1 1, .ret 1 1 false, .done 1 false, .hacc 3, .hacc 2, .cmd 2 0, .ret 2 0 false, .done 2 false],
   [], by rw [gEx16f_trace]; rfl, by decide, by decide, rfl, Or.inl rfl, by decide, rfl⟩

/-! ### Steered schedules

`pol y` says how the harness's gate controller steers try block `y`: it holds the first command of
the selected handler until it has seen the fate of `finally` (`holdSel`), or the first command of
`finally` until it has seen the fate of the selected handler (`holdFin`); "fate" = first command
(or close, `untilDone`), close, or a refused submission of that try.  `sysS g pol` is the model with
the held steps disabled, `sysC g pol` adds the controller's time-out, which fires only when nothing
can move and then records `stall`. -/

/-- No stall, ever: under every steering policy and every schedule (of model steps and time-out
attempts) the controller's time-out never fires — no `stall` event is recorded and no handler is
ever let go by a time-out. -/
theorem stall_free (g : Graph) (hw : wf g = true) (pol : Nat → Steer) (sched : List CLabel) :
    (∀ t, Ev.stall t ∉ (runC g pol sched).st.tr) ∧ (runC g pol sched).rel = [] :=
  ⟨fun t => no_stall ((wf_iff g).mp hw) sched t, (cinv_run ((wf_iff g).mp hw) sched).rel⟩

/-- … because whenever the controller holds a handler `h`, the handler `w` it waits for belongs to the
same try, is itself not held, and is live: either the try goroutine can take its next step (it has
not submitted `w` yet), or `w` is an accepted task that has not closed — and (`steered_no_deadlock`)
something that is not held can always move. -/
theorem held_handler_awaits_live (g : Graph) (hw : wf g = true) (pol : Nat → Steer) (sched : List Label)
    (h : Nat) (hb : blocked g pol ((sysS g pol).run sched) (.task h) = true) :
    ∃ y w, y < g.tries.length ∧ w < g.n ∧ g.depth w = g.depth h ∧
      blocked g pol ((sysS g pol).run sched) (.task w) = false ∧
      ((step g ((sysS g pol).run sched) (.tryg y)).isSome = true ∨
       ((((sysS g pol).run sched).pc w).accepted = true ∧ ((sysS g pol).run sched).pc w ≠ .finished)) :=
  awaited ((wf_iff g).mp hw)
    (inv_reachable ((wf_iff g).mp hw) (reachableS_reachable (LTS.run_reachable (sysS g pol) sched))) hb

/-- deadlock freedom under steering: while the main thread has not finished, some step that the
controller does not hold back is enabled -/
theorem steered_no_deadlock (g : Graph) (hw : wf g = true) (pol : Nat → Steer) (sched : List Label)
    (h : ((sysS g pol).run sched).mp ≠ .finished) :
    ∃ l, (stepS g pol ((sysS g pol).run sched) l).isSome = true := by
  have hW := (wf_iff g).mp hw
  obtain ⟨l, hnb, hl⟩ := progressS (pol := pol) hW
    (inv_reachable hW (reachableS_reachable (LTS.run_reachable (sysS g pol) sched))) h
  exact ⟨l, by unfold stepS; rw [hnb]; exact hl⟩

/-- … and every steered run can be continued until the main thread has finished (every step
decreases the measure `mu`): every hold is released. -/
theorem steered_all_finish (g : Graph) (hw : wf g = true) (pol : Nat → Steer) (sched : List Label) :
    ∃ ext, ((sysS g pol).run (sched ++ ext)).mp = .finished := by
  obtain ⟨ext, hext⟩ := can_finishS (pol := pol) ((wf_iff g).mp hw) _ _ (LTS.run_reachable (sysS g pol) sched) rfl
  exact ⟨ext, by unfold LTS.Sys.run; rw [LTS.runFrom_append]; exact hext⟩

/-- a steered run is a run of the model: the monitor accepts its trace -/
theorem steered_runs_accepted (g : Graph) (hw : wf g = true) (pol : Nat → Steer) (sched : List Label) :
    accepts g ((sysS g pol).run sched).tr = true :=
  runS_accepted ((wf_iff g).mp hw) pol sched

set_option maxRecDepth 8000 in
/-- steering in action on the example graph: the fail handler (2) sits in its first command and is
held because `finally` (3) has not started — its step is enabled in the model but disabled under the
policy; after two steps of `finally` it is free; the whole steered run ends with both handlers run -/
example :
    blocked gEx16 polSel ((sysS gEx16 polSel).run schedHeld) (.task 2) = true ∧
    (step gEx16 ((sysS gEx16 polSel).run schedHeld) (.task 2)).isSome = true ∧
    (stepS gEx16 polSel ((sysS gEx16 polSel).run schedHeld) (.task 2)).isNone = true ∧
    blocked gEx16 polSel ((sysS gEx16 polSel).run (schedHeld ++ rep 2 (.task 3))) (.task 2) = false ∧
    Ev.cmd 3 0 ∈ ((sysS gEx16 polSel).run schedSteered).tr ∧ Ev.done 2 true ∈ ((sysS gEx16 polSel).run schedSteered).tr := by
  refine ⟨by decide, by decide, by decide, by decide, ?_, ?_⟩
  · rw [gEx16_steered_trace]; decide
  · rw [gEx16_steered_trace]; decide

set_option maxRecDepth 8000 in
/-- … and the time-out on behalf of the held handler is not enabled there -/
example : stepC gEx16 polSel ⟨(sysS gEx16 polSel).run schedHeld, []⟩ (.timeout 2) = none := by decide

/-- the example run: the body (task 1, context 1) fails at its second command; the fail handler (2)
and the finally handler (3) run after the body closed, the success handler (4) never does; the
owner (0) continues after the try block and closes without error, the root reports no error, and
only the body task itself reports one -/
example :
    Ev.done 1 false ∈ (run gEx16 schedEx16).tr ∧ Ev.cmd 2 0 ∈ (run gEx16 schedEx16).tr ∧
    Ev.cmd 3 0 ∈ (run gEx16 schedEx16).tr ∧ (∀ i, Ev.cmd 4 i ∉ (run gEx16 schedEx16).tr) ∧
    Ev.cmd 0 2 ∈ (run gEx16 schedEx16).tr ∧ Ev.done 0 true ∈ (run gEx16 schedEx16).tr ∧
    Ev.root true ∈ (run gEx16 schedEx16).tr ∧ Ev.fin 1 false ∈ (run gEx16 schedEx16).tr ∧
    gEx16.ctx 1 = 1 ∧ gEx16.ctx 0 = 0 := by
  rw [gEx16_trace]
  refine ⟨by decide, by decide, by decide, ?_, by decide, by decide, by decide, by decide, rfl, rfl⟩
  intro i h
  simp at h

example : gEx16.role 2 = .hfail 0 ∧ gEx16.role 3 = .hfin 0 ∧ gEx16.role 4 = .hsucc 0 ∧
    gEx16.cmdAt 0 1 = some (.try_ 0) ∧ (gEx16.tryd 0).body = 1 := by decide

/-! ### The trace monitor (the same `accepts` as in C14; its try-block clauses) -/

/-- every model run is accepted (restated for a graph with try blocks in mind) -/
theorem model_runs_accepted (g : Graph) (hw : wf g = true) (sched : List Label) :
    accepts g (run g sched).tr = true :=
  run_accepted ((wf_iff g).mp hw) sched

/-- the monitor accepts exactly the traces that satisfy the declarative clauses -/
theorem accepts_iff (g : Graph) (tr : List Ev) :
    accepts g tr = true ↔
      (∀ pre e post, tr = pre ++ e :: post → Ok g pre e) ∧ (∀ pre e post, tr = pre ++ e :: post → Ok2 g pre e) :=
  Goat.Pipeline.accepts_iff g tr

example : accepts gEx16 (run gEx16 schedEx16).tr = true := model_runs_accepted gEx16 gEx16_wf schedEx16

/-- the monitor rejects a success handler that starts although the body failed … -/
example : accepts gEx16 [.sub 0, .acc 0, .cmd 0 0, .ret 0 0 true, .cmd 0 1, .ret 0 1 true, .cmd 1 0,
    .ret 1 0 true, .cmd 1 1, .ret 1 1 false, .done 1 false, .cmd 4 0] = false := by decide

/-- … a handler that starts before the body has closed … -/
example : accepts gEx16 [.sub 0, .acc 0, .cmd 0 0, .ret 0 0 true, .cmd 0 1, .ret 0 1 true, .cmd 1 0,
    .cmd 3 0] = false := by decide

/-- … a `finally` that is never submitted: the later failure of the fail handler (2) is NO excuse any
more (before the excuse was timed this trace was accepted) … -/
example : accepts gEx16f [.sub 0, .acc 0, .cmd 0 0, .ret 0 0 true, .cmd 0 1, .ret 0 1 true, .cmd 1 0,
    .ret 1 0 true, .cmd 1 1, .ret 1 1 false, .done 1 false, .hacc 2, .cmd 2 0, .ret 2 0 false, .done 2 false,
    .done 0 false] = false := by decide

/-- … whereas a `finally` that was accepted and closed without a first command AFTER the fail handler had
failed is excused (RunLoop took the `<-Done()` branch): the cause precedes the sealing event `done 3 false` -/
example : accepts gEx16f [.sub 0, .acc 0, .cmd 0 0, .ret 0 0 true, .cmd 0 1, .ret 0 1 true, .cmd 1 0,
    .ret 1 0 true, .cmd 1 1, .ret 1 1 false, .done 1 false, .hacc 3, .hacc 2, .cmd 2 0, .ret 2 0 false,
    .done 2 false, .done 3 false, .done 0 false] = true := by decide

/-- … a `finally` that closes without a first command with NO cause before its close is rejected … -/
example : accepts gEx16f [.sub 0, .acc 0, .cmd 0 0, .ret 0 0 true, .cmd 0 1, .ret 0 1 true, .cmd 1 0,
    .ret 1 0 true, .cmd 1 1, .ret 1 1 false, .done 1 false, .hacc 3, .hacc 2, .cmd 2 0, .done 3 false] = false := by
  decide

/-- … a stall of `finally` while the held fail handler has not failed yet is rejected (the trace of an
implementation that queues `finally` behind the selected handler, under steering) … -/
example : accepts gEx16f [.sub 0, .acc 0, .cmd 0 0, .ret 0 0 true, .cmd 0 1, .ret 0 1 true, .cmd 1 0,
    .ret 1 0 true, .cmd 1 1, .ret 1 1 false, .done 1 false, .hacc 2, .hacc 3, .cmd 2 0, .stall 3] = false := by decide

/-- … a stall after a cause of failure in the owner's context is tolerated … -/
example : accepts gEx16f [.sub 0, .acc 0, .cmd 0 0, .ret 0 0 true, .cmd 0 1, .ret 0 1 true, .cmd 1 0,
    .ret 1 0 true, .cmd 1 1, .ret 1 1 false, .done 1 false, .hacc 3, .hacc 2, .cmd 2 0, .ret 2 0 false, .stall 3] = true := by
  decide

/-- … a handler submission REFUSED right after the body failed, with no cause in the owner's or the root context (the
body's failure lives in the body's own context and is none; `handlers_submitted_after_body`): the trace of an
implementation whose handlers go to a task manager rooted at the body's separated scope — what seeded change C16-10
produces when the try block is the first pipeline command of a session scope of its own or follows a `pip:clear`
(harness family c16x: scope kinds) … -/
example : accepts gEx16 [.sub 0, .acc 0, .cmd 0 0, .ret 0 0 true, .cmd 0 1, .ret 0 1 true, .cmd 1 0,
    .ret 1 0 true, .cmd 1 1, .ret 1 1 false, .done 1 false, .hrej 3] = false := by decide

/-- … and an owner that is marked failed by nothing but the failure of the body -/
example : accepts gEx16 [.sub 0, .acc 0, .cmd 0 0, .ret 0 0 true, .cmd 0 1, .ret 0 1 true, .cmd 1 0,
    .ret 1 0 true, .cmd 1 1, .ret 1 1 false, .done 1 false, .cmd 3 0, .ret 3 0 true, .done 3 true,
    .cmd 2 0, .ret 2 0 true, .done 2 true, .done 0 false] = false := by decide

end Goat.C16
