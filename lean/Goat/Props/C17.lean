/-
Property C17 — the command-line splitter `varutil.ReadArguments` and `argscope.InjectArgs` /
`SeparateArgs`, stated over the executable model `Goat/Model/Args.lean`.

  "Splitting any byte string never panics and always terminates with arguments or an error.
   Words separated by blanks come back unchanged byte-for-byte (including non-ASCII bytes), a
   double-quoted argument comes back as its content with blanks preserved and escaped quotes
   unescaped, a heredoc argument comes back as the text between the marker lines (trimmed of
   surrounding blanks), a backslash-newline continues the line, reading stops exactly at the
   command's newline so the next call returns the next command, and named arguments are mapped to
   keys and positional ones to $0,$1,... in order."

Termination is part of the model's definition (`mainLoop`/`quoteLoop` are total Lean functions,
accepted by well-founded recursion on the input length); every theorem below holds for byte
strings and argument lists of any length.

Vocabulary (defined in `Goat/Proofs/Args.lean`, namespace `Goat.Args`):
  `PlainByte b`   : `b` is none of space, tab, newline, `"`, `\`
  `PlainBytes w`  : every byte of `w` is plain and `=<<` is not a contiguous infix of `w`
  `PlainWord w`   : `w ≠ []` and `PlainBytes w`
  `render a`      : `"` ++ body ++ `"`, where in the body `"` is written `\"` and `\` is written
                    `"\\"` (close the quote, an escaped backslash outside, reopen the quote)
  `renderLine as` : the `render`ed arguments joined by one space
  `MarkerFirstAtEnd t x` : no proper prefix of `x ++ "\n" ++ t` ends with `"\n" ++ t`
  `positionals as`: the arguments without `=`, in order;  `namedKey a` : key of a named argument
  `Dashes d`      : `d` is ``, `-` or `--`
-/
import Goat.Proofs.Args

namespace Goat.C17

open Goat Goat.Args

/-! ### 1. No panic -/

/-- `args[len(args)-1]` is never evaluated on an empty slice: the splitter returns arguments or an
error on every input. -/
theorem total_no_panic : ∀ b : Bytes, readArgs b ≠ Outcome.panic := by
  intro b
  exact no_panic_aux _ _ (fun h => by cases h)

example : readArgs [bs, dq, lt, 0xFF, eq, lt, lt] ≠ Outcome.panic := total_no_panic _

/-! ### 2. Blank-separated words -/

/-- Words separated by one space, terminated by a newline, come back unchanged; the bytes after
the newline are left unread. -/
theorem words (ws : List Bytes) (hws : ∀ w ∈ ws, PlainWord w) (rest : Bytes) :
    readArgs (List.intercalate [sp] ws ++ nl :: rest) = .ok ws false rest :=
  words_main ws hws rest

/-- The same at end of input (no newline): the reader reports EOF. -/
theorem words_eof (ws : List Bytes) (hws : ∀ w ∈ ws, PlainWord w) :
    readArgs (List.intercalate [sp] ws) = .ok ws true [] :=
  words_eof_main ws hws

-- bytes ≥ 0x80 are plain; `=<` and `<<` alone do not start a heredoc
example : PlainWord [0xC3, 0xA9, 97] := by decide
example : PlainWord [107, eq, lt, 120, lt, lt] := by decide
example : ¬ PlainWord [107, eq, lt, lt] := by decide
example :
    readArgs [0xC3, 0xA9, 32, 107, 61, 60, 120, 32, 0xFF, 10, 110, 120]
      = .ok [[0xC3, 0xA9], [107, 61, 60, 120], [0xFF]] false [110, 120] :=
  words [[0xC3, 0xA9], [107, 61, 60, 120], [0xFF]] (by decide) [110, 120]
example : readArgs [0xC3, 0xA9, 32, 97] = .ok [[0xC3, 0xA9], [97]] true [] :=
  words_eof [[0xC3, 0xA9], [97]] (by decide)

/-! ### 3. Double-quoted arguments -/

/-- Every list of byte strings (any byte values, empty arguments included) survives quoting:
blanks and newlines inside the quotes are preserved, `\"` is unescaped. -/
theorem quoted (args : List Bytes) (rest : Bytes) :
    readArgs (renderLine args ++ nl :: rest) = .ok args false rest :=
  quoted_main args rest

-- the two arguments (empty) and (`a`, space, `"`, `\`) are rendered as  ""  "a \""\\""
-- (13 bytes); every one of the 256 byte values may occur in an argument
example :
    renderLine [[], [97, 32, dq, bs]]
      = [dq, dq, sp, dq, 97, 32, bs, dq, dq, bs, bs, dq, dq] := by
  decide
example :
    readArgs ([dq, dq, sp, dq, 97, 32, bs, dq, 10, 0xFF, dq, bs, bs, dq, dq] ++ nl :: [120])
      = .ok [[], [97, 32, dq, 10, 0xFF, bs]] false [120] :=
  quoted [[], [97, 32, dq, 10, 0xFF, bs]] [120]

/-! ### 4. Heredoc arguments -/

/-- `key=<<TAG⏎ text ⏎TAG⏎` yields the single argument `key=` ++ text trimmed of surrounding
blanks, provided the marker line `⏎TAG` does not occur earlier in `text ++ ⏎TAG`. -/
theorem heredoc (k t x rest : Bytes)
    (hk : PlainBytes k) (ht : ∀ b ∈ t, isLetter b = true) (hne : t ≠ [])
    (hx : MarkerFirstAtEnd t x) :
    readArgs (k ++ [eq, lt, lt] ++ t ++ [nl] ++ x ++ [nl] ++ t ++ nl :: rest)
      = .ok [k ++ [eq] ++ trimBlank x] false rest :=
  heredoc_main k t x rest hk ht hne hx

-- key `k`, tag `EOF`, text ` t⏎EOX l⇥ ` (two lines, the second starts almost like the tag)
example : PlainBytes [107] := by decide
example : ∀ b ∈ ([69, 79, 70] : Bytes), isLetter b = true := by decide
example : MarkerFirstAtEnd [69, 79, 70] [32, 116, 10, 69, 79, 88, 32, 108, 9, 32] := by decide
example : ¬ MarkerFirstAtEnd [69, 79, 70] [32, 116, 10, 69, 79, 70, 32, 108, 9, 32] := by decide
example :
    readArgs [107, 61, 60, 60, 69, 79, 70, 10, 32, 116, 10, 69, 79, 88, 32, 108, 9, 32, 10,
              69, 79, 70, 10, 110]
      = .ok [[107, 61, 116, 10, 69, 79, 88, 32, 108]] false [110] :=
  heredoc [107] [69, 79, 70] [32, 116, 10, 69, 79, 88, 32, 108, 9, 32] [110]
    (by decide) (by decide) (by decide) (by decide)

/-! ### 5. Line continuation -/

/-- Outside quotes, backslash-newline is skipped in every state of the splitter. -/
theorem continuation : ∀ (s : St) (rest : Bytes), s.esc = false →
    mainLoop s (bs :: nl :: rest) = mainLoop s rest :=
  fun s rest h => continuation_main s rest h

/-- At the start of a command. -/
theorem continuation_readArgs (rest : Bytes) : readArgs (bs :: nl :: rest) = readArgs rest :=
  continuation _ rest rfl

/-- In the middle of a line: the words before and after the backslash-newline belong to the same
command. -/
theorem continuation_words (ws ws' : List Bytes) (hws : ∀ w ∈ ws, PlainWord w)
    (hws' : ∀ w ∈ ws', PlainWord w) (rest : Bytes) :
    readArgs (List.intercalate [sp] ws ++
        sp :: bs :: nl :: (List.intercalate [sp] ws' ++ nl :: rest))
      = .ok (ws ++ ws') false rest := by
  obtain ⟨s1, e1, a1, r1⟩ := words_aux ws hws [] none
    (sp :: bs :: nl :: (List.intercalate [sp] ws' ++ nl :: rest))
  rw [readArgs, r1, step_blank (by decide) (Or.inl rfl), continuation _ _ rfl]
  obtain ⟨s2, e2, a2, r2⟩ := words_aux ws' hws' s1.done s1.cur (nl :: rest)
  rw [r2, step_nl (by simp [e2]), a2]
  have : St.args ⟨s1.done, s1.cur, false, true⟩ = s1.args := rfl
  rw [this, a1]; rfl

example :
    readArgs [97, 32, bs, nl, 98, nl, 99] = .ok [[97], [98]] false [99] :=
  continuation_words [[97]] [[98]] (by decide) (by decide) [99]

/-! ### 6. Reading stops exactly at the newline -/

/-- Without EOF the unread remainder is the part of the input right after a newline, so the next
call starts at the next command. -/
theorem stops_at_newline {inp : Bytes} {args : List Bytes} {rest : Bytes} :
    readArgs inp = .ok args false rest → ∃ pre, inp = pre ++ nl :: rest := by
  intro h
  have := stops_aux ⟨[], none, false, true⟩ inp
  rw [readArgs] at h
  rw [h] at this
  obtain ⟨pre, hpre⟩ := this
  exact ⟨pre, hpre.symm⟩

/-- With EOF nothing is left. -/
theorem stops_at_eof {inp : Bytes} {args : List Bytes} {rest : Bytes} :
    readArgs inp = .ok args true rest → rest = [] := by
  intro h
  have := stops_aux ⟨[], none, false, true⟩ inp
  rw [readArgs] at h
  rw [h] at this
  exact this

-- two commands in one buffer: the first call leaves exactly the second command
example : ∃ pre, ([97, 32, 98, 10, 99, 10] : Bytes) = pre ++ nl :: [99, 10] :=
  stops_at_newline (words [[97], [98]] (by decide) [99, 10])
example : readArgs [99, 10] = .ok [[99]] false [] := words [[99]] (by decide) []

/-! ### 7. `SeparateArgs` / `InjectArgs` -/

/-- `SeparateArgs` splits at the first `--`. -/
theorem separate_at_first_dashdash (a s : List Bytes) (h : dashdash ∉ a) :
    separateArgs (a ++ dashdash :: s) = (a, s) :=
  separateArgs_split a s h

theorem separate_no_dashdash (all : List Bytes) (h : dashdash ∉ all) :
    separateArgs all = (all, []) :=
  separateArgs_none all h

example : separateArgs [[97], dashdash, [98], dashdash] = ([[97]], [[98], dashdash]) :=
  separate_at_first_dashdash [[97]] [[98], dashdash] (by decide)

/-- The arguments after the first `--` are handed over untouched; only those before it are
injected. -/
theorem inject_after_dashdash (a s : List Bytes) (h : dashdash ∉ a) :
    inject (a ++ dashdash :: s) = (injectSets 0 a, s) := by
  rw [inject, separateArgs_split a s h]

/-- Positional arguments (no `=`) are stored under `$0, $1, …` in order: key `$i` holds the
`i`-th positional argument, and is unset when there are at most `i` of them — provided no named
argument is itself called `$i`. -/
theorem inject_positional (args : List Bytes) (i : Nat) (hdd : dashdash ∉ args)
    (hcol : ∀ a ∈ args, a.contains eq = true → namedKey a ≠ natKey i) :
    lookupLast (natKey i) (inject args).1 = (positionals args)[i]? := by
  rw [inject, separateArgs_none args hdd]
  have := lookup_natKey i args hcol 0
  simpa using this

/-- If no named key starts with `$`, this holds for every index at once. -/
theorem inject_positional_all (args : List Bytes) (hdd : dashdash ∉ args)
    (hnamed : ∀ a ∈ args, a.contains eq = true → (namedKey a).head? ≠ some 36) (i : Nat) :
    lookupLast (natKey i) (inject args).1 = (positionals args)[i]? :=
  inject_positional args i hdd (fun a ha hc e => hnamed a ha hc (e ▸ natKey_head i))

/-- A named argument `k=v`, `-k=v` or `--k=v` (`k` without `=` and not starting with `-`) is the
`SetValue(k, v)` call at its position, and `k` maps to `v` at the end when no later call uses the
key `k` again. -/
theorem inject_named (pre post : List Bytes) (d k v : Bytes)
    (hdd : dashdash ∉ pre ++ (d ++ k ++ eq :: v) :: post)
    (hd : Dashes d) (hk : eq ∉ k) (h45 : k.head? ≠ some 45)
    (hlast : ∀ p ∈ (inject (pre ++ (d ++ k ++ eq :: v) :: post)).1.drop (pre.length + 1), p.1 ≠ k) :
    (inject (pre ++ (d ++ k ++ eq :: v) :: post)).1[pre.length]? = some (k, v) ∧
    lookupLast k (inject (pre ++ (d ++ k ++ eq :: v) :: post)).1 = some v := by
  have hsets : (inject (pre ++ (d ++ k ++ eq :: v) :: post)).1
      = injectSets 0 pre ++ (k, v) :: injectSets (0 + (positionals pre).length) post := by
    rw [inject, separateArgs_none _ hdd]
    show injectSets 0 _ = _
    rw [injectSets_append, injectSets_named _ _ _ (named_contains d k v),
      named_split d k v hd hk h45]
  have hlen : (injectSets 0 pre).length = pre.length := length_injectSets 0 pre
  rw [hsets] at hlast ⊢
  constructor
  · rw [List.getElem?_append_right (by omega), hlen, Nat.sub_self]; rfl
  · have hdrop : (injectSets 0 pre ++ (k, v) :: injectSets (0 + (positionals pre).length) post).drop
        (pre.length + 1) = injectSets (0 + (positionals pre).length) post := by
      have e : injectSets 0 pre ++ (k, v) :: injectSets (0 + (positionals pre).length) post
          = (injectSets 0 pre ++ [(k, v)]) ++ injectSets (0 + (positionals pre).length) post := by
        simp
      rw [e]
      exact List.drop_left' (by simp [hlen])
    rw [hdrop] at hlast
    exact lookupLast_append_some k v _ _ (lookupLast_cons_eq k v _ (lookupLast_none k _ hlast))

-- `a --k=v b k2= -k=w` : positionals `a`,`b` become `$0`,`$1`; the last `k` wins; `k2` is empty
example :
    let args : List Bytes := [[97], [45, 45, 107, 61, 118], [98], [107, 50, 61], [45, 107, 61, 119]]
    dashdash ∉ args ∧ (∀ a ∈ args, a.contains eq = true → (namedKey a).head? ≠ some 36) ∧
      positionals args = [[97], [98]] := by
  decide
example :
    lookupLast (natKey 1)
      (inject [[97], [45, 45, 107, 61, 118], [98], [107, 50, 61], [45, 107, 61, 119]]).1
      = some [98] :=
  inject_positional_all _ (by decide) (by decide) 1
example :
    lookupLast [107]
      (inject ([[97], [45, 45, 107, 61, 118], [98]] ++
        ([45] ++ [107] ++ eq :: [119]) :: [[107, 50, 61]])).1 = some [119] :=
  (inject_named [[97], [45, 45, 107, 61, 118], [98]] [[107, 50, 61]] [45] [107] [119]
    (by decide) (by decide) (by decide) (by decide) (by decide)).2

end Goat.C17
