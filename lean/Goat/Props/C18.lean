/-
C18 — environment values reach sandbox shells verbatim, with no shell interpretation.

Model: Goat/Model/EnvScript.lean (the two start-up script builders, the name pattern, the mini-shell).
Vocabulary (Goat/Proofs/EnvScript.lean):
  Ident k          a letter, then letters or underscores          (the property's "plain identifier")
  ValidKeys envs   every key is Ident and is not PATH / OPTIND    (names `Environments.Set` accepted;
                   the two excluded names change how the shell itself runs the script: command
                   lookup of `cat`, dash's numeric check of OPTIND)
  TagOk tag        non-empty, letters/digits/underscore           ("EOF" + 10 capitals is such a tag)
  TagFree tag envs the tag is not a line of any value             (assumed for the random tag, see the check)
  NoNul envs       no value contains a NUL byte
  st.deliverAll envs   for every (k, v) in script order: k := stripTrailingNewlines v ; export k

All theorems are relative to the mini-shell `sh` (dialect `posix`); that the real /bin/sh behaves
like it on the emitted scripts is validated by the check on every run (trusted base).
Only property theorems and non-vacuity examples in this file.
-/
import Goat.Proofs.EnvScriptExamples

namespace Goat.C18
open Goat Goat.EnvScript

/-! ### the script sets every variable to exactly its value -/

/-- SSH sandbox: executing the start-up script is exactly "deliver every variable, then run the
entrypoint in that state" — for all environments, tags, entrypoints and initial shell states. -/
theorem script_sets_exact_ssh (envs : Env) (tag entry : Bytes) (st : State)
    (ht : TagOk tag) (hv : ValidKeys envs) (hf : TagFree tag envs) (h0 : NoNul envs) :
    sh .posix st (sshScript envs tag entry) = sh .posix (st.afterHeader.deliverAll envs) (entry ++ [nl]) :=
  sh_prefix .posix envs st _ ht hv hf h0 (Or.inl rfl)

example : sh .posix State.empty (sshScript exEnvs exTag exEntry)
    = sh .posix (State.empty.afterHeader.deliverAll exEnvs) (exEntry ++ [nl]) :=
  script_sets_exact_ssh _ _ _ _ exTag_ok exEnvs_valid exEnvs_tagFree exEnvs_noNul

/-- Container sandbox: the same, whatever the job then sends on standard input. -/
theorem script_sets_exact_container (envs : Env) (tag entry : Bytes) (st : State)
    (ht : TagOk tag) (hv : ValidKeys envs) (hf : TagFree tag envs) (h0 : NoNul envs) :
    sh .posix st (containerStdin envs tag entry) = sh .posix (st.afterHeader.deliverAll envs) entry := by
  unfold containerStdin containerScript
  rw [List.append_assoc]
  exact sh_prefix .posix envs st _ ht hv hf h0 (Or.inl rfl)

example : sh .posix State.empty (containerStdin exEnvs exTag exEntry)
    = sh .posix (State.empty.afterHeader.deliverAll exEnvs) exEntry :=
  script_sets_exact_container _ _ _ _ exTag_ok exEnvs_valid exEnvs_tagFree exEnvs_noNul

/-- The container script on its own runs to its end, inside the fragment, and leaves that state. -/
theorem script_sets_exact_container_alone (envs : Env) (tag : Bytes) (st : State)
    (ht : TagOk tag) (hv : ValidKeys envs) (hf : TagFree tag envs) (h0 : NoNul envs) :
    sh .posix st (containerScript envs tag) = .stop (st.afterHeader.deliverAll envs) [] := by
  have := script_sets_exact_container envs tag [] st ht hv hf h0
  simpa [containerStdin, sh, splitLines, go, classify_blank] using this

example : sh .posix State.empty (containerScript exEnvs exTag) = .stop (State.empty.afterHeader.deliverAll exEnvs) [] :=
  script_sets_exact_container_alone _ _ _ exTag_ok exEnvs_valid exEnvs_tagFree exEnvs_noNul

/-- What the entrypoint finds in its environment: for every configured variable exactly the
configured value up to trailing newlines (keys of a Go map are pairwise distinct) — `$`, backquote,
quotes, backslash, newline, `)` and EOF-like lines are data. -/
theorem script_sets_exact (envs : Env) (st : State) (hd : (envs.map (·.1)).Nodup) :
    envs.map (fun kv => (kv.1, (st.afterHeader.deliverAll envs).environ kv.1))
      = envs.map (fun kv => (kv.1, some (stripTrailingNewlines kv.2))) := by
  apply List.map_congr_left
  intro kv hkv
  rw [deliverAll_environ envs _ hd kv hkv]

example : exEnvs.map (fun kv => (kv.1, (State.empty.afterHeader.deliverAll exEnvs).environ kv.1))
    = exEnvs.map (fun kv => (kv.1, some (stripTrailingNewlines kv.2))) :=
  script_sets_exact _ _ exEnvs_nodup

/-- End to end, container: the script runs to its end and every configured variable is in the
environment with exactly its value (up to trailing newlines). -/
theorem container_environment_exact (envs : Env) (tag : Bytes) (st : State)
    (ht : TagOk tag) (hv : ValidKeys envs) (hf : TagFree tag envs) (h0 : NoNul envs)
    (hd : (envs.map (·.1)).Nodup) :
    ∃ S, sh .posix st (containerScript envs tag) = .stop S [] ∧
      envs.map (fun kv => (kv.1, S.environ kv.1)) = envs.map (fun kv => (kv.1, some (stripTrailingNewlines kv.2))) :=
  ⟨_, script_sets_exact_container_alone envs tag st ht hv hf h0, script_sets_exact envs st hd⟩

example : ∃ S, sh .posix State.empty (containerScript exEnvs exTag) = .stop S [] ∧
    exEnvs.map (fun kv => (kv.1, S.environ kv.1)) = exEnvs.map (fun kv => (kv.1, some (stripTrailingNewlines kv.2))) :=
  container_environment_exact _ _ _ exTag_ok exEnvs_valid exEnvs_tagFree exEnvs_noNul exEnvs_nodup

/-- End to end, SSH: the entrypoint line is interpreted in a state whose environment holds every
configured variable with exactly its value. -/
theorem ssh_environment_exact (envs : Env) (tag entry : Bytes) (st : State)
    (ht : TagOk tag) (hv : ValidKeys envs) (hf : TagFree tag envs) (h0 : NoNul envs)
    (hd : (envs.map (·.1)).Nodup) :
    ∃ S, sh .posix st (sshScript envs tag entry) = sh .posix S (entry ++ [nl]) ∧
      envs.map (fun kv => (kv.1, S.environ kv.1)) = envs.map (fun kv => (kv.1, some (stripTrailingNewlines kv.2))) :=
  ⟨_, script_sets_exact_ssh envs tag entry st ht hv hf h0, script_sets_exact envs st hd⟩

example : ∃ S, sh .posix State.empty (sshScript exEnvs exTag exEntry) = sh .posix S (exEntry ++ [nl]) ∧
    exEnvs.map (fun kv => (kv.1, S.environ kv.1)) = exEnvs.map (fun kv => (kv.1, some (stripTrailingNewlines kv.2))) :=
  ssh_environment_exact _ _ _ _ exTag_ok exEnvs_valid exEnvs_tagFree exEnvs_noNul exEnvs_nodup

/-- The script sets nothing else: a name that is not configured keeps its value and its export
attribute. -/
theorem script_sets_nothing_else (envs : Env) (st : State) (k : Bytes) (hk : ∀ kv ∈ envs, kv.1 ≠ k) :
    (st.afterHeader.deliverAll envs).get k = st.get k ∧
    (st.afterHeader.deliverAll envs).exported.contains k = st.exported.contains k :=
  deliverAll_get_other envs st.afterHeader k hk

example : (State.empty.afterHeader.deliverAll exEnvs).get [72, 79, 77, 69] = none :=
  (script_sets_nothing_else exEnvs State.empty [72, 79, 77, 69] (by decide)).1

/-- No variable can alter another: the value delivered for `k` is the same in any two environments
that configure `k` with the same value, whatever the other variables hold. -/
theorem no_variable_alters_another (envs envs' : Env) (st st' : State) (k v : Bytes)
    (hd : (envs.map (·.1)).Nodup) (hd' : (envs'.map (·.1)).Nodup)
    (h : (k, v) ∈ envs) (h' : (k, v) ∈ envs') :
    (st.afterHeader.deliverAll envs).environ k = (st'.afterHeader.deliverAll envs').environ k := by
  rw [deliverAll_environ envs _ hd (k, v) h, deliverAll_environ envs' _ hd' (k, v) h']

example : (State.empty.afterHeader.deliverAll exEnvs).environ [66, 95, 99]
    = (State.empty.afterHeader.deliverAll [([66, 95, 99], [36, 40, 114, 109, 32, 45, 114, 102, 32, 47, 41])]).environ [66, 95, 99] :=
  no_variable_alters_another _ _ _ _ [66, 95, 99] [36, 40, 114, 109, 32, 45, 114, 102, 32, 47, 41]
    exEnvs_nodup (by decide) (by decide) (by decide)

/-! ### names -/

/-- Names that are not plain identifiers are rejected when they are set. -/
theorem invalid_names_rejected (m : Env) (k v : Bytes) (h : ¬ Ident k) : envSet m k v = none := by
  have : nameOk k = false := by
    cases hn : nameOk k with
    | false => rfl
    | true => exact absurd ((nameOk_iff_ident k).mp hn) h
  simp [envSet, this]

/-- `A B`, `A;x` are not identifiers -/
example : envSet [] [65, 32, 66] [118] = none ∧ envSet [] [65, 59, 120] [118] = none :=
  ⟨invalid_names_rejected _ _ _ (fun h => absurd ((nameOk_iff_ident _).mpr h) (by decide)),
   invalid_names_rejected _ _ _ (fun h => absurd ((nameOk_iff_ident _).mpr h) (by decide))⟩

/-- Plain identifiers are accepted and stored with the value unchanged. -/
theorem valid_names_accepted (m : Env) (k v : Bytes) (h : Ident k) :
    ∃ m', envSet m k v = some m' ∧ m'.find? (fun kv => kv.1 == k) = some (k, v) := by
  have : nameOk k = true := (nameOk_iff_ident k).mpr h
  exact ⟨(k, v) :: m.filter (fun kv => kv.1 != k), by simp [envSet, this], by simp⟩

example : ∃ m', envSet [] [66, 95, 99] [36] = some m' ∧ m'.find? (fun kv => kv.1 == [66, 95, 99]) = some ([66, 95, 99], [36]) :=
  valid_names_accepted _ _ _ ((nameOk_iff_ident _).mp (by decide))

/-- The recogniser accepts exactly the language of `^[a-zA-Z]+([_a-zA-Z]+)?$`. -/
theorem name_pattern_is_regex (k : Bytes) : nameOk k = true ↔ RegexLang k :=
  (nameOk_iff_ident k).trans (regexLang_iff_ident k).symm

example : RegexLang [66, 95, 99] := (name_pattern_is_regex _).mp (by decide)

/-! ### the builder before fix da68e47 (unquoted here-document) does not have the property -/

/-- With `X=1` and `A=$X` the old SSH builder delivers `A=1`: the value was expanded, and one
variable altered another. -/
theorem unquoted_expands :
    ∃ S, sh .posix State.empty (sshScriptOld oldEnvs exTag exEntry) = .stop S (exEntry ++ [nl]) ∧
      S.environ [65] = some [49] ∧ some [49] ≠ some (stripTrailingNewlines [36, 88]) :=
  ⟨(State.empty.afterHeader.deliverAll [([88], [49]), ([65], [49])]), by decide, by decide, by decide⟩

/-- The statement of `script_sets_exact_ssh` is false for the old builder. -/
theorem old_ssh_builder_full_false :
    ¬ ∀ (envs : Env) (tag entry : Bytes) (st : State), TagOk tag → ValidKeys envs → TagFree tag envs → NoNul envs →
      sh .posix st (sshScriptOld envs tag entry) = sh .posix (st.afterHeader.deliverAll envs) (entry ++ [nl]) := by
  intro h
  have := h oldEnvs exTag exEntry State.empty exTag_ok oldEnvs_valid oldEnvs_tagFree oldEnvs_noNul
  revert this
  decide

/-! ### the real shell of this machine: dash 0.5.12 (known finding KF-C18-1)

Full-strength statement for the dash dialect (FALSE, see `dash_full_false`):
  ∀ envs tag entry st, TagOk tag → ValidKeys envs → TagFree tag envs → NoNul envs →
    sh .dash st (sshScript envs tag entry) = sh .dash (st.afterHeader.deliverAll envs) (entry ++ [nl])
dash loses a byte >= 0x80 that follows a non-empty prefix of the delimiter at the start of a value
line.  Proved part: outside that class (`DashSafe`: dash keeps every line of every value; implied
by "all bytes < 0x80" and by "no line starts with the tag's first byte", lemmas `dashLine_ascii`,
`dashLine_head_ne`) dash delivers exactly like the standard shell. -/

theorem dash_script_sets_exact_ssh_partial (envs : Env) (tag entry : Bytes) (st : State)
    (ht : TagOk tag) (hv : ValidKeys envs) (hf : TagFree tag envs) (h0 : NoNul envs) (hs : DashSafe tag envs) :
    sh .dash st (sshScript envs tag entry) = sh .dash (st.afterHeader.deliverAll envs) (entry ++ [nl]) :=
  sh_prefix .dash envs st _ ht hv hf h0 (Or.inr hs)

example : sh .dash State.empty (sshScript exEnvs exTag exEntry)
    = sh .dash (State.empty.afterHeader.deliverAll exEnvs) (exEntry ++ [nl]) :=
  dash_script_sets_exact_ssh_partial _ _ _ _ exTag_ok exEnvs_valid exEnvs_tagFree exEnvs_noNul exEnvs_dashSafe

theorem dash_script_sets_exact_container_partial (envs : Env) (tag entry : Bytes) (st : State)
    (ht : TagOk tag) (hv : ValidKeys envs) (hf : TagFree tag envs) (h0 : NoNul envs) (hs : DashSafe tag envs) :
    sh .dash st (containerStdin envs tag entry) = sh .dash (st.afterHeader.deliverAll envs) entry := by
  unfold containerStdin containerScript
  rw [List.append_assoc]
  exact sh_prefix .dash envs st _ ht hv hf h0 (Or.inr hs)

example : sh .dash State.empty (containerStdin exEnvs exTag exEntry)
    = sh .dash (State.empty.afterHeader.deliverAll exEnvs) exEntry :=
  dash_script_sets_exact_container_partial _ _ _ _ exTag_ok exEnvs_valid exEnvs_tagFree exEnvs_noNul exEnvs_dashSafe

/-- The full-strength statement is false for the dash dialect: `A` = `E` U+00E9 arrives without
its byte 0xC3 (replayed on the real /bin/sh by the check). -/
theorem dash_full_false :
    ¬ ∀ (envs : Env) (tag entry : Bytes) (st : State), TagOk tag → ValidKeys envs → TagFree tag envs → NoNul envs →
      sh .dash st (sshScript envs tag entry) = sh .dash (st.afterHeader.deliverAll envs) (entry ++ [nl]) := by
  intro h
  have := h dashEnvs exTag exEntry State.empty exTag_ok dashEnvs_valid dashEnvs_tagFree dashEnvs_noNul
  revert this
  decide

/-- ASCII-only values are outside the defect class. -/
theorem dashSafe_of_ascii (tag : Bytes) (envs : Env)
    (h : ∀ kv ∈ envs, ∀ l ∈ splitLines kv.2, ∀ b ∈ l, b < 128) : DashSafe tag envs :=
  fun kv hkv l hl => dashLine_ascii tag l (h kv hkv l hl)

example : DashSafe exTag exEnvs := dashSafe_of_ascii _ _ (by decide)

end Goat.C18
