/-
C19 — template providers: layered definitions, isolated views, cache-transparent.

Model: `Goat/Model/Templates.lean` (`run V k src cached reqs` = the answers of a fresh provider of
kind `k` (html/text) to the request sequence `reqs` over the template files `src`; an answer is
the set of definitions of the returned template, `none` = error).  `V : Variant` selects the code
as it is (`Vfix`, both repairs in: /repo commits 0187fed and 7d60dbb) or one of its earlier,
defective revisions (`V0` = both defects).  The theorems are stated for every variant under the
hypotheses that carve out the two defect classes, and those hypotheses are void for the code as
it is (`admissible_current`):

  `ReqOK V k r`  : not (html provider handing out its cached objects, and the caller executes an
                    object obtained from `Base()`/`Layout()`)                  — former KF-C19-1 (22b)
  `KeyOK V r`    : the layout name of a view request contains no ':' unless the view cache is
                    keyed by the pair                                            — former KF-C19-2
  `Admissible V k reqs` = every request satisfies both.

Full-strength statement: `cache_transparent` (for the code as it is, no hypotheses).  For the
old revisions it is false: `cache_transparent_false_html`, `cache_transparent_false_colon`.

Rendering is not modelled: what a template renders to is a function of its definitions (Go's
template semantics, the oracle of the correspondence run).
-/
import Goat.Proofs.TemplatesCache
import Goat.Proofs.TemplatesConc

namespace Goat.C19
open Goat Goat.Tmpl

/-- the providers before the two repairs (pinned tree + lock fix) -/
def V0 : Variant := { cloneOut := false, pairKey := false }
/-- the providers as they are in /repo -/
def Vfix : Variant := { cloneOut := true, pairKey := true }

/-- For the code as it is every request sequence is admissible: the layering, isolation and
ask-twice theorems below hold for it without any restriction on names or on what callers execute. -/
theorem admissible_current (k : Kind) (reqs : List Req) : Admissible Vfix k reqs := by
  intro r _
  cases r <;> simp [ReqOK, KeyOK, KeyP, Vfix]

example : Admissible Vfix Kind.html [Req.layout [112, 58, 113] true, Req.base true, Req.view [112] [113, 58, 114] true] :=
  admissible_current _ _

/-- the layered template of (layout `l`, view `v`): the view's definitions over the layout's over the helpers' -/
def layered (src : Src) (l v : Name) : Option TSet :=
  (layerDefs src.helpers).bind fun H => (layerDefs (src.layout l)).bind fun L =>
    (layerDefs (src.view v)).map fun W => over W (over L H)

/-- With caching off every answer is the fresh layered build, whatever was asked or executed before. -/
theorem uncached_is_spec (V : Variant) (k : Kind) (src : Src) (reqs : List Req) :
    run V k src false reqs = reqs.map (specAns src) :=
  runFrom_unc V k src reqs

/-- Every answer of either provider, cached or not, after any admissible history, is the fresh build. -/
theorem answers_are_spec (V : Variant) (k : Kind) (src : Src) (cached : Bool) (reqs : List Req)
    (h : Admissible V k reqs) : run V k src cached reqs = reqs.map (specAns src) :=
  runFrom_ok cached reqs (inv_init V src) h

/-- **Layering.** After any admissible history, `View(l, v)` answers with the view's definitions
laid over the layout's laid over the helpers' (an error iff one of the three layers fails to load). -/
theorem view_lookup (V : Variant) (k : Kind) (src : Src) (cached : Bool) (pre : List Req)
    (l v : Name) (e : Bool) (hv : v ≠ []) (h : Admissible V k (pre ++ [Req.view l v e])) :
    (run V k src cached (pre ++ [Req.view l v e])).getLast? = some (layered src (normL l) v) := by
  rw [answers_are_spec V k src cached _ h]
  simp [specAns, hv, specView_eq, layered]

example : ∃ reqs : List Req, Admissible V0 Kind.html (reqs ++ [Req.view [97] [98] true]) ∧ reqs.length = 2 :=
  ⟨[Req.layout [97] false, Req.view [] [99] true], (by
    intro r hr
    simp at hr
    rcases hr with rfl | rfl | rfl <;> simp [ReqOK, KeyOK, KeyP, normL, defaultLayout, colon]), rfl⟩

/-- Name by name: the more specific layer overrides the more general one.  (`pick`: a blank body
does not replace an existing definition — `text/template`'s rule for empty templates.) -/
theorem view_lookup_name (W L H : TSet) (n : Name) :
    over W (over L H) n = pick (W n) (pick (L n) (H n)) := rfl

/-- For definitions that are not blank this is `view <|> layout <|> helper`. -/
theorem view_lookup_plain (W L H : TSet) (n : Name)
    (hW : ∀ x, W n = some x → blank x = false) (hL : ∀ x, L n = some x → blank x = false) :
    over W (over L H) n = (W n <|> L n <|> H n) := by
  show pick (W n) (pick (L n) (H n)) = _
  rw [pick_eq_orElse _ _ hL, pick_eq_orElse _ _ hW]

example : ∃ W L H : TSet, ∃ n : Name, (∀ x, W n = some x → blank x = false) ∧
    (∀ x, L n = some x → blank x = false) ∧ W n = none ∧ L n = some [120] ∧ H n = some [121] :=
  ⟨TSet.empty, TSet.empty.set [110] [120], TSet.empty.set [110] [121], [110],
    (by intro x h; cases h), (by intro x h; simp [TSet.set] at h; subst h; decide), rfl, (by simp [TSet.set]),
    (by simp [TSet.set])⟩

/-- **Isolation between views.** A name that neither view `v'` itself, nor the layout, nor the
helpers define is absent from `View(l, v')` — whatever any other view's files define, and whatever
was requested (and cached) before. -/
theorem views_isolated (V : Variant) (k : Kind) (src : Src) (cached : Bool) (pre : List Req)
    (l v' : Name) (e : Bool) (h : Admissible V k (pre ++ [Req.view l v' e]))
    (r W L H : TSet) (n : Name)
    (hans : (run V k src cached (pre ++ [Req.view l v' e])).getLast? = some (some r))
    (hW : layerDefs (src.view v') = some W) (hL : layerDefs (src.layout (normL l)) = some L)
    (hH : layerDefs src.helpers = some H)
    (nW : W n = none) (nL : L n = none) (nH : H n = none) : r n = none := by
  rw [answers_are_spec V k src cached _ h] at hans
  by_cases hv : v' = []
  · simp [specAns, hv] at hans
  · simp [specAns, hv, specView_eq, hW, hL, hH] at hans
    subst hans
    simp [over, pick, nW, nL, nH]

/-- **Isolation of the layout.** A name that neither the layout nor the helpers define is absent
from `Layout(l)`: no view's definitions ever show up in a layout (or, taking `L = ∅`, in the base). -/
theorem layout_isolated (V : Variant) (k : Kind) (src : Src) (cached : Bool) (pre : List Req)
    (l : Name) (e : Bool) (h : Admissible V k (pre ++ [Req.layout l e]))
    (r L H : TSet) (n : Name)
    (hans : (run V k src cached (pre ++ [Req.layout l e])).getLast? = some (some r))
    (hL : layerDefs (src.layout (normL l)) = some L) (hH : layerDefs src.helpers = some H)
    (nL : L n = none) (nH : H n = none) : r n = none := by
  rw [answers_are_spec V k src cached _ h] at hans
  simp [specAns, specLayout_eq, hL, hH] at hans
  subst hans
  simp [over, pick, nL, nH]

/-- a source in which view `a` defines `n` and view `b` does not -/
def exSrc : Src :=
  { helpers := none
    layout := fun _ => none
    view := fun v => if v = [97] then
      some [{ tmpl := true, defines := [([110], [120])], root := [], bad := false }] else none }

example : ∃ W : TSet, layerDefs (exSrc.view [97]) = some W ∧ W [110] = some [120] ∧
    layerDefs (exSrc.view [98]) = some TSet.empty :=
  ⟨_, rfl, (by decide), rfl⟩

/-- **Asking twice** gives equal templates (in one admissible history, at any two positions). -/
theorem ask_twice_equal (V : Variant) (k : Kind) (src : Src) (cached : Bool) (reqs : List Req)
    (h : Admissible V k reqs) (i j : Nat) (a b : Req) (hi : reqs[i]? = some a) (hj : reqs[j]? = some b)
    (hab : sameTarget a b) :
    (run V k src cached reqs)[i]? = (run V k src cached reqs)[j]? := by
  rw [answers_are_spec V k src cached _ h]
  simp [List.getElem?_map, hi, hj, specAns_sameTarget src hab]

example : sameTarget (Req.view [] [98] true) (Req.view defaultLayout [98] false) := by
  simp [sameTarget, normL]

/-- Cache transparency for every variant, both providers, all file sets and all admissible
request sequences.  For the old revision `V0`: html sequences that execute only view templates,
layout names without ':'; for its text provider only the ':' restriction. -/
theorem cache_transparent_partial (V : Variant) (k : Kind) (src : Src) (reqs : List Req)
    (h : Admissible V k reqs) : run V k src true reqs = run V k src false reqs := by
  rw [answers_are_spec V k src true _ h, uncached_is_spec]

example : Admissible V0 Kind.html [Req.view [108] [118] true, Req.layout [108] false, Req.view [108] [118] false] := by
  intro r hr
  simp at hr
  rcases hr with rfl | rfl | rfl <;> simp [ReqOK, KeyOK, KeyP, normL, colon]

example : Admissible V0 Kind.text [Req.layout [108] true, Req.base true, Req.view [108] [58] true] := by
  intro r hr
  simp at hr
  rcases hr with rfl | rfl | rfl <;> simp [ReqOK, KeyOK, KeyP, normL, colon]

/-- **Cache transparency, full strength**, for the providers as they are: all file sets, all
request sequences (any names, any executions by the callers), both providers. -/
theorem cache_transparent (k : Kind) (src : Src) (reqs : List Req) :
    run Vfix k src true reqs = run Vfix k src false reqs :=
  cache_transparent_partial Vfix k src reqs (admissible_current k reqs)

/-- the witness of KF-C19-1: a layout directory with one template file -/
def kfSrc : Src :=
  { helpers := none
    layout := fun _ => some [{ tmpl := true, defines := [], root := [120], bad := false }]
    view := fun _ => none }

/-- `Layout("a")`, the caller executes it, then `View("a", "c")` -/
def kfReqs : List Req := [Req.layout [97] true, Req.view [97] [99] false]

/-- **Former KF-C19-1 (defect 22b, repaired by 0187fed)**: the old html provider is not cache transparent, even for names
without ':' — after a caller executed the cached layout, `View` fails (`cannot Clone … after it has
executed`) where the uncached provider succeeds. -/
theorem cache_transparent_false_html :
    ¬ (∀ (src : Src) (reqs : List Req), (∀ r ∈ reqs, KeyOK V0 r) →
        run V0 Kind.html src true reqs = run V0 Kind.html src false reqs) := by
  intro h
  have h1 := h kfSrc kfReqs (by
    intro r hr
    simp [kfReqs] at hr
    rcases hr with rfl | rfl <;> simp [KeyOK, KeyP, normL, colon])
  have h2 := congrArg (List.map Option.isSome) h1
  revert h2
  decide

/-- the witness of the key collision: layout `p:q` does not exist, layout `p` defines `n` -/
def colonSrc : Src :=
  { helpers := none
    layout := fun l => if l = [112] then
      some [{ tmpl := true, defines := [([110], [120])], root := [], bad := false }] else none
    view := fun _ => none }

/-- `View("p:q", "r")` then `View("p", "q:r")`: both join to the key `p:q:r` -/
def colonReqs : List Req := [Req.view [112, 58, 113] [114] false, Req.view [112] [113, 58, 114] false]

/-- **Former KF-C19-2 (repaired by 7d60dbb)**: with a ':' in a layout name neither old provider is cache transparent even if
nothing is ever executed (the second request is answered with the first one's template). -/
theorem cache_transparent_false_colon (k : Kind) :
    ¬ (∀ (src : Src) (reqs : List Req), (∀ r ∈ reqs, ReqOK V0 k r) →
        run V0 k src true reqs = run V0 k src false reqs) := by
  intro h
  have h1 := h colonSrc colonReqs (by
    intro r hr
    simp [colonReqs] at hr
    rcases hr with rfl | rfl <;> simp [ReqOK])
  have h2 := congrArg (List.map fun a => a.map fun t => (t [110]).isSome) h1
  revert h2
  cases k <;> decide

/-! ### concurrent use -/

/-- **No crash** in the guarded protocol (look-ups under the read lock, commit 2a64c6e): for any
number of goroutines, caching on or off, and every schedule, the runtime never sees a map read or
write overlapping a map write. -/
theorem no_fatal (n : Nat) (cached : Bool) (sched : List Nat) :
    (Sys.run true cached (Sys.init n) sched).fatal = false :=
  (sysInv_run cached sched (sysInv_init n)).1

/-- **Mutual exclusion** behind it: in every reachable state at most one goroutine is inside the
write-locked section (build + cache write), and none holds the read lock meanwhile — each
`Base/Layout/View` body therefore runs as in the sequential model. -/
theorem mutual_exclusion (n : Nat) (cached : Bool) (sched : List Nat) (i j : Nat) (p q : PC)
    (hi : (Sys.run true cached (Sys.init n) sched).pcs[i]? = some p)
    (hj : (Sys.run true cached (Sys.init n) sched).pcs[j]? = some q) :
    (p.inW = true → q.inW = true → i = j) ∧ (p.inW = true → q.inR = true → False) :=
  (sysInv_run cached sched (sysInv_init n)).2 i j p q hi hj

example : (Sys.run true true (Sys.init 3) [0, 1, 0, 1, 0, 1, 0, 0, 0, 0, 0, 1, 1, 2, 2, 2]).filled = true ∧
    (Sys.run true true (Sys.init 3) [0, 1, 0, 1, 0, 1, 0, 0, 0, 0, 0, 1, 1, 2, 2, 2]).pcs = [PC.idle, PC.wrote, PC.idle] := by
  decide

/-- **The pinned protocol crashes**: with two or more goroutines there is a schedule in which an
unguarded look-up overlaps the cache write (`fatal error: concurrent map read and map write`). -/
theorem fatal_reachable (n : Nat) (h : 2 ≤ n) :
    ∃ sched : List Nat, (Sys.run false true (Sys.init n) sched).fatal = true := by
  obtain ⟨m, rfl⟩ : ∃ m, n = m + 2 := ⟨n - 2, by omega⟩
  exact ⟨[0, 0, 0, 0, 1], pinned_fatal m⟩

end Goat.C19
