/-
Property C20 — "Config and translation maps survive flattening, JSON and loading unchanged".

Model: `Goat/Model/PlainMap.lean` (mirror of varutil/plainmap, i18n/i18mem, i18n/fsi18loader and of the
parts of github.com/buger/jsonparser and encoding/json they use).  Specification-side definitions
(`WFNested`, `PrefixFree`, `Flat.Equiv`, `ValidUTF8`, documents as concrete syntax `CObj` with
`render` / `leaves`): `Goat/Proofs/PlainMapSpec.lean`.  Helper lemmas: `Goat/Proofs/PlainMap*.lean`.
This file holds only the property theorems and, next to each, an `example` showing that its
hypotheses are satisfiable by a non-trivial value.

Three recorded findings (see /verif/known_findings.d/C20.json) shape the statements:

* KF-C20-1  the reader decides "nested or top level" by testing whether the accumulated key is empty:
            an object stored under the empty key at the top level loses that level
            (`{"":{"x":"1"}}` reads as `x`), so a flat key that begins with a dot does not round-trip.
            `read_matches_decoder_full_false`, `write_read_full_false` disprove the full statements for
            the code as it is; the `_partial` theorems carry the negated defect predicate; the
            `_repaired` theorems prove the full statements for the reader with the proposed one-line
            repair (`readFixed`).
* KF-C20-2  `ToRecursiveMap` rejects the flat key `""`: a nested map with a leaf under the empty key
            at the top level (dot-free key, no empty sub-map) flattens to a map that cannot be rebuilt.
            `rebuild_flatten_full_false`, `flatten_rebuild_full_false`; `_partial` under the negation.
* KF-C20-3  jsonparser's `\u` decoding of surrogate code units: a lone surrogate escape makes the reader
            fail (a standard decoder yields U+FFFD).  `CObj.WF` admits `\u` escapes only for
            non-surrogate code units and for proper high/low pairs; `read_lone_surrogate_false`.

Invalid UTF-8 cannot be written as JSON text: `write_read_*` assume well-formed UTF-8 keys and values
(`write_read_invalid_utf8_false` shows the hypothesis is needed; the check tests the excluded point on
the real code).
-/
import Goat.Proofs.PlainMapRebuild
import Goat.Proofs.PlainMapEmit
import Goat.Proofs.PlainMapLoad

namespace Goat.C20
open Goat Goat.PlainMap

/-! ## 1. flatten and rebuild are mutually inverse

Full statement (false on the code, KF-C20-2):
  `∀ m, m.WFNested → ∀ order ~ flatten m, ∃ t, rebuild order = some t ∧ t ≃ m`.
`order` is the order in which Go happens to iterate over the flat map. -/

theorem rebuild_flatten_partial {α : Type} (m : Tree α) (hw : m.WFNested)
    (hk : m.leafAt [[]] = none)            -- ¬ KF-C20-2: no leaf under the empty key at the top level
    (order : Flat α) (hperm : order.Perm m.flatten) :
    ∃ t, rebuild order = some t ∧ t.WFNested ∧ t.Equiv m := by
  obtain ⟨hu, hd, _⟩ := hw
  have hkeys : (Flat.keys order).Perm (Flat.keys m.flatten) := hperm.map Prod.fst
  obtain ⟨t, ht, hu', hno', hd', hl⟩ := rebuild_spec order
    (hkeys.nodup_iff.mpr (Tree.flatten_keys_nodup hu hd))
    (fun a ha b hb r => Tree.flatten_prefixFree hu hd a (hkeys.mem_iff.mp ha) b (hkeys.mem_iff.mp hb) r)
    (fun h => Tree.flatten_no_empty_key hu hd hk (hkeys.mem_iff.mp h))
  refine ⟨t, ht, ⟨hu', hd', hno'⟩, ?_⟩
  intro p
  apply opt_ext
  intro v
  rw [hl]
  constructor
  · rintro ⟨k, hkm, hp⟩
    obtain ⟨p0, hp0, hj⟩ := Tree.mem_flatten.mp (hperm.mem_iff.mp hkm)
    rw [hp, ← hj, splitDot_joinDot p0 (Tree.paths_ne_nil hp0) (Tree.paths_dotFree hd hp0)]
    exact Tree.leafAt_of_mem_paths p0 hu hp0
  · intro h
    have hm := Tree.mem_paths_of_leafAt p h
    refine ⟨joinDot p, hperm.mem_iff.mpr (Tree.mem_flatten.mpr ⟨p, hm, rfl⟩), ?_⟩
    rw [splitDot_joinDot p (Tree.paths_ne_nil hm) (Tree.paths_dotFree hd hm)]

/-- hypotheses satisfiable: `{"a": {"b": "1", "": "2"}, "c": "3"}` -/
example : (Tree.node [97] (.leaf [98] [49] (.leaf [] [50] .nil)) (.leaf [99] [51] .nil) : Tree Bytes).WFNested ∧
    (Tree.node [97] (.leaf [98] [49] (.leaf [] [50] .nil)) (.leaf [99] [51] .nil) : Tree Bytes).leafAt [[]] = none := by
  simp [Tree.WFNested, Tree.Uniq, Tree.DotFreeKeys, Tree.NoEmpty, Tree.find?, DotFree, Tree.leafAt, dot]

/-- KF-C20-2: the nested map `{"": "1"}` is well formed, its flattening `{"": "1"}` is rejected -/
theorem rebuild_flatten_full_false :
    ¬ ∀ (m : Tree Bytes), m.WFNested → ∃ t, rebuild m.flatten = some t ∧ t.Equiv m := by
  intro h
  obtain ⟨t, ht, _⟩ := h (.leaf [] [49] .nil) ⟨⟨rfl, trivial⟩, ⟨by simp [DotFree], trivial⟩, trivial⟩
  simp [Tree.flatten, Tree.flattenNode, rebuild] at ht

/-- Full statement (false on the code, KF-C20-2): the same without `he`.  A Go map has distinct keys
(`hn`); the hypotheses do not depend on the order of `f`, so this covers every iteration order. -/
theorem flatten_rebuild_partial {α : Type} (f : Flat α) (hn : f.keys.Nodup) (hp : PrefixFree f.keys)
    (he : [] ∉ f.keys) :                     -- ¬ KF-C20-2: the empty string is not a key
    ∃ t, rebuild f = some t ∧ t.WFNested ∧ (Tree.flatten t).Equiv f := by
  obtain ⟨t, ht, hu, hno, hd, hl⟩ := rebuild_spec f hn hp he
  refine ⟨t, ht, ⟨hu, hd, hno⟩, ?_⟩
  intro key
  rw [Tree.get_flatten hu hd]
  apply opt_ext
  intro v
  rw [hl]
  constructor
  · rintro ⟨k, hkm, hs⟩
    have := splitDot_inj hs; subst this
    exact Flat.get_of_mem_nodup hn hkm
  · intro h
    exact ⟨key, Flat.mem_of_get h, rfl⟩

/-- hypotheses satisfiable: `{"a.b": "1", "a..c": "2", ".x": "3", "d.": "4"}` -/
example : (Flat.keys [([97, 46, 98], [49]), ([97, 46, 46, 99], [50]), ([46, 120], [51]), ([100, 46], [52])]).Nodup ∧
    [] ∉ Flat.keys [([97, 46, 98], [49]), ([97, 46, 46, 99], [50]), ([46, 120], [51]), ([100, 46], [52])] ∧
    PrefixFree (Flat.keys [([97, 46, 98], [49]), ([97, 46, 46, 99], [50]), ([46, 120], [51]), ([100, 46], [52])]) := by
  refine ⟨by decide, by decide, ?_⟩
  intro a ha b hb r
  simp [Flat.keys] at ha hb
  rcases ha with rfl | rfl | rfl | rfl <;> rcases hb with rfl | rfl | rfl | rfl <;> simp [dot]

theorem flatten_rebuild_full_false :
    ¬ ∀ (f : Flat Bytes), f.keys.Nodup → PrefixFree f.keys → ∃ t, rebuild f = some t ∧ (Tree.flatten t).Equiv f := by
  intro h
  obtain ⟨t, ht, _⟩ := h [([], [49])] (by simp [Flat.keys]) (by
    intro a ha b hb r; simp [Flat.keys] at ha hb; subst ha; subst hb; simp)
  simp [rebuild] at ht

/-! ## 2. the reader agrees with the standard decoder

A JSON text whose top-level value is an object is `wLead ++ o.render wOpen ++ tail` for a well-formed
concrete syntax tree `o` (any white space, any spelling of every character, number literals as written,
arrays / true / false / null as other leaves); `o.leaves []` is the flat map a standard decoder followed
by flattening yields for its string and number leaves.  `tail` is arbitrary: the reader does not look
past the closing brace. -/

/-- the code with the proposed repair of KF-C20-1: full statement -/
theorem read_matches_decoder_repaired (wLead wOpen : Bytes) (o : CObj) (tail : Bytes)
    (hl : WsOK wLead) (ho : WsOK wOpen) (hwf : o.WF) :
    readFixed (wLead ++ o.render wOpen ++ tail) = some (o.leaves []) := by
  have e : wLead ++ o.render wOpen ++ tail = wLead ++ (lbrace :: (wOpen ++ (o.renderMs ++ rbrace :: tail))) := by
    simp [CObj.render]
  rw [readFixed, readWith, e, skipWs_append hl, skipWs_cons (by decide)]
  simp only [if_true]
  exact members_render o true _ true [] [] tail wOpen hwf (by simp [KeyRel]) (by intro h; cases h)
    (by simp; omega) ho

/-- the code as it is: the same for every document that does not store an object under the empty
key at the top level (¬ KF-C20-1) -/
theorem read_matches_decoder_partial (wLead wOpen : Bytes) (o : CObj) (tail : Bytes)
    (hl : WsOK wLead) (ho : WsOK wOpen) (hwf : o.WF) (hk : ¬ o.emptyTopKey) :
    read (wLead ++ o.render wOpen ++ tail) = some (o.leaves []) := by
  have e : wLead ++ o.render wOpen ++ tail = wLead ++ (lbrace :: (wOpen ++ (o.renderMs ++ rbrace :: tail))) := by
    simp [CObj.render]
  show readWith false _ = _
  rw [readWith, e, skipWs_append hl, skipWs_cons (by decide)]
  simp only [if_true]
  exact members_render o false _ true [] [] tail wOpen hwf (by simp [KeyRel]) (fun _ _ => hk)
    (by simp; omega) ho

/-- hypotheses satisfiable: `{ "k\"" : {"n":-1.5e3,"s":"\u00e9\ud83d\ude00\n"} ,"o":[1,{"x":"]"}]}` -/
example :
    (CObj.sub [32] [.raw 107, .esc 34] [32] [32] [] (.leaf [] [.raw 110] [] [] (.num [45, 49, 46, 53, 101, 51]) []
        (.leaf [] [.raw 115] [] [] (.str [.uni 48 48 101 57, .pair 100 56 51 100 100 101 48 48, .esc 110]) [] .nil))
      [32] (.leaf [] [.raw 111] [] [] (.other [91, 49, 44, 123, 34, 120, 34, 58, 34, 93, 34, 125, 93]) [] .nil)).WF ∧
    ¬ (CObj.sub [32] [.raw 107, .esc 34] [32] [32] [] (.leaf [] [.raw 110] [] [] (.num [45, 49, 46, 53, 101, 51]) []
        (.leaf [] [.raw 115] [] [] (.str [.uni 48 48 101 57, .pair 100 56 51 100 100 101 48 48, .esc 110]) [] .nil))
      [32] (.leaf [] [.raw 111] [] [] (.other [91, 49, 44, 123, 34, 120, 34, 58, 34, 93, 34, 125, 93]) [] .nil)).emptyTopKey := by
  have sp : WsOK [32] := by intro b hb; simp at hb; subst hb; decide
  have raw : ∀ b : Byte, b ≠ dq → b ≠ bsl → ∀ i ∈ [SItem.raw b], i.WF := by
    intro b h1 h2 i hi; simp at hi; subst hi; exact ⟨h1, h2⟩
  refine ⟨⟨sp, sp, sp, wsOK_nil, sp, ?_, ⟨wsOK_nil, wsOK_nil, wsOK_nil, wsOK_nil, raw 110 (by decide) (by decide), ?_,
    ⟨wsOK_nil, wsOK_nil, wsOK_nil, wsOK_nil, raw 115 (by decide) (by decide), ?_, trivial⟩⟩,
    ⟨wsOK_nil, wsOK_nil, wsOK_nil, wsOK_nil, raw 111 (by decide) (by decide), ?_, trivial⟩⟩, ?_⟩
  · intro i hi; simp at hi; rcases hi with rfl | rfl
    · exact ⟨by decide, by decide⟩
    · show (simpleEsc 34).isSome = true; decide
  · exact ⟨⟨45, _, rfl, Or.inr rfl⟩, by decide⟩
  · intro i hi; simp at hi; rcases hi with rfl | rfl | rfl
    · exact ⟨0xe9, by decide, by decide⟩
    · exact ⟨0xd83d, 0xde00, by decide, by decide, by decide, by decide, by decide, by decide⟩
    · show (simpleEsc 110).isSome = true; decide
  · right; right; right
    refine ⟨[49, 44, 123, 34, 120, 34, 58, 34, 93, 34, 125], rfl, ?_⟩
    exact Bal.chr 49 _ (by decide) (by decide) (by decide) (by decide) (by decide)
      (Bal.chr 44 _ (by decide) (by decide) (by decide) (by decide) (by decide)
        (Bal.brace [34, 120, 34, 58, 34, 93, 34] [] (Bal.str [120] _ (.chr 120 _ (by decide) (by decide) .nil)
          (Bal.chr 58 _ (by decide) (by decide) (by decide) (by decide) (by decide)
            (Bal.str [93] [] (.chr 93 _ (by decide) (by decide) .nil) Bal.nil))) Bal.nil))
  · simp [CObj.emptyTopKey, valItems, SItem.val]

/-- KF-C20-1: `{"":{"x":"1"}}` denotes `.x = 1`, the code reads `x = 1` -/
theorem read_matches_decoder_full_false :
    ¬ ∀ (o : CObj), o.WF → read (o.render []) = some (o.leaves []) := by
  intro h
  have := h (.sub [] [] [] [] [] (.leaf [] [.raw 120] [] [] (.str [.raw 49]) [] .nil) [] .nil)
    (by simp [CObj.WF, WsOK, SItem.WF, CLeaf.WF, dq, bsl])
  revert this
  decide

/-- KF-C20-3: for a `\u` escape of any four hex digits a standard decoder yields the UTF-8 encoding of
the code unit (U+FFFD for a lone surrogate — that is what `encodeRune` gives); the code fails on
`{"a":"\ud800"}` -/
theorem read_lone_surrogate_false :
    ¬ ∀ (a b c d : Byte) (cp : Nat), hex4 a b c d = some cp →
      read ([123, 34, 97, 34, 58, 34, 92, 117] ++ [a, b, c, d] ++ [34, 125]) = some [([97], encodeRune cp)] := by
  intro h
  have := h 100 56 48 48 0xD800 (by decide)
  revert this
  decide

/-! ## 3. writing a flat map and reading it back

Full statement (false on the code, KF-C20-1): `write_read_partial` without `hd`.  Prefix-freeness is
not needed for the round trip through *this* reader (it is needed for the written document to denote
the map under a standard decoder; the check tests that with encoding/json). -/

/-- the code with the proposed repair of KF-C20-1: every map with distinct, well-formed UTF-8 keys and
values (all characters: quotes, backslashes, control, non-ASCII) is read back unchanged -/
theorem write_read_repaired (f : Flat Bytes) (hn : f.keys.Nodup)
    (hk : ∀ k ∈ f.keys, ValidUTF8 k) (hv : ∀ e ∈ f, ValidUTF8 e.2) :
    ∃ g, readFixed (emit f) = some g ∧ g.Equiv f := by
  refine ⟨_, read_emit true f ?_ (by intro h; cases h), entriesOf_equiv f hn (List.mergeSort_perm _ _)⟩
  intro k hkm
  refine ⟨hk k hkm, ?_⟩
  unfold valOf
  cases hg : f.get k with
  | none => exact .nil
  | some v => exact hv (k, v) (Flat.mem_of_get hg)

/-- the code as it is: the same when no key begins with a dot (¬ KF-C20-1) -/
theorem write_read_partial (f : Flat Bytes) (hn : f.keys.Nodup)
    (hk : ∀ k ∈ f.keys, ValidUTF8 k) (hv : ∀ e ∈ f, ValidUTF8 e.2)
    (hd : ∀ k ∈ f.keys, k.head? ≠ some dot) :
    ∃ g, read (emit f) = some g ∧ g.Equiv f := by
  refine ⟨_, read_emit false f ?_ (fun _ => hd), entriesOf_equiv f hn (List.mergeSort_perm _ _)⟩
  intro k hkm
  refine ⟨hk k hkm, ?_⟩
  unfold valOf
  cases hg : f.get k with
  | none => exact .nil
  | some v => exact hv (k, v) (Flat.mem_of_get hg)

/-- hypotheses satisfiable: `{"a.b": "\"\\\n", "a..é": "<\u2028>", "": "x"}` (é = C3 A9, U+2028 = E2 80 A8) -/
example : (Flat.keys [([97, 46, 98], [34, 92, 10]), ([97, 46, 46, 0xC3, 0xA9], [60, 0xE2, 0x80, 0xA8, 62]), ([], [120])]).Nodup ∧
    (∀ k ∈ Flat.keys [([97, 46, 98], [34, 92, 10]), ([97, 46, 46, 0xC3, 0xA9], [60, 0xE2, 0x80, 0xA8, 62]), ([], [120])],
      ValidUTF8 k ∧ k.head? ≠ some dot) ∧
    ValidUTF8 [60, 0xE2, 0x80, 0xA8, 62] ∧ ValidUTF8 [34, 92, 10] := by
  refine ⟨by decide, ?_, ?_, ?_⟩
  · intro k hk
    simp [Flat.keys] at hk
    rcases hk with rfl | rfl | rfl
    · exact ⟨.ascii _ _ (by decide) (.ascii _ _ (by decide) (.ascii _ _ (by decide) .nil)), by decide⟩
    · exact ⟨.ascii _ _ (by decide) (.ascii _ _ (by decide) (.ascii _ _ (by decide)
        (.two _ _ _ (by decide) (by decide) ⟨by decide, by decide⟩ .nil))), by decide⟩
    · exact ⟨.nil, by decide⟩
  · exact .ascii _ _ (by decide) (.three _ _ _ _ (Or.inl ⟨by decide, by decide⟩) ⟨by decide, by decide⟩
      ⟨by decide, by decide⟩ (.ascii _ _ (by decide) .nil))
  · exact .ascii _ _ (by decide) (.ascii _ _ (by decide) (.ascii _ _ (by decide) .nil))

/-- KF-C20-1: `{".x": "1"}` is written as `{"":{"x":"1"}}` and read back as `{"x": "1"}` -/
theorem write_read_full_false :
    ¬ ∀ (f : Flat Bytes), f.keys.Nodup → (∀ k ∈ f.keys, ValidUTF8 k) → (∀ e ∈ f, ValidUTF8 e.2) →
      ∃ g, read (emit f) = some g ∧ g.Equiv f := by
  intro h
  obtain ⟨g, hg, he⟩ := h [([46, 120], [49])] (by decide)
    (by intro k hk; simp [Flat.keys] at hk; subst hk; exact .ascii _ _ (by decide) (.ascii _ _ (by decide) .nil))
    (by intro e he; simp at he; subst he; exact .ascii _ _ (by decide) .nil)
  have hemit : emit [([46, 120], [49])] = [123, 34, 34, 58, 123, 34, 120, 34, 58, 34, 49, 34, 125, 125] := by
    simp only [emit, Flat.keys, List.map_cons, List.map_nil, sortKeys, List.mergeSort_singleton]
    decide
  rw [hemit] at hg
  have hread : read ([123, 34, 34, 58, 123, 34, 120, 34, 58, 34, 49, 34, 125, 125]) = some [([120], [49])] := by decide
  rw [hread] at hg
  cases hg
  have := he [46, 120]
  revert this
  decide

/-- the hypothesis "well-formed UTF-8" is needed: the value `FF` comes back as U+FFFD -/
theorem write_read_invalid_utf8_false :
    ¬ ∀ (f : Flat Bytes), f.keys.Nodup → (∀ k ∈ f.keys, k.head? ≠ some dot) → ∃ g, read (emit f) = some g ∧ g.Equiv f := by
  intro h
  obtain ⟨g, hg, he⟩ := h [([97], [0xFF])] (by decide) (by decide)
  have hemit : emit [([97], [0xFF])] = [123, 34, 97, 34, 58, 34, 92, 117, 102, 102, 102, 100, 34, 125] := by
    simp only [emit, Flat.keys, List.map_cons, List.map_nil, sortKeys, List.mergeSort_singleton]
    decide
  rw [hemit] at hg
  have hread : read ([123, 34, 97, 34, 58, 34, 92, 117, 102, 102, 102, 100, 34, 125]) = some [([97], [0xEF, 0xBF, 0xBD])] := by decide
  rw [hread] at hg
  cases hg
  have := he [97]
  revert this
  decide

/-! ## 4. loading a directory of translation files

`files`: what the walk reaches, `order`: the order in which the consumers call `Set` — any permutation
(every scheduling of any number of consumers yields one, because `Set` runs under the mutex).  Files
not named `*.json` are ignored.  `reader` is the JSON reader (any function: the statement does not
depend on which). -/

/-- every key of every translation file translates to the value given by the last file in `order`
that defines it -/
theorem load_all_keys (reader : Bytes → Option (Flat Bytes)) (files order : List (Bytes × Bytes))
    (hperm : order.Perm files)
    (hok : ∀ f ∈ files, isJsonName f.1 = true → ∃ m, reader f.2 = some m) :
    ∃ st, load reader order = some st ∧
      ∀ pre f post m k v, order = pre ++ f :: post → isJsonName f.1 = true → reader f.2 = some m → m.get k = some v →
        (∀ g ∈ post, isJsonName g.1 = true → ∀ m', reader g.2 = some m' → m'.get k = none) →
        I18.translate st k = some v := by
  obtain ⟨st, hst, h1, _⟩ := fold_spec reader (order.filter fun f => isJsonName f.1) []
    (by
      intro f hf
      obtain ⟨hfo, hj⟩ := List.mem_filter.mp hf
      exact hok f (hperm.mem_iff.mp hfo) hj)
  refine ⟨st, by rw [load_eq]; exact hst, ?_⟩
  intro pre f post m k v e hj hm hv hpost
  refine h1 (pre.filter fun f => isJsonName f.1) f (post.filter fun f => isJsonName f.1) m k v ?_ hm hv ?_
  · rw [e, List.filter_append, List.filter_cons, if_pos hj]
  · intro g hg m' hm'
    obtain ⟨hgp, hgj⟩ := List.mem_filter.mp hg
    exact hpost g hgp hgj m' hm'

/-- the case the property states: when no two files define the same key, every key of every file
translates to its value — whatever the order -/
theorem load_all_keys_disjoint (reader : Bytes → Option (Flat Bytes)) (files order : List (Bytes × Bytes))
    (hperm : order.Perm files) (hnd : files.Nodup)
    (hok : ∀ f ∈ files, isJsonName f.1 = true → ∃ m, reader f.2 = some m)
    (hdisj : ∀ f ∈ files, ∀ g ∈ files, f ≠ g → ∀ m m' k, reader f.2 = some m → reader g.2 = some m' →
      m.get k ≠ none → m'.get k = none) :
    ∃ st, load reader order = some st ∧
      ∀ f ∈ files, isJsonName f.1 = true → ∀ m, reader f.2 = some m → ∀ k v, m.get k = some v →
        I18.translate st k = some v := by
  obtain ⟨st, hst, h⟩ := load_all_keys reader files order hperm hok
  refine ⟨st, hst, ?_⟩
  intro f hf hj m hm k v hv
  obtain ⟨pre, post, e⟩ := List.append_of_mem (hperm.mem_iff.mpr hf)
  have hno : order.Nodup := hperm.nodup_iff.mpr hnd
  refine h pre f post m k v e hj hm hv ?_
  intro g hg _ m' hm'
  have hgo : g ∈ order := by rw [e]; exact List.mem_append_right _ (List.mem_cons_of_mem _ hg)
  have hne : f ≠ g := by
    intro heq; subst heq
    rw [e, List.nodup_append] at hno
    exact (List.nodup_cons.mp hno.2.1).1 hg
  exact hdisj f hf g (hperm.mem_iff.mp hgo) hne m m' k hm hm' (by rw [hv]; simp)

/-- hypotheses satisfiable: `tr/pl/a.json`, `tr/b.json` are translation files and parse, `tr/readme.txt`
is not one -/
example : isJsonName [116, 114, 47, 112, 108, 47, 97, 46, 106, 115, 111, 110] = true ∧
    isJsonName [116, 114, 47, 98, 46, 106, 115, 111, 110] = true ∧
    isJsonName [116, 114, 47, 114, 101, 97, 100, 109, 101, 46, 116, 120, 116] = false ∧
    read [123, 34, 112, 108, 34, 58, 123, 34, 104, 105, 34, 58, 34, 99, 122, 101, 92, 117, 48, 49, 53, 98, 92, 117, 48, 49,
      48, 55, 34, 125, 125] = some [([112, 108, 46, 104, 105], [99, 122, 101, 0xC5, 0x9B, 0xC4, 0x87])] ∧
    read [123, 34, 101, 110, 34, 58, 123, 34, 104, 105, 34, 58, 34, 104, 101, 108, 108, 111, 34, 125, 125] =
      some [([101, 110, 46, 104, 105], [104, 101, 108, 108, 111])] := by
  refine ⟨by decide, by decide, by decide, by decide, by decide⟩

end Goat.C20
