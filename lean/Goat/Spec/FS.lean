/-
The abstract filespace (core Lean only): the vocabulary shared by every filespace model of the
`fs` family (C01–C07) and the point-wise specification of the 16 `filesystem.Filespace` methods.

  * `Op`      one constructor per method of the Go interface (/repo/filesystem/main.go); path
              arguments are the *raw* byte strings handed to the method (any spelling).
  * `Result`  what a caller observes of one call (errors carry no text; a listing is the sequence
              of `(Name, IsDir)`; `Lstat` is observed as name/kind/size).
  * `State`   `Path → Option Entry`, a path being a list of real names: the plain
              "tree of named nodes" of the property, with no representation of directories.
  * `Step base S op r S'`   the specification: a call `op` through a view rooted at `base`
              (`[]` for a root filespace) in state `S` may answer `r` and leave `S'`.  Every clause
              is non-recursive and point-wise: `S' q` is given by a formula over `S`.
              The only path processing is `Path.norm` (= `ReduceAbsPath`, see
              `Proofs/Path.lean` for what it means: `reduce_eq_walk`, `reduce_plain`).

  * `Run views S ops rs S'`  the same for a whole history over the filespace and its child views.

`Step` is a relation only because a directory listing is specified as a *set* (duplicate-free,
membership given by the tree); everything else is functional.

Decisions recorded here (they are facts of the code, found by reading it and confirmed by the
correspondence):
  * a failing call changes nothing;
  * `Remove` of a missing path, of a non-empty directory or of the (view) root fails;
    `RemoveAll` of a missing path or of the (view) root fails;
  * `WriteFile`/`Writer` create missing parents, replace a file, fail on a directory or when a
    parent is a file; the empty path fails on a root filespace (through a view it denotes the
    view's own root path, see `Step`);
  * `Copy*` fail when the destination exists (file or directory), create the destination's missing
    parents first and copy the source as it is *after* that;
  * `MkdirAll("")` succeeds and changes nothing; `ReadDir`/`Lstat`/`IsDir` of `""` address the root;
  * `Filespace(p)` succeeds for every non-climbing `p`, whether or not `p` exists or is a directory.
-/
import Goat.Base.Path

namespace Goat
namespace FS

open Path (Name norm)

/-- the 16 methods of `filesystem.Filespace` -/
inductive Op where
  | copy (src dst : Bytes)
  | copyDirectory (src dst : Bytes)
  | copyFile (src dst : Bytes)
  | readDir (p : Bytes)
  | isExist (p : Bytes)
  | isFile (p : Bytes)
  | isDir (p : Bytes)
  | mkdirAll (p : Bytes)
  | readFile (p : Bytes)
  | writeFile (p : Bytes) (data : Bytes)
  | filespace (p : Bytes)
  /-- `Reader(p)`, then one `Read` with a buffer of each given size, then `Close` -/
  | reader (p : Bytes) (sizes : List Nat)
  /-- `Writer(p)`, then one `Write` per chunk, then `Close` -/
  | writer (p : Bytes) (chunks : List Bytes)
  | remove (p : Bytes)
  | removeAll (p : Bytes)
  | lstat (p : Bytes)
deriving Repr, DecidableEq

inductive Result where
  | ok
  | err
  | bool (b : Bool)
  | data (d : Bytes)
  /-- `ReadDir`: `(Name(), IsDir())` of every entry, in the order returned -/
  | list (l : List (Name × Bool))
  /-- `Lstat`: `Name()`, `IsDir()`, and `Size()` for a file (0 for a directory: not observed) -/
  | stat (name : Name) (isDir : Bool) (size : Nat)
  /-- `Reader`: for every `Read`, the bytes delivered and whether `io.EOF` came with them -/
  | chunks (l : List (Bytes × Bool))
deriving Repr, DecidableEq

inductive Entry where
  | file (d : Bytes)
  | dir
deriving Repr, DecidableEq

def Entry.isDir : Entry → Bool
  | .dir => true
  | .file _ => false

abbrev Path := List Name

/-- the abstract tree: which entry, if any, stands at a (normalised) path -/
abbrev State := Path → Option Entry

/-- the empty filespace: only the root directory exists -/
def State.empty : State := fun q => if q = [] then some .dir else none

/-- name reported by `Lstat`: the last segment; the root of a memory filespace is called `ROOT` -/
def statName (p : Path) : Name :=
  match p.getLast? with
  | some n => n
  | none => str "ROOT"

/-- bytes delivered by successive `Read`s with buffers of the given sizes; EOF is reported by the
read that reaches the end (also by a read of an already exhausted file) -/
def readChunks : Bytes → List Nat → List (Bytes × Bool)
  | _, [] => []
  | rest, n :: sizes => (rest.take n, (rest.drop n).isEmpty) :: readChunks (rest.drop n) sizes

/-! ### Preconditions and post-states (all point-wise) -/

/-- no node on the way to `p` (including `p`) is a file -/
def mkdirOk (S : State) (p : Path) : Prop := ∀ q, q <+: p → ∀ d, S q ≠ some (.file d)

def mkdirSt (S : State) (p : Path) : State :=
  fun q => if q <+: p then some .dir else S q

def writeOk (S : State) (p : Path) : Prop :=
  p ≠ [] ∧ mkdirOk S p.dropLast ∧ S p ≠ some .dir

def writeSt (S : State) (p : Path) (d : Bytes) : State :=
  fun q => if q = p then some (.file d) else mkdirSt S p.dropLast q

def removeOk (S : State) (p : Path) : Prop :=
  p ≠ [] ∧ ((∃ d, S p = some (.file d)) ∨ (S p = some .dir ∧ ∀ n, S (p ++ [n]) = none))

def removeSt (S : State) (p : Path) : State :=
  fun q => if q = p then none else S q

def removeAllOk (S : State) (p : Path) : Prop := p ≠ [] ∧ S p ≠ none

def removeAllSt (S : State) (p : Path) : State :=
  fun q => if p <+: q then none else S q

/-- which sources a copy accepts -/
inductive CopyKind | any | dirOnly | fileOnly
deriving DecidableEq, Repr

def CopyKind.accepts : CopyKind → Option Entry → Prop
  | _, none => False
  | .any, some _ => True
  | .dirOnly, some e => e = .dir
  | .fileOnly, some e => ∃ d, e = .file d

def copyOk (kind : CopyKind) (S : State) (s d : Path) : Prop :=
  d ≠ [] ∧ kind.accepts (S s) ∧ mkdirOk S d.dropLast ∧ S d = none

/-- the destination's parents are created first; the copy is a copy of the source *after* that
(visible only when the source is an ancestor of the destination) -/
def copySt (S : State) (s d : Path) : State :=
  fun q => if d <+: q then mkdirSt S d.dropLast (s ++ q.drop d.length) else mkdirSt S d.dropLast q

/-- a listing of directory `p`: duplicate-free and exactly the children of `p` with their kinds -/
def IsListing (S : State) (p : Path) (l : List (Name × Bool)) : Prop :=
  (l.map Prod.fst).Nodup ∧ ∀ n b, (n, b) ∈ l ↔ (S (p ++ [n])).map Entry.isDir = some b

/-! ### One call -/

/-- a mutating call that either meets its precondition (answer `ok`, new state) or fails cleanly -/
def Mut (pre : Prop) (post : State) (S : State) (r : Result) (S' : State) : Prop :=
  (pre ∧ r = .ok ∧ S' = post) ∨ (¬ pre ∧ r = .err ∧ S' = S)

/-- `Step base S op r S'`: through a view rooted at `base` (a list of real names; `[]` for a root
filespace), call `op` in state `S` answers `r` and leaves `S'`.  Raw paths are normalised by
`norm`; a climbing path makes the call fail (`false` for the three predicates). -/
def Step (base : Path) (S : State) (op : Op) (r : Result) (S' : State) : Prop :=
  match op with
  | .writeFile raw data =>
    match norm raw with
    | none => r = .err ∧ S' = S
    | some p => Mut (writeOk S (base ++ p)) (writeSt S (base ++ p) data) S r S'
  | .writer raw chunks =>
    match norm raw with
    | none => r = .err ∧ S' = S
    | some p => Mut (writeOk S (base ++ p)) (writeSt S (base ++ p) chunks.flatten) S r S'
  | .mkdirAll raw =>
    match norm raw with
    | none => r = .err ∧ S' = S
    | some p => Mut (mkdirOk S (base ++ p)) (mkdirSt S (base ++ p)) S r S'
  | .remove raw =>
    match norm raw with
    | none => r = .err ∧ S' = S
    | some p => Mut (p ≠ [] ∧ removeOk S (base ++ p)) (removeSt S (base ++ p)) S r S'
  | .removeAll raw =>
    match norm raw with
    | none => r = .err ∧ S' = S
    | some p => Mut (p ≠ [] ∧ removeAllOk S (base ++ p)) (removeAllSt S (base ++ p)) S r S'
  | .copy rs rd =>
    match norm rs, norm rd with
    | some s, some d => Mut (copyOk .any S (base ++ s) (base ++ d)) (copySt S (base ++ s) (base ++ d)) S r S'
    | _, _ => r = .err ∧ S' = S
  | .copyDirectory rs rd =>
    match norm rs, norm rd with
    | some s, some d => Mut (copyOk .dirOnly S (base ++ s) (base ++ d)) (copySt S (base ++ s) (base ++ d)) S r S'
    | _, _ => r = .err ∧ S' = S
  | .copyFile rs rd =>
    match norm rs, norm rd with
    | some s, some d => Mut (copyOk .fileOnly S (base ++ s) (base ++ d)) (copySt S (base ++ s) (base ++ d)) S r S'
    | _, _ => r = .err ∧ S' = S
  | .readFile raw =>
    S' = S ∧
    match norm raw with
    | none => r = .err
    | some p =>
      match S (base ++ p) with
      | some (.file d) => r = .data d
      | _ => r = .err
  | .reader raw sizes =>
    S' = S ∧
    match norm raw with
    | none => r = .err
    | some p =>
      match S (base ++ p) with
      | some (.file d) => r = .chunks (readChunks d sizes)
      | _ => r = .err
  | .readDir raw =>
    S' = S ∧
    match norm raw with
    | none => r = .err
    | some p =>
      match S (base ++ p) with
      | some .dir => ∃ l, r = .list l ∧ IsListing S (base ++ p) l
      | _ => r = .err
  | .isExist raw =>
    S' = S ∧
    match norm raw with
    | none => r = .bool false
    | some p => r = .bool (S (base ++ p)).isSome
  | .isFile raw =>
    S' = S ∧
    match norm raw with
    | none => r = .bool false
    | some p =>
      match S (base ++ p) with
      | some (.file _) => r = .bool true
      | _ => r = .bool false
  | .isDir raw =>
    S' = S ∧
    match norm raw with
    | none => r = .bool false
    | some p =>
      match S (base ++ p) with
      | some .dir => r = .bool true
      | _ => r = .bool false
  | .lstat raw =>
    S' = S ∧
    match norm raw with
    | none => r = .err
    | some p =>
      match S (base ++ p) with
      | some (.file d) => r = .stat (statName (base ++ p)) false d.length
      | some .dir => r = .stat (statName (base ++ p)) true 0
      | none => r = .err
  | .filespace raw =>
    S' = S ∧
    match norm raw with
    | none => r = .err
    | some _ => r = .ok

/-! ### Histories: one filespace and the child views opened from it -/

/-- the list of open views (their root paths; handle 0 is the filespace itself, `[]`) after a call
through handle `h`: a successful `Filespace(raw)` through a view rooted at `b` opens `b ++ norm raw` -/
def viewsAfter (views : List Path) (h : Nat) (op : Op) : List Path :=
  match op, views[h]? with
  | .filespace raw, some b =>
    match norm raw with
    | some q => views ++ [b ++ q]
    | none => views
  | _, _ => views

/-- `Run views S ops rs S'`: the history `ops` (each call names the handle it goes through) started in
state `S` with the open views `views` may produce exactly the results `rs` and end in `S'`.  A call
through a handle that was never opened answers `err`. -/
def Run (views : List Path) (S : State) : List (Nat × Op) → List Result → State → Prop
  | [], rs, S' => rs = [] ∧ S' = S
  | (h, op) :: rest, rs, S' =>
    match views[h]? with
    | none => ∃ rs', rs = .err :: rs' ∧ Run views S rest rs' S'
    | some b => ∃ r S1 rs', rs = r :: rs' ∧ Step b S op r S1 ∧ Run (viewsAfter views h op) S1 rest rs' S'

end FS
end Goat
