/-
Tie/C08 — the structural tie of the fsloop model to the source (DESIGN 1.4).

`Goat/Tie/ExtractedC08.lean` is regenerated on every run of `./check C08` by `harness/cmd/loop facts`
(go/ast) from the working tree of the repository under test: for each modelled function the ordered
list of its calls and channel operations, and its control skeleton (the body statement by statement
with the nesting explicit, expressions printed by go/printer; verifhook yield points skipped).  The
theorems below compare them with what `Goat/Model/Loop.lean` assumes; they fail by name when the code
moves.
-/
import Goat.Tie.ExtractedC08

namespace Goat.Tie.C08
open Goat.Tie.ExtractedC08

/-- `Consumer.Loop`: `pool.Done` deferred first; per iteration the kill test, then the step read,
THEN the emptiness test of both queues (the repaired order — `PC.rdStep` before `PC.lenD`), the
yield, and in the else branch `len`, non-blocking receive, callback, `Error` for each channel. -/
theorem tie_consumer_order : consumerLoop =
    ["defer consumer.pool.Done", "consumer.lifecycle.IsKilled", "consumer.lifecycle.Step",
     "len:dirChan", "len:fileChan", "runtime.Gosched",
     "len:dirChan", "recv:dirChan", "consumer.loopData.OnDir", "consumer.lifecycle.Error",
     "len:fileChan", "recv:fileChan", "consumer.loopData.OnFile", "consumer.lifecycle.Error"] := by
  decide

/-- the completion goroutine: `producerPool.Wait → NextStep → close, close` (`CPC`) -/
theorem tie_closer_order : closer =
    ["producerPool.Wait", "loop.lifecycle.NextStep", "close:dirChan", "close:fileChan"] := by
  decide

/-- `Loop.Run`: the first producer is registered (`producerPool.Add`) before it is started, the
consumers are registered (`consumerPool.Add`) before they are started, the closer is started last;
`Loop.Wait` waits for the consumer pool. -/
theorem tie_run_order : loopRun =
    ["jobsync.NewLifecycle", "loop.scope.On", "loop.scope.On", "jobsync.NewPool", "producerPool.Add",
     "panic", "go producer.Loop", "jobsync.NewPool", "loop.consumerPool.Add", "go consumer.Loop",
     "go func"] ∧ loopWait = ["loop.consumerPool.Wait"] := by
  decide

/-- producers: `pool.Done` deferred first in `Producer.Loop`; `processList` filters a directory, then
sends it, then descends (`processDir`), filters a file, then sends it (`processFile`); `processDir`
registers a new producer (`pool.Add`) before starting it; `processFile` is one blocking channel send
and nothing else. -/
theorem tie_producer_order :
    producerLoop = ["defer producer.pool.Done", "producer.loopData.Filespace.ReadDir",
      "producer.lifecycle.Error", "producer.processList"]
    ∧ processList = ["node.Name", "node.Name", "node.Name", "node.IsDir", "producer.loopData.DirFilter",
      "send:dirChan", "producer.processDir", "send:dirChan", "producer.processDir",
      "producer.loopData.FileFilter", "producer.processFile", "producer.lifecycle.IsKilled"]
    ∧ processDir = ["producer.pool.Add", "producer.loopData.Filespace.ReadDir", "producer.lifecycle.Error",
      "producer.processList", "go newProducer.Loop"]
    ∧ processFile = ["send:fileChan"] := by
  decide

/-! ### Control skeletons: where the kill flag is tested, where errors are reported, what `Wait` waits for -/

/-- `Consumer.Loop`, statement by statement (verifhook yield points dropped).  What the model's `PC`
transitions rely on: `lifecycle.IsKilled()` is tested at the top of every iteration and nowhere else
(`PC.top`; in particular not between a receive and its callback, and not after a callback: `PC.inCb`
has no kill test and a running callback's result is always handled); after the step read both queue
lengths are tested; each callback's error is handed to `lifecycle.Error(err)` unconditionally
(`PC.rep`); after `OnDir` the loop body falls through to the `fileChan` test (`afterCb`). -/
theorem tie_consumer_body : consumerBody =
    ["defer consumer.pool.Done()", "for {", "if consumer.lifecycle.IsKilled() {", "return", "}",
     "isClosed := consumer.lifecycle.Step() == StepClose",
     "if len(consumer.loopData.chans.dirChan) == 0 && len(consumer.loopData.chans.fileChan) == 0 {",
     "if isClosed {", "return", "}", "runtime.Gosched()", "} else {",
     "if len(consumer.loopData.chans.dirChan) != 0 {", "select {",
     "case row, more := <-consumer.loopData.chans.dirChan:", "if !more {", "continue", "}",
     "if err := consumer.loopData.OnDir(consumer.loopData.Filespace, row); err != nil {",
     "consumer.lifecycle.Error(err)", "}", "default:", "continue", "}", "}",
     "if len(consumer.loopData.chans.fileChan) != 0 {", "select {",
     "case row, more := <-consumer.loopData.chans.fileChan:", "if !more {", "continue", "}",
     "if err := consumer.loopData.OnFile(consumer.loopData.Filespace, row); err != nil {",
     "consumer.lifecycle.Error(err)", "}", "default:", "continue", "}", "}", "}", "}"] := rfl

/-- The producers, statement by statement.  `Producer.Loop`: a failing `ReadDir` is reported with
`lifecycle.Error(err)` and the goroutine returns (`Prod.rep`, skip 0).  `processList`: the only kill
test is `if producer.lifecycle.IsKilled() { return true }` at the end of an iteration (`PAct.chk`);
the directory branch under a `DirFilter` ends in `continue` (no `chk`), so do "." / "..", a nil `OnFile`
and a rejected file; `processDir` returning true makes `processList` return true.  `processDir`: with no
free slot (`pool.Add(1) == 0`) the directory is listed inline, a failing `ReadDir` is reported with
`lifecycle.Error(err)` and `true` is returned, the nested `processList`'s result is dropped
(`return false`); otherwise a new producer is started.  `processFile` is one blocking send. -/
theorem tie_producer_bodies :
    producerLoopBody =
      ["defer producer.pool.Done()", "readDir, err := producer.loopData.Filespace.ReadDir(producer.path)",
       "if err != nil {", "producer.lifecycle.Error(err)", "return", "}",
       "producer.processList(producer.path, readDir)"]
    ∧ processListBody =
      ["for _, node := range readDir {", "if node.Name() == \".\" || node.Name() == \"..\" {", "continue",
       "}", "nodePath := basePath + node.Name()", "if node.IsDir() {",
       "if producer.loopData.DirFilter != nil {",
       "if producer.loopData.DirFilter(producer.loopData.Filespace, nodePath) {",
       "if producer.loopData.OnDir != nil {", "producer.loopData.chans.dirChan <- nodePath", "}",
       "if isKilled := producer.processDir(nodePath); isKilled {", "return true", "}", "}", "continue",
       "}", "if producer.loopData.OnDir != nil {", "producer.loopData.chans.dirChan <- nodePath", "}",
       "if isKilled := producer.processDir(nodePath); isKilled {", "return true", "}", "} else {",
       "if producer.loopData.OnFile == nil {", "continue", "}",
       "if producer.loopData.FileFilter != nil && !producer.loopData.FileFilter(producer.loopData.Filespace, nodePath) {",
       "continue", "}", "producer.processFile(nodePath)", "}", "if producer.lifecycle.IsKilled() {",
       "return true", "}", "}", "return false"]
    ∧ processDirBody =
      ["jobCounter := producer.pool.Add(1)", "if jobCounter == 0 {",
       "readDir, err := producer.loopData.Filespace.ReadDir(nodePath)", "if err != nil {",
       "producer.lifecycle.Error(err)", "return true", "}", "basePath := nodePath + \"/\"",
       "producer.processList(basePath, readDir)", "return false", "}",
       "newProducer := &Producer{ lifecycle: producer.lifecycle, pool: producer.pool, loopData: producer.loopData, path: nodePath + \"/\", }",
       "go newProducer.Loop()", "return false"]
    ∧ processFileBody = ["producer.loopData.chans.fileChan <- nodePath"] :=
  ⟨rfl, rfl, rfl, rfl⟩

/-- `Loop.Wait` waits for the consumer pool and for nothing else (`waitEnabled`); `Loop.Errors` is the
lifecycle's `Errors()` (`errorsOf`); `Loop.KillSlot` is `lifecycle.Kill()`, and `Loop.Run` connects it
to the scope's Error and Kill events (`Label.errEvent`, `Label.kill`); the lifecycle is strict and
its lifetime is the constant `workers.DefaultTimeout` (`Label.timeout`). -/
theorem tie_wait_errors_killslot :
    waitBody = ["loop.consumerPool.Wait()"]
    ∧ errorsBody = ["return loop.lifecycle.Errors()"]
    ∧ killSlotBody = ["loop.lifecycle.Kill()", "return nil"]
    ∧ runLifecycle =
      ["jobsync.NewLifecycle(workers.DefaultTimeout, true)",
       "loop.scope.On(app.ErrorEvent, loop.KillSlot)", "loop.scope.On(app.KillEvent, loop.KillSlot)"] :=
  ⟨rfl, rfl, rfl, rfl⟩

/-- `jobsync.Lifecycle`: `Error` appends under the mutex and then (strict mode) kills; `Kill` is the
context's cancel function; `IsKilled` is a non-blocking receive from `ctx.Done()`; `Errors` copies
the list under the mutex and appends `ctx.Err()`; the context is created with a deadline
(`context.WithDeadline`) `lifetime` after `NewLifecycle`.  The constants: channel capacity 1000
(`Params.capD`, `capF`), the close step, the two-minute lifetime. -/
theorem tie_lifecycle :
    lcError =
      ["lifecycle.mutex.Lock()", "lifecycle.errors = append(lifecycle.errors, e...)",
       "if lifecycle.strictMode {", "lifecycle.Kill()", "}", "lifecycle.mutex.Unlock()"]
    ∧ lcKill = ["lifecycle.cancel()"]
    ∧ lcIsKilled =
      ["select {", "case <-lifecycle.ctx.Done():", "return true", "default:", "}", "return false"]
    ∧ lcErrors =
      ["lifecycle.mutex.Lock()", "errs := make([]error, len(lifecycle.errors))",
       "copy(errs, lifecycle.errors)", "lifecycle.mutex.Unlock()",
       "return goaterr.AppendError(errs, lifecycle.ctx.Err())"]
    ∧ lcNew =
      ["deadline := time.Now().Add(lifetime)",
       "lifecycle = &Lifecycle{ strictMode: strictMode, errors: []error{}, }",
       "lifecycle.ctx, lifecycle.cancel = context.WithDeadline(context.Background(), deadline)",
       "return lifecycle"]
    ∧ consts = ["ChanSize=1000", "StepClose=999", "DefaultTimeout=2 * time.Minute"] :=
  ⟨rfl, rfl, rfl, rfl, rfl, rfl⟩

end Goat.Tie.C08
