/-
Tie/C08 — the structural tie of the fsloop model to the source (DESIGN 1.4).

`Goat/Tie/ExtractedC08.lean` is regenerated on every run of `./check C08` by `harness/cmd/loop facts`
(go/ast) from the working tree of the repository under test: for each modelled function the ordered
list of its calls and channel operations (verifhook yield points skipped).  The theorems below
compare them with what `Goat/Model/Loop.lean` assumes; they fail by name when the code moves.
-/
import Goat.Tie.ExtractedC08

namespace Goat.Tie.C08
open Goat.Tie.ExtractedC08

/-- `Consumer.Loop`: `pool.Done` deferred first; per iteration the kill test, then the step read,
THEN the emptiness test of both queues (the repaired order — `PC.rdStep` before `PC.lenD`), the
yield, and in the else branch `len`, non-blocking receive, callback, `Error` for each channel. -/
theorem tie_consumer_order : consumerLoop =
    ["defer consumer.pool.Done", "consumer.lifecycle.IsKilled", "consumer.lifecycle.Step",
     "len:dirChan", "len:fileChan", "runtime.Gosched",
     "len:dirChan", "recv:dirChan", "consumer.loopData.OnDir", "consumer.lifecycle.Error",
     "len:fileChan", "recv:fileChan", "consumer.loopData.OnFile", "consumer.lifecycle.Error"] := by
  decide

/-- the completion goroutine: `producerPool.Wait → NextStep → close, close` (`CPC`) -/
theorem tie_closer_order : closer =
    ["producerPool.Wait", "loop.lifecycle.NextStep", "close:dirChan", "close:fileChan"] := by
  decide

/-- `Loop.Run`: the first producer is registered (`producerPool.Add`) before it is started, the
consumers are registered (`consumerPool.Add`) before they are started, the closer is started last;
`Loop.Wait` waits for the consumer pool. -/
theorem tie_run_order : loopRun =
    ["jobsync.NewLifecycle", "loop.scope.On", "loop.scope.On", "jobsync.NewPool", "producerPool.Add",
     "panic", "go producer.Loop", "jobsync.NewPool", "loop.consumerPool.Add", "go consumer.Loop",
     "go func"] ∧ loopWait = ["loop.consumerPool.Wait"] := by
  decide

/-- producers: `pool.Done` deferred first in `Producer.Loop`; `processList` filters a directory, then
sends it, then descends (`processDir`), filters a file, then sends it (`processFile`); `processDir`
registers a new producer (`pool.Add`) before starting it; `processFile` is one blocking channel send
and nothing else. -/
theorem tie_producer_order :
    producerLoop = ["defer producer.pool.Done", "producer.loopData.Filespace.ReadDir",
      "producer.lifecycle.Error", "producer.processList"]
    ∧ processList = ["node.Name", "node.Name", "node.Name", "node.IsDir", "producer.loopData.DirFilter",
      "send:dirChan", "producer.processDir", "send:dirChan", "producer.processDir",
      "producer.loopData.FileFilter", "producer.processFile", "producer.lifecycle.IsKilled"]
    ∧ processDir = ["producer.pool.Add", "producer.loopData.Filespace.ReadDir", "producer.lifecycle.Error",
      "producer.processList", "go newProducer.Loop"]
    ∧ processFile = ["send:fileChan"] := by
  decide

end Goat.Tie.C08
