/-
Tie/C09 — the structural tie of the lock-granular memfs model to the source (DESIGN 1.4).

`Goat/Tie/ExtractedC09.lean` is regenerated on every run of `./check C09` by
`harness/cmd/memfsconc leanfacts <repo>` (go/ast, `skeleton.go`) from the working tree of the repository
under test: for every function of package memfs its synchronisation skeleton — lock operations, accesses
to the guarded fields `nodes`/`index`/`data`/`time`, calls of memfs functions, yield points, each marked
`held(…)` when it sits where the function holds a lock, with the control flow inside held regions.
Receiver and variable names, comments and formatting are not part of it.

`Goat/Model/MemFSConcActs.lean` holds what the model assumes: the table `Act` constructor ↦ critical
section(s) of the Go code with their expected skeletons, and the decomposition of the composite
operations into program counters.  The theorems below compare the two by `decide`; they fail BY NAME
when a critical section is narrowed, dropped, reordered, or a lock is held across a call the model says
is outside.  Syntactic check, trusted as such; the gated replays of the check are the semantic tie.
-/
import Goat.Tie.ExtractedC09
import Goat.Model.MemFSConcActs

namespace Goat.Tie.C09
open Goat.MemFSConc.Acts

/-! ### The table itself -/

/-- every piece the table names is a contiguous part of the expected skeleton of its function -/
theorem table_sections_wellformed : allCS.all (fun c => isInfix c.items c.whole) = true := by decide

/-- every `Act` constructor except the thread-local `tau` has at least one row -/
theorem table_total : allKinds.all (fun k => k == Kind.tau || !(table k).isEmpty) = true := by decide

/-- every lock-taking function of the package has a row that names a lock -/
theorem table_covers_lock_takers :
    lockTakers.all (fun n => allCS.any (fun c => c.fn == n && c.lock != "")) = true := by decide

/-! ### Package-wide facts -/

/-- the functions of memfs that contain a `Lock/RLock/Unlock/RUnlock` are exactly the ones the table
knows: a new lock-taking function (or a lock dropped from one) breaks this -/
theorem tie_lock_takers : ExtractedC09.lockTakers = lockTakers := by decide

/-- the functions from which a lock or a yield point is reachable are the operations the model
decomposes, their helpers and the forwarding sub-path view: a new operation breaks this -/
theorem tie_lock_reachers : ExtractedC09.lockReachers = lockReachers := by decide

/-- THE LOCK GRAPH.  The only things done while a memfs function holds a lock are `getNode`, `addNode`
and the creation yield point under the directory's embedded lock in `WriteFile`/`Writer`.  In particular
no wait for a file's `dataMU` (`setData`, `getData`, `NewFileHandler`, `copyFile`) and no recursive copy
happens under any lock: the model's `Variant.fixed`. -/
theorem tie_lock_graph : ExtractedC09.nestedLocks = nestedLocks := by decide

/-- every access to `nodes`/`index`/`data`/`time` outside a region where the accessing function holds
a lock is one of the listed exemptions (handle-held, fresh object, immutable, or the unsynchronised
metadata getters that the check states as outside the model): a narrowed critical section or a new
unguarded access breaks this -/
theorem tie_unheld_accesses : ExtractedC09.unheldAccesses = unheldAccesses := by decide

/-! ### One theorem per critical section, by the name of the Go function -/

/-- `Act.lookup` -/
theorem tie_Dir_getNode : ExtractedC09.Dir_getNode = Expected.Dir_getNode := by decide
/-- `Act.lookup` (with the kind test) -/
theorem tie_Dir_getDir : ExtractedC09.Dir_getDir = Expected.Dir_getDir := by decide
/-- `Act.lookup` (unused helper of the same shape) -/
theorem tie_Dir_contains : ExtractedC09.Dir_contains = Expected.Dir_contains := by decide
/-- `Act.snapshot`: the listing is copied under `mu.RLock`, nothing aliases `nodes` -/
theorem tie_Dir_getNodes : ExtractedC09.Dir_getNodes = Expected.Dir_getNodes := by decide
/-- `Act.readLen`: `len(nodes)` under `mu.RLock` -/
theorem tie_Dir_Size : ExtractedC09.Dir_Size = Expected.Dir_Size := by decide
/-- `Act.addNode` / the second half of `Act.addNewFile`: look-up, early return, append, index store,
all under `mu.Lock` -/
theorem tie_Dir_addNode : ExtractedC09.Dir_addNode = Expected.Dir_addNode := by decide
/-- `Pc.mk` → yield point → `Act.mkdirLocked`: the optimistic `getDir`, `memfs.mkdir.gap`, then under
`mu.Lock` the RE-CHECK of the index with its early returns before `NewDir`/append/index store
(`create_once` rests on the re-check being inside the lock) -/
theorem tie_Dir_mkdir : ExtractedC09.Dir_mkdir = Expected.Dir_mkdir := by decide
/-- `Act.removeNode` -/
theorem tie_Dir_removeNodeByName : ExtractedC09.Dir_removeNodeByName = Expected.Dir_removeNodeByName := by decide
/-- `Act.getData`: the value is copied under `dataMU.RLock` -/
theorem tie_File_getData : ExtractedC09.File_getData = Expected.File_getData := by decide
/-- `Act.setData`: a fresh slice filled under `dataMU.Lock` -/
theorem tie_File_setData : ExtractedC09.File_setData = Expected.File_setData := by decide
/-- `Act.copyFile`: yield point, then the value copied under `dataMU.RLock` -/
theorem tie_copyFile : ExtractedC09.copyFile = Expected.copyFile := by decide
/-- `Act.openH`: `dataMU.Lock` without unlock -/
theorem tie_NewFileHandler : ExtractedC09.NewFileHandler = Expected.NewFileHandler := by decide
/-- `Act.closeH`: the matching unlock -/
theorem tie_FileHandler_Close : ExtractedC09.FileHandler_Close = Expected.FileHandler_Close := by decide
/-- `Act.hwrite`: no lock operation (runs under the handle's lock) -/
theorem tie_FileHandler_Write : ExtractedC09.FileHandler_Write = Expected.FileHandler_Write := by decide
/-- `Act.hread` -/
theorem tie_FileHandler_Read : ExtractedC09.FileHandler_Read = Expected.FileHandler_Read := by decide
/-- `Act.newDir` (`newDirObj`): the index is built from the node list on a fresh object -/
theorem tie_NewDir : ExtractedC09.NewDir = Expected.NewDir := by decide
/-- the allocation of `Act.addNewFile` / `Act.copyFile` -/
theorem tie_NewFile : ExtractedC09.NewFile = Expected.NewFile := by decide

/-! ### The composite operations: lock order and decomposition -/

/-- `Filespace.WriteFile`, whole skeleton: check-then-create under the embedded directory lock
(`Act.outerLock` … `Act.outerUnlock`), `Unlock()` on both paths, `setData` after the last `Unlock()`
with no `held` mark.  `setData` moved in front of `dir.Unlock()` (the pre-c2706af order,
`Variant.writeFileUnderDir`) breaks this. -/
theorem tie_Filespace_WriteFile : ExtractedC09.Filespace_WriteFile = Expected.Filespace_WriteFile := by decide

/-- `Filespace.Writer`, whole skeleton: the same bracket, three `Unlock()`s, then the yield point,
`NewFileHandler` (`Act.openH`) and the truncation right after it, outside the directory lock
(not `Variant.writerUnderDir`) -/
theorem tie_Filespace_Writer : ExtractedC09.Filespace_Writer = Expected.Filespace_Writer := by decide

/-- the `Pc` order of `WriteFile`: the wait for the file's data lock (`Pc.wSet`) comes after the
directory unlock (`Pc.wUnlockSet`) -/
theorem tie_writeFile_data_lock_after_dir_unlock :
    ExtractedC09.Filespace_WriteFile_order = flatten writeFilePcs := by decide

/-- the `Pc` order of `Writer`: the wait for the file's data lock (`Pc.oOpen`) comes after the
directory unlock (`Pc.oUnlockOpen`) -/
theorem tie_writer_data_lock_after_dir_unlock :
    ExtractedC09.Filespace_Writer_order = flatten writerPcs := by decide

/-- `copyDir` takes no lock itself and holds none while it copies children: the listing is the
snapshot `getNodes` (whose `RLock` is released by its own deferred unlock, `tie_Dir_getNodes`); then
the recursion, `copyFile`, `NewDir` (not `Variant.copyDirHoldsMu`) -/
theorem tie_copyDir_holds_no_dir_lock :
    ExtractedC09.copyDir = Expected.copyDir ∧ ExtractedC09.copyDir_order = flatten copyDirPcs := by decide

/-- `mkdir` as `Pc.mk`, yield point, `Pc.mkLocked`; `mkdirAllNodes`/`mkdirAll` loop over it -/
theorem tie_mkdirAll_decomposition :
    ExtractedC09.Dir_mkdir_order = flatten mkdirPcs ∧ ExtractedC09.mkdirAllNodes = Expected.mkdirAllNodes
      ∧ ExtractedC09.mkdirAll = Expected.mkdirAll ∧ ExtractedC09.Filespace_MkdirAll = Expected.Filespace_MkdirAll := by
  decide

/-- the path walk (`Pc.walk`): one `getNode` per segment, nothing held between segments -/
theorem tie_walk_decomposition :
    ExtractedC09.getNodeByPathNodes = flatten walkPcs
      ∧ ExtractedC09.getNodeByPath = Expected.getNodeByPath
      ∧ ExtractedC09.getDirByPathNodes = Expected.getDirByPathNodes
      ∧ ExtractedC09.getDirByPath = Expected.getDirByPath
      ∧ ExtractedC09.getFileByPathNodes = Expected.getFileByPathNodes
      ∧ ExtractedC09.getFileByPath = Expected.getFileByPath := by decide

/-- `Remove`/`RemoveAll` (`Pc.rmLook`, `rmLen`, `rmDo`): look-up, `Size()` of the child, removal — three
separate critical sections, nothing held in between -/
theorem tie_remove_decomposition :
    ExtractedC09.removeNodeByNodePath = flatten removePcs
      ∧ ExtractedC09.removeNodeByNodePath = Expected.removeNodeByNodePath
      ∧ ExtractedC09.removeNodeByPath = Expected.removeNodeByPath
      ∧ ExtractedC09.Filespace_Remove = Expected.Filespace_Remove
      ∧ ExtractedC09.Filespace_RemoveAll = Expected.Filespace_RemoveAll := by decide

/-- `Copy`/`CopyFile`/`CopyDirectory` (`Pc.walk`, `mk…`, `cFile`/`cEnter`/`cDir`, `cAdd`): the copy is
finished before `addNode` publishes it -/
theorem tie_copy_decomposition :
    ExtractedC09.Filespace_Copy = flatten copyPcs
      ∧ ExtractedC09.Filespace_CopyFile = Expected.Filespace_CopyFile
      ∧ ExtractedC09.Filespace_CopyDirectory = Expected.Filespace_CopyDirectory
      ∧ ExtractedC09.copyNode = Expected.copyNode := by decide

/-- the reads: walk, then one critical section (`Pc.rData`, `rList`, `rOpen`; the probes are walks) -/
theorem tie_read_decomposition :
    ExtractedC09.Filespace_ReadFile = Expected.Filespace_ReadFile
      ∧ ExtractedC09.Filespace_ReadDir = Expected.Filespace_ReadDir
      ∧ ExtractedC09.Filespace_Reader = Expected.Filespace_Reader
      ∧ ExtractedC09.Filespace_IsExist = Expected.Filespace_IsExist
      ∧ ExtractedC09.Filespace_IsFile = Expected.Filespace_IsFile
      ∧ ExtractedC09.Filespace_IsDir = Expected.Filespace_IsDir
      ∧ ExtractedC09.Filespace_Lstat = Expected.Filespace_Lstat := by decide

/-- the unsynchronised metadata getters are what the exemption list of `tie_unheld_accesses` says -/
theorem tie_metadata_getters :
    ExtractedC09.File_Size = Expected.File_Size ∧ ExtractedC09.File_ModTime = Expected.File_ModTime
      ∧ ExtractedC09.Dir_ModTime = Expected.Dir_ModTime := by decide

end Goat.Tie.C09
