/-
Tie/C12 — the structural tie of the scope-signalling model to the source (DESIGN 1.4).

`Goat/Tie/ExtractedC12.lean` is regenerated on every run of `./check C12` by `harness/cmd/scopesig facts`
(go/ast) from the working tree of the repository under test: for every modelled function the ordered
list of its synchronisation-relevant actions (lock/unlock of errorsMU, reads and writes of the error
list, `Once.Do{ … }`, close/receive of the done channel, wait-group operations, calls to the other
modelled methods; verifhook yield points skipped).  The theorems compare them with what
`Goat/Model/ScopeSignal.lean` assumes under `Variant.fixed`; they fail by name when the code moves.
-/
import Goat.Tie.ExtractedC12

namespace Goat.Tie.C12
open Goat.Tie.ExtractedC12

/-- `Stop` is `doneOnce.Do(func() { close(done) })` in both context types (`Variant.onceStop`;
`PC.stopEnter`, `PC.stopClose`), and no other function closes a channel. -/
theorem tie_stop_once :
    plainStop = ["Once.Do:doneOnce{", "close:done", "}"] ∧ isolatedStop = ["Once.Do:doneOnce{", "close:done", "}"] ∧
    plainClosers = ["Stop"] ∧ isolatedClosers = ["Stop"] := by decide

/-- `AppendError` reads and extends the slice between `errorsMU.Lock` and `Unlock`, then calls `Stop`
(`Variant.lockAppend`; `PC.appLock`, `appRead`, `appWrite`, `stopEnter`); nothing else assigns the list. -/
theorem tie_append_locked :
    plainAppendError = ["Lock:errorsMU", "read:errors", "write:errors", "Unlock:errorsMU", "call:s.Stop"] ∧
    isolatedAppendError = ["Lock:errorsMU", "read:errors", "write:errors", "Unlock:errorsMU", "call:scp.Stop"] ∧
    plainErrorWriters = ["AppendError"] ∧ isolatedErrorWriters = ["AppendError"] := by decide

/-- The publication order (`ScopePublish.Order.recordThenClose`; in `ScopeSignal`: `PC.appWrite` before
`PC.stopEnter`): in `AppendError` of both context types the error list is written and `errorsMU` released
before the one call of `Stop`, and `AppendError` does nothing to the done channel on its own.  Stated on
positions so that it names exactly this decision (`tie_append_locked` pins the whole action list). -/
theorem tie_record_then_close :
    plainAppendError.idxOf "write:errors" < plainAppendError.idxOf "Unlock:errorsMU" ∧
    plainAppendError.idxOf "Unlock:errorsMU" < plainAppendError.idxOf "call:s.Stop" ∧
    plainAppendError.count "call:s.Stop" = 1 ∧ plainAppendError.count "write:errors" = 1 ∧
    plainAppendError.count "close:done" = 0 ∧
    isolatedAppendError.idxOf "write:errors" < isolatedAppendError.idxOf "Unlock:errorsMU" ∧
    isolatedAppendError.idxOf "Unlock:errorsMU" < isolatedAppendError.idxOf "call:scp.Stop" ∧
    isolatedAppendError.count "call:scp.Stop" = 1 ∧ isolatedAppendError.count "write:errors" = 1 ∧
    isolatedAppendError.count "close:done" = 0 := by decide

/-- the accessors read the list holding `errorsMU` (`Variant.lockRead`; `PC.errLock`, `errRead`), `Err`
goes through `Errors`, `Kill` is `AppendError(context.Canceled)`, `IsDone` is a receive on `done`. -/
theorem tie_accessors_locked :
    plainErrors = ["Lock:errorsMU", "defer Unlock:errorsMU", "read:errors", "read:errors", "read:errors"] ∧
    isolatedErrors = ["Lock:errorsMU", "defer Unlock:errorsMU", "read:errors", "read:errors", "read:errors"] ∧
    plainErr = ["call:s.Errors"] ∧ isolatedErr = ["call:scp.Errors"] ∧
    plainKill = ["call:s.AppendError"] ∧ isolatedKill = ["call:scp.AppendError"] ∧
    plainIsDone = ["recv:done"] ∧ isolatedIsDone = ["recv:done"] ∧ plainDone = [] ∧ isolatedDone = [] := by decide

/-- the propagation goroutine: a `select` on the parent's `Done()` and the own `done`; on the parent's
end `parent.Errors()`, then `isolated.Kill()` or `isolated.Stop()` — on the isolated context, never on the
parent (`Variant.propParent = false`; `PC.propWait`, `PC.propCheck`). -/
theorem tie_propagation :
    newIsolated = ["go{", "recv:Done()", "call:parent.Errors", "call:isolated.Kill", "call:isolated.Stop",
                   "recv:done", "}"] := by decide

/-- `AddTasks` tests `IsDone` and then adds; `DoneTask` is `wg.Done`; `Close` signs off with
`parent.DoneTask`; `NewChild` looks at the answer of `AddTasks` and builds the child with `parent: nil`
on the refused path (`Variant.childChecks`; `PC.ncCheck`, `ncAdd`, `ncMk`, `closing`). -/
theorem tie_child_registration :
    scopeAddTasks = ["call:scp.IsDone", "wg.Add"] ∧ scopeDoneTask = ["wg.Done"] ∧
    scopeClose = ["call:parent.DoneTask"] ∧ scopeWait = ["wg.Wait"] ∧
    newChildChecksAddTasks = true ∧ newChildParentFields = ["nil", "parent"] := by decide

end Goat.Tie.C12
