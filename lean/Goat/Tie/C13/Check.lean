/-
Tie/C13/Check — the structural tie of C13: the synchronisation skeleton extracted from the current
working tree equals what the model assumes.  A moved or dropped lock breaks a theorem here by name.
-/
import Goat.Tie.C13.Expected
import Goat.Tie.C13.Extracted
import Goat.Tie.C13.Idiom
namespace Goat.Tie.C13
open Goat.Tie.C13 Goat.DataScope

theorem tie_DataScope_SetValue : Extracted.DataScope_SetValue = Expected.setValue := by decide
theorem tie_DataScope_Value : Extracted.DataScope_Value = Expected.rootValue := by decide
theorem tie_DataScope_Keys : Extracted.DataScope_Keys = Expected.keys := by decide
theorem tie_DataScope_LockData : Extracted.DataScope_LockData = Expected.rootLockData := by decide
theorem tie_DataChildScope_SetValue : Extracted.DataChildScope_SetValue = Expected.setValue := by decide
theorem tie_DataChildScope_Value : Extracted.DataChildScope_Value = Expected.childValue := by decide
theorem tie_DataChildScope_Keys : Extracted.DataChildScope_Keys = Expected.keys := by decide
theorem tie_DataChildScope_LockData : Extracted.DataChildScope_LockData = Expected.childLockData := by decide
theorem tie_DataLocker_SetValue : Extracted.DataLocker_SetValue = Expected.setValue := by decide
theorem tie_DataLocker_Value : Extracted.DataLocker_Value = Expected.lockerValue := by decide
theorem tie_DataLocker_Keys : Extracted.DataLocker_Keys = Expected.lockerKeys := by decide
theorem tie_DataLocker_LockData : Extracted.DataLocker_LockData = Expected.childLockData := by decide
theorem tie_DataLocker_Commit : Extracted.DataLocker_Commit = Expected.lockerCommit := by decide

/-- the expectations themselves say "every map access is bracketed by the mutex" (reads under at
least the read lock, writes under the write lock), and `LockData` leaves the write lock taken -/
theorem tie_expected_bracketed :
    bracketed Expected.setValue = true ∧ bracketed Expected.keys = true ∧
    bracketed Expected.rootValue = true ∧ bracketed Expected.childValue = true ∧
    bracketed Expected.lockerValue = true ∧ bracketed Expected.lockerKeys = true ∧
    bracketed Expected.rootLockData = true ∧ bracketed Expected.childLockData = true ∧
    Expected.rootLockData.contains .unlock = false ∧ Expected.childLockData.contains .unlock = false := by
  decide

/-! ### The services follow the get-or-create idiom

`Goat.C13.get_or_create_once_services` is about goroutines running the programs `runSkeleton` reads
from skeletons; the theorems below say that the skeleton of each function of the repository that takes
a data locker IS one of the idiom's spellings (read of the key under the lock, test of that read, the
created instance stored under the same key and returned, the lock released exactly once on every path,
no use of the scope itself), and that there is no other such function. -/

theorem tie_tasks_Unit_FromScope_get_or_create :
    Extracted.tasks_Unit_FromScope = Expected.getOrCreateDeferred := by decide
theorem tie_envs_Unit_Envs_get_or_create :
    Extracted.envs_Unit_Envs = Expected.getOrCreateRetCommit := by decide
theorem tie_waits_WaitManager_ForScope_get_or_create :
    Extracted.waits_WaitManager_ForScope = Expected.getOrCreateCommit := by decide

/-- exactly these functions mention `LockData` outside package datascope -/
theorem tie_idiom_users : Extracted.idiomUsers = Expected.idiomUsers := by decide

/-- exactly these functions write a service key with a plain `SetValue` (the traffic `get_or_create_once`
excludes by hypothesis) -/
theorem tie_key_plain_writers : Extracted.keyPlainWriters = Expected.keyPlainWriters := by decide

/-- each admissible spelling denotes the program of `get_or_create_once`, on any scope and key -/
theorem tie_idiom_shapes_run (s : Nat) (c : Key) :
    ∀ sk ∈ Expected.idiomShapes, runSkeleton s c sk = some (getOrCreate s c) := by
  intro sk h
  simp only [Expected.idiomShapes, List.mem_cons, List.not_mem_nil, or_false] at h
  rcases h with rfl | rfl | rfl <;> rfl

/-- and so do the skeletons of the three services as extracted (directly, without going through
`Expected`): the hypothesis of `get_or_create_once_services` for the code in the repository -/
theorem tie_services_run (s : Nat) (c : Key) :
    ∀ sk ∈ [Extracted.tasks_Unit_FromScope, Extracted.envs_Unit_Envs, Extracted.waits_WaitManager_ForScope],
      runSkeleton s c sk = some (getOrCreate s c) := by
  intro sk h
  simp only [List.mem_cons, List.not_mem_nil, or_false] at h
  rcases h with rfl | rfl | rfl <;> rfl

/-- what the interpreter refuses (each is a way to break `get_or_create_once`): a read of the key on the
scope itself before the lock with no second read under it; no release on a path; a second release; a
different key stored; an instance returned that is not the one stored -/
theorem tie_idiom_refused (s : Nat) (c : Key) :
    runSkeleton s c [.unlockedValue 0 0, .ifNotNil 0, .ret [.assertOf 0, .nil], .fi, .lock, .deferCommit,
      .create 1, .setValue 0 1, .ret [.var 1, .nil]] = none ∧
    runSkeleton s c [.lock, .value 0 0, .ifNotNil 0, .ret [.assertOf 0, .nil], .fi, .create 1, .setValue 0 1,
      .ret [.var 1, .nil]] = none ∧
    runSkeleton s c [.lock, .deferCommit, .value 0 0, .ifNil 0, .create 1, .setValue 0 1, .else_, .assert 1 0, .fi,
      .commit, .ret [.var 1, .nil]] = none ∧
    runSkeleton s c [.lock, .value 0 0, .ifNil 0, .create 1, .setValue 1 1, .else_, .assert 1 0, .fi,
      .commit, .ret [.var 1, .nil]] = none ∧
    runSkeleton s c [.lock, .value 0 0, .ifNil 0, .create 1, .setValue 0 1, .else_, .assert 1 0, .fi,
      .commit, .ret [.var 2, .nil]] = none :=
  ⟨rfl, rfl, rfl, rfl, rfl⟩

end Goat.Tie.C13
