/-
Tie/C13/Check — the structural tie of C13: the synchronisation skeleton extracted from the current
working tree equals what the model assumes.  A moved or dropped lock breaks a theorem here by name.
-/
import Goat.Tie.C13.Expected
import Goat.Tie.C13.Extracted
namespace Goat.Tie.C13
open Goat.Tie.C13

theorem tie_DataScope_SetValue : Extracted.DataScope_SetValue = Expected.setValue := by decide
theorem tie_DataScope_Value : Extracted.DataScope_Value = Expected.rootValue := by decide
theorem tie_DataScope_Keys : Extracted.DataScope_Keys = Expected.keys := by decide
theorem tie_DataScope_LockData : Extracted.DataScope_LockData = Expected.rootLockData := by decide
theorem tie_DataChildScope_SetValue : Extracted.DataChildScope_SetValue = Expected.setValue := by decide
theorem tie_DataChildScope_Value : Extracted.DataChildScope_Value = Expected.childValue := by decide
theorem tie_DataChildScope_Keys : Extracted.DataChildScope_Keys = Expected.keys := by decide
theorem tie_DataChildScope_LockData : Extracted.DataChildScope_LockData = Expected.childLockData := by decide
theorem tie_DataLocker_SetValue : Extracted.DataLocker_SetValue = Expected.setValue := by decide
theorem tie_DataLocker_Value : Extracted.DataLocker_Value = Expected.lockerValue := by decide
theorem tie_DataLocker_Keys : Extracted.DataLocker_Keys = Expected.lockerKeys := by decide
theorem tie_DataLocker_LockData : Extracted.DataLocker_LockData = Expected.childLockData := by decide
theorem tie_DataLocker_Commit : Extracted.DataLocker_Commit = Expected.lockerCommit := by decide

/-- the expectations themselves say "every map access is bracketed by the mutex" (reads under at
least the read lock, writes under the write lock), and `LockData` leaves the write lock taken -/
theorem tie_expected_bracketed :
    bracketed Expected.setValue = true ∧ bracketed Expected.keys = true ∧
    bracketed Expected.rootValue = true ∧ bracketed Expected.childValue = true ∧
    bracketed Expected.lockerValue = true ∧ bracketed Expected.lockerKeys = true ∧
    bracketed Expected.rootLockData = true ∧ bracketed Expected.childLockData = true ∧
    Expected.rootLockData.contains .unlock = false ∧ Expected.childLockData.contains .unlock = false := by
  decide

end Goat.Tie.C13
