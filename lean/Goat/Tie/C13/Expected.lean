/-
Tie/C13/Expected — what `Goat/Model/DataScope.lean` assumes about where the Go code takes its locks
(hand-written; compared with the extracted skeleton in `Check.lean`).

Model action                         Go skeleton it stands for
  `.set s`   guarded by `isFree s`     SetValue = lock · write · unlock
  one `walk` level guarded by isFree   Value    = rlock · read · runlock, then (child only) parent.Value
                                                  OUTSIDE the critical section
  `.keys s`                            Keys     = rlock · len · range · runlock   (own map only)
  `.lock s` sets `held`                LockData = lock · newDataLocker(map, mu.Unlock, parent): the
                                                  write lock is NOT released before the method returns;
                                                  it is the locker's commit callback
  locker ops                           bracketed by the locker's own mutex; Value falls back to
                                                  parent.Value after runlock
  `.commit`                            Commit   = unlockCB · data = nil
-/
import Goat.Tie.C13.Tok
namespace Goat.Tie.C13.Expected
open Goat.Tie.C13

def setValue : List Tok := [.lock, .write, .unlock]
def keys : List Tok := [.rlock, .len, .range, .runlock, .ret]
def rootValue : List Tok := [.rlock, .read, .runlock, .ret]
def childValue : List Tok := [.rlock, .read, .if_, .runlock, .ret, .fi, .runlock, .parentValue, .ret]
def rootLockData : List Tok := [.lock, .newLockerRoot, .ret]
def childLockData : List Tok := [.lock, .newLockerChild, .ret]
def lockerValue : List Tok := [.rlock, .read, .runlock, .if_, .ret, .fi, .if_, .parentValue, .ret, .fi, .ret]
def lockerKeys : List Tok := [.rlock, .deferRUnlock, .len, .range, .ret]
def lockerCommit : List Tok := [.unlockCB, .dataNil, .ret]

/-! ### The get-or-create idiom (`get_or_create_once`, `get_or_create_once_services`)

`Goat.DataScope.getOrCreate s c = [.lock s, .lget c, .lcreate c, .commit]` stands for

    l := scp.LockData(); v := l.Value(key); if v == nil { v = create(); l.SetValue(key, v) }; l.Commit(); return v

What the theorem's proof needs of a caller: the read of the key happens UNDER the lock, the test is on
that read, the instance created is the one stored under the same key and the one returned, the lock is
released exactly once on every path, and the scope itself (`scp.Value/SetValue/Keys`) is not used by the
function.  The three forms below are the admissible spellings found in /repo (no service has an error
path between `LockData` and `Commit`: none of the three constructors can fail).  Keys and variables
are numbered by first appearance (see `Tok.lean`). -/

/-- `tasks.Unit.FromScope`: `defer l.Commit()`, early return of the instance found -/
def getOrCreateDeferred : List ITok :=
  [.lock, .deferCommit, .value 0 0, .ifNotNil 0, .ret [.assertOf 0, .nil], .fi,
   .create 1, .setValue 0 1, .ret [.var 1, .nil]]

/-- `waits.WaitManager.ForScope`: create under `if v == nil`, typed copy in the `else`, `Commit`, `return` -/
def getOrCreateCommit : List ITok :=
  [.lock, .value 0 0, .ifNil 0, .create 1, .setValue 0 1, .else_, .assert 1 0, .fi, .commit, .ret [.var 1, .nil]]

/-- `envs.Unit.Envs`: the same with `return v, l.Commit()` -/
def getOrCreateRetCommit : List ITok :=
  [.lock, .value 0 0, .ifNil 0, .create 1, .setValue 0 1, .else_, .assert 1 0, .fi, .ret [.var 1, .commit]]

def idiomShapes : List (List ITok) := [getOrCreateDeferred, getOrCreateCommit, getOrCreateRetCommit]

/-- exactly these functions of the repository (outside package `datascope` and tests) mention `LockData`
(`<directory>.<receiver>.<function>`); a new user has to be looked at -/
def idiomUsers : List String :=
  ["app/modules/commonm/commservices/envs.Unit.Envs",
   "app/modules/commonm/commservices/waits.WaitManager.ForScope",
   "app/modules/pipelinem/pipservices/tasks.Unit.FromScope"]

/-- `get_or_create_once` assumes that nobody writes the service's key with a plain `SetValue` while
callers run (`isKeyNoise`).  These are all the functions, in the packages of the three services, that
write a service key without a locker: `BindScope` and `Clear` are the explicit "replace / forget the
manager" operations of the tasks unit, `TaskManager.Create` stores the manager in a child scope it has
just created.  They are outside the theorem (its hypothesis `hn`); a new one has to be looked at. -/
def keyPlainWriters : List String :=
  ["app/modules/pipelinem/pipservices/tasks.TaskManager.Create",
   "app/modules/pipelinem/pipservices/tasks.Unit.BindScope",
   "app/modules/pipelinem/pipservices/tasks.Unit.Clear"]

end Goat.Tie.C13.Expected
