/-
Tie/C13/Expected — what `Goat/Model/DataScope.lean` assumes about where the Go code takes its locks
(hand-written; compared with the extracted skeleton in `Check.lean`).

Model action                         Go skeleton it stands for
  `.set s`   guarded by `isFree s`     SetValue = lock · write · unlock
  one `walk` level guarded by isFree   Value    = rlock · read · runlock, then (child only) parent.Value
                                                  OUTSIDE the critical section
  `.keys s`                            Keys     = rlock · len · range · runlock   (own map only)
  `.lock s` sets `held`                LockData = lock · newDataLocker(map, mu.Unlock, parent): the
                                                  write lock is NOT released before the method returns;
                                                  it is the locker's commit callback
  locker ops                           bracketed by the locker's own mutex; Value falls back to
                                                  parent.Value after runlock
  `.commit`                            Commit   = unlockCB · data = nil
-/
import Goat.Tie.C13.Tok
namespace Goat.Tie.C13.Expected
open Goat.Tie.C13

def setValue : List Tok := [.lock, .write, .unlock]
def keys : List Tok := [.rlock, .len, .range, .runlock, .ret]
def rootValue : List Tok := [.rlock, .read, .runlock, .ret]
def childValue : List Tok := [.rlock, .read, .if_, .runlock, .ret, .fi, .runlock, .parentValue, .ret]
def rootLockData : List Tok := [.lock, .newLockerRoot, .ret]
def childLockData : List Tok := [.lock, .newLockerChild, .ret]
def lockerValue : List Tok := [.rlock, .read, .runlock, .if_, .ret, .fi, .if_, .parentValue, .ret, .fi, .ret]
def lockerKeys : List Tok := [.rlock, .deferRUnlock, .len, .range, .ret]
def lockerCommit : List Tok := [.unlockCB, .dataNil, .ret]

end Goat.Tie.C13.Expected
