/-
Tie/C13/Idiom — the get-or-create skeletons (`ITok` lists, `Tok.lean`) read as programs of the model
`Goat/Model/DataScope.lean`.  Core Lean only, executable.

The model's thread programs are straight-line (`List Instr`); the one conditional they have is
`.lcreate k` = `if reg == nil { reg = new instance; locker.SetValue(k, reg) }` where `reg` is the value
the thread read last.  `runSkeleton` therefore reads a skeleton with a small fixed grammar and answers
`none` for everything else (a skeleton without a denotation is not covered by any theorem):

    skeleton := lock · deferCommit? · value(key 0, x) · cond
    cond     := ifNil x · create y · setValue(key 0, y) · else_ · assert y x · fi · tail(y)
              | ifNil x · create x · setValue(key 0, x) · fi · tail(x)
              | ifNotNil x · ret(x …) · fi · create y · setValue(key 0, y) · ret(y …)        -- early return on a hit
    tail(r)  := commit · ret(r …)  |  ret(r …)

with the side conditions
  * the variable tested is the variable read UNDER the lock, the variable stored is the variable
    created, the variable returned is that instance on either path (through `x.(T)` where it is the
    untyped read), the remaining `return` operands are `nil` or `l.Commit()`;
  * one key (number 0) is read and stored;
  * on every path to a `return` the lock is released exactly once: by the `defer`, by a `commit`
    statement, or by `l.Commit()` among the operands of that `return` — never twice, never not at all;
  * nothing else happens: no access to the scope itself (`unlocked…`), no further token.

`lock` ↦ `.lock s`, `value` ↦ `.lget c`, the `cond` block ↦ `.lcreate c`, the release ↦ `.commit`.
-/
import Goat.Model.DataScope
import Goat.Tie.C13.Tok

namespace Goat.Tie.C13

open Goat.DataScope

/-- `return` of the instance held by `r` (`viaAssert`: `r.(T)` is accepted as well).  `released` says the
lock is already released / will be released by a `defer` on this path; otherwise the `return` itself must
release it, once. -/
def retOK (released : Bool) (r : Nat) (viaAssert : Bool) : List RetOp → Bool
  | first :: rest =>
    (first == .var r || (viaAssert && first == .assertOf r)) &&
    rest.all (fun o => o == .nil || o == .commit) &&
    (if released then !rest.contains .commit else rest.count .commit == 1)
  | [] => false

/-- release the lock once and return the instance held by `r` -/
def runTail (deferred : Bool) (r : Nat) (viaAssert : Bool) : List ITok → Option (List Instr)
  | [.commit, .ret ops] => if !deferred && retOK true r viaAssert ops then some [.commit] else none
  | [.ret ops] => if retOK deferred r viaAssert ops then some [.commit] else none
  | _ => none

/-- the conditional create after `x = l.Value(key 0)` -/
def runCond (c : Key) (deferred : Bool) (x : Nat) : List ITok → Option (List Instr)
  | .ifNil x' :: .create y :: .setValue 0 y' :: .else_ :: .assert y'' x'' :: .fi :: rest =>
    if x' == x && y' == y && y'' == y && x'' == x then (runTail deferred y false rest).map (.lcreate c :: ·) else none
  | .ifNil x' :: .create y :: .setValue 0 y' :: .fi :: rest =>
    if x' == x && y == x && y' == x then (runTail deferred x true rest).map (.lcreate c :: ·) else none
  | [.ifNotNil x', .ret hit, .fi, .create y, .setValue 0 y', .ret miss] =>
    if x' == x && y' == y && retOK deferred x true hit && retOK deferred y false miss then some [.lcreate c, .commit]
    else none
  | _ => none

/-- the model program of a get-or-create skeleton on scope `s` with service key `c`; `none` when the
skeleton is not of the idiom's form -/
def runSkeleton (s : Nat) (c : Key) : List ITok → Option (List Instr)
  | .lock :: .deferCommit :: .value 0 x :: rest => (runCond c true x rest).map (fun p => .lock s :: .lget c :: p)
  | .lock :: .value 0 x :: rest => (runCond c false x rest).map (fun p => .lock s :: .lget c :: p)
  | _ => none

/-- goroutines running the given programs (one each) next to goroutines running the programs `others` -/
def initStOf (ss : Scopes) (progs : List (List Instr)) (others : List (List Instr)) (fresh : Nat) : St :=
  { scopes := ss, threads := progs.map Thread.start ++ others.map Thread.start, fresh := fresh }

/-- the programs of a list of skeletons (an unreadable skeleton contributes a thread that does nothing;
the theorems ask for `runSkeleton … ≠ none`) -/
def skeletonProgs (s : Nat) (c : Key) (sks : List (List ITok)) : List (List Instr) :=
  sks.map (fun sk => (runSkeleton s c sk).getD [])

theorem runTail_sound {deferred : Bool} {r : Nat} {va : Bool} {toks : List ITok} {p : List Instr}
    (h : runTail deferred r va toks = some p) : p = [.commit] := by
  unfold runTail at h
  split at h
  · split at h
    · exact (Option.some.inj h).symm
    · cases h
  · split at h
    · exact (Option.some.inj h).symm
    · cases h
  · cases h

theorem runCond_sound {c : Key} {deferred : Bool} {x : Nat} {toks : List ITok} {p : List Instr}
    (h : runCond c deferred x toks = some p) : p = [.lcreate c, .commit] := by
  unfold runCond at h
  split at h
  · split at h
    · rcases Option.map_eq_some_iff.mp h with ⟨q, hq, rfl⟩
      rw [runTail_sound hq]
    · cases h
  · split at h
    · rcases Option.map_eq_some_iff.mp h with ⟨q, hq, rfl⟩
      rw [runTail_sound hq]
    · cases h
  · split at h
    · exact (Option.some.inj h).symm
    · cases h
  · cases h

/-- every skeleton that has a denotation denotes the program of `get_or_create_once` -/
theorem runSkeleton_sound {s : Nat} {c : Key} {sk : List ITok} {p : List Instr}
    (h : runSkeleton s c sk = some p) : p = getOrCreate s c := by
  unfold runSkeleton at h
  split at h
  · rcases Option.map_eq_some_iff.mp h with ⟨q, hq, rfl⟩
    rw [runCond_sound hq]; rfl
  · rcases Option.map_eq_some_iff.mp h with ⟨q, hq, rfl⟩
    rw [runCond_sound hq]; rfl
  · cases h

theorem skeletonProgs_eq (s : Nat) (c : Key) (sks : List (List ITok))
    (h : ∀ sk ∈ sks, runSkeleton s c sk ≠ none) :
    skeletonProgs s c sks = List.replicate sks.length (getOrCreate s c) := by
  induction sks with
  | nil => rfl
  | cons sk rest ih =>
    have h1 : runSkeleton s c sk ≠ none := h sk (List.mem_cons_self ..)
    have h2 := ih (fun sk' hm => h sk' (List.mem_cons_of_mem _ hm))
    cases hr : runSkeleton s c sk with
    | none => exact absurd hr h1
    | some p =>
      have hp := runSkeleton_sound hr
      simp only [skeletonProgs, List.map_cons, List.length_cons, List.replicate_succ, hr, Option.getD_some] at h2 ⊢
      rw [hp, h2]

theorem initStOf_replicate (ss : Scopes) (n : Nat) (p : List Instr) (others : List (List Instr)) (fresh : Nat) :
    initStOf ss (List.replicate n p) others fresh = initSt ss n p others fresh := by
  simp [initStOf, initSt, List.map_replicate]

end Goat.Tie.C13
