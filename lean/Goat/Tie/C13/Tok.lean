/-
Tie/C13/Tok — vocabulary of the synchronisation skeleton extracted from
`/repo/app/scope/datascope/{data,child,locker}.go` by `harness/cmd/datascope facts` (go/ast).
A method body is flattened, in source order, to the list of the events below (receiver `r`):
-/
namespace Goat.Tie.C13

inductive Tok where
  | lock | unlock | rlock | runlock            -- r.mu.Lock() … r.mu.RUnlock()
  | deferRUnlock | deferUnlock                 -- defer r.mu.RUnlock() / defer r.mu.Unlock()
  | read | write | range | len                 -- r.data[k] as a value / r.data[k] = v / range r.data / len(r.data)
  | parentValue                                -- r.parent.Value(…)
  | newLockerRoot                              -- newDataLocker(r.Data, r.mu.Unlock, nil)
  | newLockerChild                             -- newDataLocker(r.data, r.mu.Unlock, r.parent)
  | unlockCB                                   -- r.unlockCB()
  | dataNil                                    -- r.data = nil
  | ret | if_ | fi | else_                     -- return, if … { … } [else …]
  | other                                      -- anything else that touches the map, a mutex, a goroutine, a loop
  | missing                                    -- the method was not found
deriving DecidableEq, Repr

/-- Every access to the map happens while the receiver's mutex is held on that path: reads need at
least the read lock, writes the write lock; `if`/`fi` bodies that return are followed linearly (the
extractor emits the body of an `if` in place, a `ret` inside it ends that path only).  The check is
deliberately simple: it walks the list with a lock state, saving the state at `if_` and restoring
it at `fi`. -/
inductive Held where
  | none | r | w
deriving DecidableEq, Repr

def bracketedAux : List Tok → Held → List Held → Bool
  | [], _, _ => true
  | t :: rest, h, stack =>
    match t with
    | .lock => h == .none && bracketedAux rest .w stack
    | .rlock => h == .none && bracketedAux rest .r stack
    | .unlock => h == .w && bracketedAux rest .none stack
    | .runlock => h == .r && bracketedAux rest .none stack
    | .deferRUnlock => h == .r && bracketedAux rest h stack
    | .deferUnlock => h == .w && bracketedAux rest h stack
    | .read | .range | .len => h != .none && bracketedAux rest h stack
    | .write => h == .w && bracketedAux rest h stack
    | .if_ => bracketedAux rest h (h :: stack)
    | .fi =>
      match stack with
      | s :: st => bracketedAux rest s st
      | [] => false
    | .parentValue => h == .none && bracketedAux rest h stack      -- the parent is read with no own lock held
    | .newLockerRoot | .newLockerChild => h == .w && bracketedAux rest h stack   -- the locker inherits the write lock
    | .other | .missing => false
    | _ => bracketedAux rest h stack

def bracketed (l : List Tok) : Bool := bracketedAux l .none []

/-! ### The get-or-create idiom in the services that use `LockData()`

`datascope facts` also looks at every function of the repository (outside package `datascope`, outside
`_test.go`) that mentions `LockData`, and flattens its body, in source order, to the events below.
`X` is the scope the function locks (`l := X.LockData()`), `l` the locker it got.  Keys and local
variables are numbered by first appearance in the emitted list (key `0` = the first key expression
seen, variable `0` = the first variable seen), so renaming a local or a key constant, reordering
statements that touch neither `X` nor `l` nor one of these variables, and comments do not change the
list.  Only variables that take part in the flow read → test → create → store → return are numbered. -/

/-- one operand of a `return` -/
inductive RetOp where
  | var (x : Nat)        -- a numbered variable
  | assertOf (x : Nat)   -- `x.(T)`
  | nil
  | commit               -- `l.Commit()` evaluated as an operand: the lock is released, then the function returns
  | other
deriving DecidableEq, Repr

inductive ITok where
  | lock                           -- l := X.LockData()
  | deferCommit                    -- defer l.Commit()        (runs at every return below it)
  | commit                         -- l.Commit()
  | value (k x : Nat)              -- x = l.Value(key k)
  | setValue (k y : Nat)           -- l.SetValue(key k, y)
  | keys                           -- l.Keys()
  | ifNil (x : Nat)                -- if x == nil {
  | ifNotNil (x : Nat)             -- if x != nil {
  | ifOther                        -- if <any other condition> {
  | else_ | fi                     -- } else {   /   }
  | create (y : Nat)               -- y = <a call that involves neither X nor l>   (the new instance)
  | assert (y x : Nat)             -- y = x.(T)
  | ret (ops : List RetOp)         -- return …
  | unlockedValue (k x : Nat)      -- x = X.Value(key k): the scope itself, not the locker — before `lock` or
  | unlockedSetValue (k : Nat)     -- X.SetValue(key k, …)  after `commit` it is an access outside the locked
  | unlockedKeys                   -- X.Keys()              section, between them it waits for the own lock for ever
  | lockerEscapes                  -- l or X.LockData used in any other way (passed on, stored, captured by a closure)
  | other                          -- loop, switch, select, go, closure, a second LockData, an untracked store
  | missing                        -- the function was not found
deriving DecidableEq, Repr

end Goat.Tie.C13
