/-
Structural tie for property C15 (DESIGN 1.4).  `Goat/Tie/ExtractedC15.lean` is regenerated on every
run of `./check C15` by `harness/cmd/mutex facts` (go/ast) from the Go sources under test; the
theorems below compare it with what the models `Goat/Model/Mutex.lean` and `Goat/Model/MutexTasks.lean` assume.  They fail by name
when the synchronisation skeleton of the code moves.  Syntactic check (trusted as such).
-/
import Goat.Tie.ExtractedC15

namespace Goat.Tie.C15

/-- `SharedMutex.Lock`: rows are sorted by `Name` *before* the acquisition loop; in the loop every
row is acquired with `RLock` when its value is `LockR` and with `Lock` otherwise (one yield point and
one table look-up before each acquisition); nothing else synchronises. -/
def expectedLock : List String := [
  "for range resources",
  "end",
  "call sort.SliceStable(list) by list[i].Name < list[j].Name",
  "for range list",
  "call verifhook.Yield(\"mutex.acquire\")",
  "call sharedMutex.get(row.Name)",
  "if row.Value == commservices.LockR",
  "call mu.RLock",
  "else",
  "call mu.Lock",
  "end",
  "end",
  "return"]

/-- `unlockHandler.Unlock`: the same rows, each released with the operation matching its acquisition -/
def expectedUnlock : List String := [
  "for range hander.list",
  "call hander.sharedMutex.get(row.Name)",
  "if row.Value == commservices.LockR",
  "call mu.RUnlock",
  "else",
  "call mu.Unlock",
  "end",
  "end"]

/-- in `xs`, `a` is immediately followed by `b`, and `c` occurs later -/
def bracketed (a b c : String) : List String → Bool
  | x :: y :: rest => (x == a && y == b && rest.contains c) || bracketed a b c (y :: rest)
  | _ => false

theorem tie_mutex_sorted : ExtractedC15.sharedMutexLock = expectedLock := by decide

theorem tie_mutex_unlock : ExtractedC15.unlockHandlerUnlock = expectedUnlock := by decide

/-- `Runner.runGo` takes the task's lock map, defers the unlock at once, and only then runs the body -/
theorem tie_runner_brackets :
    bracketed "call runner.deps.SharedMutex.Lock(task.LockMap())" "defer unlockHandler.Unlock"
      "call sandbox.Run(childCtx)" ExtractedC15.runnerRunGo = true := by decide

/-! ### the tasks layer (`Goat/Model/MutexTasks.lean`) -/

/-- `Runner.waitForTasks`: one loop over the wait list; each named task is looked up, awaited
(`Wait` blocks until that task has closed), and the loop returns an error at the first task that
ended with errors; nothing else synchronises. -/
def expectedWaitForTasks : List String := [
  "for range task.WaitList()",
  "call tasksManager.Get(taskName)",
  "if !ok",
  "return",
  "end",
  "call relatedTask.Wait",
  "if err != nil",
  "return",
  "end",
  "call relatedTask.Errors",
  "if len(relatedTask.Errors()) != 0",
  "return",
  "end",
  "end",
  "return"]

def waitCall : String := "call runner.waitForTasks(task, tasksManager)"
def lockCall : String := "call runner.deps.SharedMutex.Lock(task.LockMap())"

/-- in `xs` the call of `waitForTasks` with its error return comes first, the call of
`SharedMutex.Lock` occurs only after it -/
def waitsThenLocks : List String → Bool
  | a :: b :: c :: d :: rest =>
    (a == waitCall && b == "if err != nil" && c == "return" && d == "end" && rest.contains lockCall) ||
      (a != lockCall && waitsThenLocks (b :: c :: d :: rest))
  | _ => false

theorem tie_runner_wait_loop : ExtractedC15.runnerWaitForTasks = expectedWaitForTasks := by decide

/-- `Runner.runGo` goes through `waitForTasks` — returning when it fails — BEFORE it takes the task's
lock map (`MutexTasks.tsys`, not `tsysSwapped`) -/
theorem tie_runner_waits_before_lock : waitsThenLocks ExtractedC15.runnerRunGo = true := by decide

/-- `task.Close` (the completion latch other tasks wait on) is the first deferred call of `runGo`,
hence runs after the deferred `Unlock`: a task that has ended holds nothing -/
theorem tie_runner_closes_after_unlock :
    ExtractedC15.runnerRunGo.head? = some "defer task.Close" ∧
      ExtractedC15.runnerRunGo.contains "defer unlockHandler.Unlock" = true := by decide

end Goat.Tie.C15
