/-
Structural tie for property C15 (DESIGN 1.4).  `Goat/Tie/ExtractedC15.lean` is regenerated on every
run of `./check C15` by `harness/cmd/mutex facts` (go/ast) from the Go sources under test; the
theorems below compare it with what the model `Goat/Model/Mutex.lean` assumes.  They fail by name
when the synchronisation skeleton of the code moves.  Syntactic check (trusted as such).
-/
import Goat.Tie.ExtractedC15

namespace Goat.Tie.C15

/-- `SharedMutex.Lock`: rows are sorted by `Name` *before* the acquisition loop; in the loop every
row is acquired with `RLock` when its value is `LockR` and with `Lock` otherwise (one yield point and
one table look-up before each acquisition); nothing else synchronises. -/
def expectedLock : List String := [
  "for range resources",
  "end",
  "call sort.SliceStable(list) by list[i].Name < list[j].Name",
  "for range list",
  "call verifhook.Yield(\"mutex.acquire\")",
  "call sharedMutex.get(row.Name)",
  "if row.Value == commservices.LockR",
  "call mu.RLock",
  "else",
  "call mu.Lock",
  "end",
  "end",
  "return"]

/-- `unlockHandler.Unlock`: the same rows, each released with the operation matching its acquisition -/
def expectedUnlock : List String := [
  "for range hander.list",
  "call hander.sharedMutex.get(row.Name)",
  "if row.Value == commservices.LockR",
  "call mu.RUnlock",
  "else",
  "call mu.Unlock",
  "end",
  "end"]

/-- in `xs`, `a` is immediately followed by `b`, and `c` occurs later -/
def bracketed (a b c : String) : List String → Bool
  | x :: y :: rest => (x == a && y == b && rest.contains c) || bracketed a b c (y :: rest)
  | _ => false

theorem tie_mutex_sorted : ExtractedC15.sharedMutexLock = expectedLock := by decide

theorem tie_mutex_unlock : ExtractedC15.unlockHandlerUnlock = expectedUnlock := by decide

/-- `Runner.runGo` takes the task's lock map, defers the unlock at once, and only then runs the body -/
theorem tie_runner_brackets :
    bracketed "call runner.deps.SharedMutex.Lock(task.LockMap())" "defer unlockHandler.Unlock"
      "call sandbox.Run(childCtx)" ExtractedC15.runnerRunGo = true := by decide

end Goat.Tie.C15
