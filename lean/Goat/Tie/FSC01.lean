/-
Structural tie for property C01 (DESIGN 1.4), filesystem family.

`Goat/Tie/ExtractedFSC01.lean` is regenerated on every run of `./check C01` by `harness/cmd/fsfacts facts C01`
(go/ast) from the Go sources of the repository under test.  It holds normal forms of the functions that
`Goat/Model/MemFSHeap.lean` (the heap-level model behind the snapshot clause, Props/C01 section 5) and
`Goat/Model/MemFS.lean` mirror.  The theorems below compare them with what those models assume; each fails BY
NAME when the skeleton it pins moves.  A failing theorem is a broken obligation of the check (DESIGN 1.3): the
check then searches for a concrete failing input and reports `no-failing-input-found` when there is none.

Normal forms (harness/cmd/fsfacts/canon.go, analyses.go): receiver `recv`, parameters `p1 p2 …` by position,
named results `err` / `r1 …`, parameters of a function literal `a1 a2 …`, other locals `v1 v2 …` in order of first
appearance (per declaration: the parser's scope analysis, not the name); `:=` printed `=`; operands of `a | b`
and fields of keyed literals in alphabetical order; comments,
`var x T`, verifhook.Yield, Lock/Unlock calls, assignments to a `time` field are dropped; error constructors are
printed `error`; `if h => return …` is an `if` whose whole body is that return.  "slice events" keeps only the
statements that mention a slice (slice parameters, `.data`, `.nodes`, make/append/copy, getData/getNodes/setData,
slice literals, locals assigned from those).  "path discipline": `Method: p1` = the method's first mention of its
string parameter p1 is `if p1, err = varutil.ReduceAbsPath(p1); err != nil { return …, err }` (or `return false`
for the three predicates) at the top level of its body, and p1 is never assigned again.

Syntactic check, trusted as such: it sees the text of the named functions, not what they call.  Core Lean only.
-/
import Goat.Tie.ExtractedFSC01

set_option maxRecDepth 8192

namespace Goat.Tie.FSC01
open Goat.Tie.ExtractedFSC01

/-! ### Where memfs copies (the table in the header of `Model/MemFSHeap.lean`) -/

/-- `MemFSHeap.takeIn` (repaired code, `Cfg.old = false`): `Filespace.WriteFile` reads its data argument
`p2` only through `make([]byte, len(p2))` + `copy(fresh, p2)` (new file: the fresh slice goes into `NewFile`) or
hands it to `File.setData` (existing file), and `setData` stores `make` + `copy`, never the caller's slice.
`handed_in_stable` rests on this. -/
theorem tie_writefile_copies_in :
    writeFileFlow =
      ["v1 = make([]byte, len(p2))",
       "copy(v1, p2)",
       "v3 = NewFile(v2, filesystem.DefaultUnixFileMode, time.Now(), v1)",
       "v3.setData(p2)"]
    ∧ setData = ["recv.data = make([]byte, len(p1))", "copy(recv.data, p1)"] := by
  decide

/-- `MemFSHeap.handOut`: `Filespace.ReadFile` answers `file.getData()`, and `getData` returns a fresh
`make` + `copy` of `f.data`, never `f.data` itself.  `handed_out_stable` (bytes) rests on this. -/
theorem tie_readfile_copies_out :
    readFileFlow = ["return v1.getData(), nil"]
    ∧ getData = ["v1 = make([]byte, len(recv.data))", "copy(v1, recv.data)", "return v1"] := by
  decide

/-- `MemFSHeap.readDir`: `Filespace.ReadDir` answers `dir.getNodes()`, and `getNodes` returns a fresh
`make` + `copy` of `d.nodes`, never the directory's own array.  `handed_out_stable` (listings) rests on this. -/
theorem tie_readdir_copies_out :
    readDirFlow = ["return v1.getNodes(), nil"]
    ∧ getNodes = ["v1 = make([]os.FileInfo, len(recv.nodes))", "copy(v1, recv.nodes)", "return v1"] := by
  decide

/-- `MemFSHeap.copyNode` (file): `copyFile` builds the new file from a fresh `make` + `copy` of the source's
data.  `copy_shares_nothing` rests on this. -/
theorem tie_copyfile_copies :
    copyFile =
      ["v1 = make([]byte, len(p1.data))",
       "copy(v1[:], p1.data)",
       "return NewFile(p2, p1.filemode, p1.time, v1), nil"] := by
  decide

/-- `MemFSHeap.copyNode` (directory): `copyDir` lists the source through `getNodes()` (a copy), fills a
fresh `make([]os.FileInfo, …)` with recursively copied children and hands that array to `NewDir`: the new
directory's listing object is fresh and every child is a copy. -/
theorem tie_copydir_fresh_listing :
    copyDir =
      ["v1 = p1.getNodes()",
       "v2 = make([]os.FileInfo, len(v1))",
       "for v3 = 0; v3 < len(v1); v3++",
       "if v1[v3].IsDir()",
       "v4 = v1[v3].(*Dir)",
       "if v2[v3], err = copyDir(v4, v4.Name()); err != nil => return nil, err",
       "else",
       "v5 = v1[v3].(*File)",
       "if v2[v3], err = copyFile(v5, v5.Name()); err != nil => return nil, err",
       "end",
       "end",
       "return NewDir(p2, p1.filemode, p1.time, v2), nil"] := by
  decide

/-- `MemFSHeap.appendBytes`: `FileHandler.Write(p)` is `data = append(data, p...)` — `p` is only read, the
file never stores the caller's chunk (in place or a new array: the policy `Cfg.realloc` the theorems
quantify over). -/
theorem tie_handler_write_appends :
    handlerWrite = ["recv.file.data = append(recv.file.data, p1...)", "return len(p1), nil"] := by
  decide

/-- Handle `Read(p)` copies from the file into the CALLER's buffer (`copy(p, data[pointer:])`), advances the
pointer by what was copied and reports `io.EOF` together with the last bytes; the file's array is not handed
out.  (`MemFS.readLoop`; the heap model treats the delivered bytes as a fresh caller buffer.) -/
theorem tie_reader_copies_into_buf :
    handlerRead =
      ["v1 = copy(p1, recv.file.data[recv.pointer:])",
       "recv.pointer += v1",
       "if recv.pointer == len(recv.file.data) => return v1, io.EOF",
       "return v1, nil"] := by
  decide

/-- `Writer` (open): a new file starts with the fresh slice literal `[]byte{}`, an existing file's data is
REPLACED by a fresh `[]byte{}` (truncate at open); nothing else in `Writer` touches a slice. -/
theorem tie_writer_installs_fresh :
    memWriterFlow =
      ["v2 = NewFile(v1, filesystem.DefaultUnixFileMode, time.Now(), []byte{})",
       "v2.data = []byte{}"] := by
  decide

/-- `MemFSHeap.appendEntry` / `shiftOut`: `addNode` and `mkdir` grow the node array by `append(d.nodes, n)`
(policy-dependent, like bytes); `removeNodeByName` is `append(d.nodes[:i], d.nodes[i+1:]...)` at the first
index whose name matches — ALWAYS in place, the tail shifted down inside the same array. -/
theorem tie_dir_append_and_shift :
    addNodeFlow = ["recv.nodes = append(recv.nodes, p1)"]
    ∧ mkdirFlow =
      ["r1 = NewDir(p1, p2, time.Now(), []os.FileInfo{})",
       "recv.nodes = append(recv.nodes, r1)"]
    ∧ removeNodeByName =
      ["for v1 = 0; v1 < len(recv.nodes); v1++",
       "if recv.nodes[v1].Name() == p1",
       "recv.nodes = append(recv.nodes[:v1], recv.nodes[v1 + 1:]...)",
       "delete(recv.index, p1)",
       "return nil",
       "end",
       "end",
       "return error"] := by
  decide

/-- The constructors store the slice they are given AS IS (`data: p4`, `nodes: p4`): copying is the callers'
duty, which is why the copy points above are where they are. -/
theorem tie_constructors_store_argument :
    newFile = ["return &File{data: p4, filemode: p2, name: p1, time: p3}"]
    ∧ newDir =
      ["v1 = &Dir{filemode: p2, index: map[string]os.FileInfo{}, name: p1, nodes: p4, time: p3}",
       "range _, v2 = v1.nodes",
       "v1.index[v2.Name()] = v2",
       "end",
       "return v1"] := by
  decide

/-- Census: in package memfs the field `File.data` is mentioned by these functions ONLY (all pinned above,
plus `File.Size` which takes its length).  A new function that reads or writes `.data` is a copy/share
point the heap model does not have. -/
theorem tie_data_field_census :
    dataTouchers =
      ["File.Size", "File.getData", "File.setData", "FileHandler.Read", "FileHandler.Write",
       "Filespace.Writer", "NewFile", "copyFile"] := by
  decide

/-- Census: the field `Dir.nodes` is mentioned by these functions ONLY (`Dir.Size` takes its length). -/
theorem tie_nodes_field_census :
    nodesTouchers =
      ["Dir.Size", "Dir.addNode", "Dir.getNodes", "Dir.mkdir", "Dir.removeNodeByName", "NewDir"] := by
  decide

/-! ### Path plumbing (`Model/MemFS.lean`: every method starts with `norm`) -/

/-- EVERY method of the root `memfs.Filespace` that takes a path (16: the whole interface) reduces EACH path
argument with `varutil.ReduceAbsPath` and returns its error before the argument is used for anything; the one
exception `Filespace(p)` hands `p` untouched to `NewFilespaceWrapper`, which reduces it
(`tie_wrapper_rebases`).  `MemFS.step` applies `Path.norm` to every raw argument first. -/
theorem tie_root_reduces_paths :
    rootReduce =
      ["Copy: p1 p2", "CopyDirectory: p1 p2", "CopyFile: p1 p2", "Filespace: p1->NewFilespaceWrapper",
       "IsDir: p1", "IsExist: p1", "IsFile: p1", "Lstat: p1", "MkdirAll: p1", "ReadDir: p1", "ReadFile: p1",
       "Reader: p1", "Remove: p1", "RemoveAll: p1", "WriteFile: p1", "Writer: p1"] := by
  decide

/-- The same for EVERY method of the child view `memfs.FilespaceWrapper`, both arguments of the three copies
included (`view_refines`, `view_of_view`). -/
theorem tie_wrapper_reduces_paths :
    wrapperReduce =
      ["Copy: p1 p2", "CopyDirectory: p1 p2", "CopyFile: p1 p2", "Filespace: p1",
       "IsDir: p1", "IsExist: p1", "IsFile: p1", "Lstat: p1", "MkdirAll: p1", "ReadDir: p1", "ReadFile: p1",
       "Reader: p1", "Remove: p1", "RemoveAll: p1", "WriteFile: p1", "Writer: p1"] := by
  decide

/-- After the reduction a wrapper method is the SAME method of the wrapped filespace on `basePath + reduced`
(`MemFS.realPath`); `Remove`/`RemoveAll` refuse the empty reduced path; `Filespace` builds a wrapper over the
same root with base `basePath + reduced`; the constructor stores `ReduceAbsPath(base) + "/"`. -/
theorem tie_wrapper_rebases :
    wrapperTail =
      ["Copy:", "return recv.fs.Copy(recv.basePath + p1, recv.basePath + p2)",
       "CopyDirectory:", "return recv.fs.CopyDirectory(recv.basePath + p1, recv.basePath + p2)",
       "CopyFile:", "return recv.fs.CopyFile(recv.basePath + p1, recv.basePath + p2)",
       "Filespace:", "return NewFilespaceWrapper(recv.fs, recv.basePath + p1)",
       "IsDir:", "return recv.fs.IsDir(recv.basePath + p1)",
       "IsExist:", "return recv.fs.IsExist(recv.basePath + p1)",
       "IsFile:", "return recv.fs.IsFile(recv.basePath + p1)",
       "Lstat:", "return recv.fs.Lstat(recv.basePath + p1)",
       "MkdirAll:", "return recv.fs.MkdirAll(recv.basePath + p1, p2)",
       "ReadDir:", "return recv.fs.ReadDir(recv.basePath + p1)",
       "ReadFile:", "return recv.fs.ReadFile(recv.basePath + p1)",
       "Reader:", "return recv.fs.Reader(recv.basePath + p1)",
       "Remove:", "if p1 == \"\" => return error", "return recv.fs.Remove(recv.basePath + p1)",
       "RemoveAll:", "if p1 == \"\" => return error", "return recv.fs.RemoveAll(recv.basePath + p1)",
       "WriteFile:", "return recv.fs.WriteFile(recv.basePath + p1, p2, p3)",
       "Writer:", "return recv.fs.Writer(recv.basePath + p1)"]
    ∧ newFilespaceWrapper =
      ["if p2, err = varutil.ReduceAbsPath(p2); err != nil => return nil, err",
       "return &FilespaceWrapper{basePath: p2 + \"/\", fs: p1}, nil"] := by
  decide

/-- `varutil.ReduceAbsPath` is the loop `Path.reduceAbsPath` mirrors: split at "/", skip "" and ".", ".." pops
or fails at depth 0 ("break isolation space"), anything else is pushed, the kept segments are joined with "/".
No other exit, no fast path. -/
theorem tie_reduce_abs_path_body :
    reduceAbsPath =
      ["v1 = strings.Split(p1, \"/\")",
       "v2 = make([]string, len(v1))",
       "v3 = 0",
       "range _, v4 = v1",
       "if v4 == \"\" || v4 == \".\"",
       "continue",
       "end",
       "if v4 == \"..\"",
       "if v3 == 0 => return \"\", error",
       "v3--",
       "continue",
       "end",
       "v2[v3] = v4",
       "v3++",
       "end",
       "v2 = v2[:v3]",
       "return strings.Join(v2, \"/\"), nil"] := by
  decide

end Goat.Tie.FSC01
