/-
Structural tie for property C02 (DESIGN 1.4), filesystem family.

`Goat/Tie/ExtractedFSC02.lean` is regenerated on every run of `./check C02` by `harness/cmd/fsfacts facts C02`
(go/ast) from the Go sources of the repository under test: normal forms of every method of `diskfs.Filespace`,
of `diskfs.FileHandler.Close` and of the helpers in `filesystem/disk` that `Goat/Model/DiskFS.lean` mirrors step
by step.  The theorems below compare them with what that model assumes; each fails BY NAME when the skeleton it
pins moves.  A failing theorem is a broken obligation of the check (DESIGN 1.3).

Normal forms: see the header of `Goat/Tie/FSC01.lean` (receiver `recv`, parameters `p1 …`, locals `v1 …`, error
constructors `error`, `if h => return …`, "path discipline" `Method: p1 p2`); a "tail" table lists, after a line
`Method:`, the body of the method without its reduce statements.

Syntactic check, trusted as such: it sees the text of the named functions, not what they call (the behaviour of
`os.*`, `ioutil.*`, `filepath.*` is the host ASSUMPTION of C02).  Core Lean only.
-/
import Goat.Tie.ExtractedFSC02

set_option maxRecDepth 8192

namespace Goat.Tie.FSC02
open Goat.Tie.ExtractedFSC02

/-- EVERY method of `diskfs.Filespace` that takes a path (16: the whole interface) starts by reducing EACH
path argument — both arguments of the three copies — with `varutil.ReduceAbsPath` and returns its error
(`false` for the three predicates) before the argument is used.  `DiskFS`: "every method is `ReduceAbsPath`
(= `Path.norm`) followed by the host call(s)". -/
theorem tie_diskfs_reduces_paths :
    diskfsReduce =
      ["Copy: p1 p2", "CopyDirectory: p1 p2", "CopyFile: p1 p2", "Filespace: p1",
       "IsDir: p1", "IsExist: p1", "IsFile: p1", "Lstat: p1", "MkdirAll: p1", "ReadDir: p1", "ReadFile: p1",
       "Reader: p1", "Remove: p1", "RemoveAll: p1", "WriteFile: p1", "Writer: p1"] := by
  decide

/-- … followed by exactly these host calls on `fs.path + reduced` (the table `DiskFS.step` mirrors).  In
particular `tie_disk_writefile_mkdirs_parent`: `WriteFile` = `MkdirAll(filepath.Dir(full))`, error returned,
THEN `ioutil.WriteFile(full, data, perm)`; `tie_remove_refuses_root`: `Remove`/`RemoveAll` refuse the empty
reduced path before `os.Remove`/`os.RemoveAll`; `Filespace` opens a child only on an existing directory. -/
def expectedDiskfsTail : List String :=
  ["Copy:", "return disk.Copy(recv.path + p1, recv.path + p2)",
   "CopyDirectory:", "return disk.CopyDirectory(recv.path + p1, recv.path + p2)",
   "CopyFile:", "return disk.CopyFile(recv.path + p1, recv.path + p2)",
   "Filespace:", "v1 = recv.path + p1", "if !disk.IsDir(v1) => return nil, error", "return NewFilespace(v1)",
   "IsDir:", "return disk.IsDir(recv.path + p1)",
   "IsExist:", "return disk.IsExist(recv.path + p1)",
   "IsFile:", "return disk.IsFile(recv.path + p1)",
   "Lstat:", "return os.Lstat(recv.path + p1)",
   "MkdirAll:", "return disk.MkdirAll(recv.path + p1, p2)",
   "ReadDir:", "return ioutil.ReadDir(recv.path + p1)",
   "ReadFile:", "return ioutil.ReadFile(recv.path + p1)",
   "Reader:", "return os.OpenFile(recv.path + p1, os.O_RDONLY, filesystem.DefaultUnixFileMode)",
   "Remove:", "if p1 == \"\" => return error", "return os.Remove(recv.path + p1)",
   "RemoveAll:", "if p1 == \"\" => return error", "return os.RemoveAll(recv.path + p1)",
   "WriteFile:", "v1 = recv.path + p1",
   "if err = disk.MkdirAll(filepath.Dir(v1), filesystem.DefaultUnixDirMode); err != nil => return err",
   "return ioutil.WriteFile(v1, p2, p3)",
   "Writer:",
   "if v1, err = os.OpenFile(recv.path + p1, os.O_CREATE | os.O_TRUNC | os.O_WRONLY, filesystem.DefaultUnixFileMode); err != nil => return nil, err",
   "return NewFileHandler(v1), nil"]

theorem tie_diskfs_host_calls : diskfsTail = expectedDiskfsTail := by decide

/-- the header lines of a tail table -/
def headers : List String :=
  ["Copy:", "CopyDirectory:", "CopyFile:", "Filespace:", "IsDir:", "IsExist:", "IsFile:", "Lstat:", "MkdirAll:",
   "ReadDir:", "ReadFile:", "Reader:", "Remove:", "RemoveAll:", "WriteFile:", "Writer:"]

/-- the lines of a tail table that belong to one method -/
def section_ (m : String) : List String → List String
  | [] => []
  | l :: rest => if l == m then rest.takeWhile (fun s => !headers.contains s) else section_ m rest

/-- `diskfs.WriteFile` = `MkdirAll(dir of the full path)` with its error returned, then
`ioutil.WriteFile(full, data, perm)` (create/truncate/write in one host call) — `DiskFS`: "`diskfs.WriteFile` =
`MkdirAll(Dir(full))` then `ioutil.WriteFile`", with the partial effect (parents made, write refused) the model
keeps. -/
theorem tie_disk_writefile_mkdirs_parent :
    section_ "WriteFile:" diskfsTail =
      ["v1 = recv.path + p1",
       "if err = disk.MkdirAll(filepath.Dir(v1), filesystem.DefaultUnixDirMode); err != nil => return err",
       "return ioutil.WriteFile(v1, p2, p3)"] := by
  decide

/-- `Remove("")`/`RemoveAll("")` (any spelling of the filespace's own root) are refused before the host is
asked: `DiskFS` answers `err` and changes nothing (`host_confined` needs it: `os.RemoveAll(fs.path)` would
delete the root directory itself). -/
theorem tie_remove_refuses_root :
    section_ "Remove:" diskfsTail = ["if p1 == \"\" => return error", "return os.Remove(recv.path + p1)"]
    ∧ section_ "RemoveAll:" diskfsTail =
      ["if p1 == \"\" => return error", "return os.RemoveAll(recv.path + p1)"] := by
  decide

/-- The only two `os.OpenFile` calls of package diskfs: `Writer` opens with exactly
`O_WRONLY|O_CREATE|O_TRUNC` (create if missing, TRUNCATE what is there, no O_APPEND, no O_EXCL), `Reader` with
`O_RDONLY`.  `DiskFS.writer`: "`Writer` = `OpenFile(O_WRONLY|O_CREATE|O_TRUNC)`, one append per `Write`". -/
theorem tie_disk_writer_flags :
    diskOpenFlags = ["Filespace.Reader: O_RDONLY", "Filespace.Writer: O_CREATE|O_TRUNC|O_WRONLY"] := by
  decide

/-- the disk handle's `Close` is `Sync` (error returned) then `Close` -/
theorem tie_disk_handler_close_syncs :
    diskHandlerClose = ["if err = recv.File.Sync(); err != nil => return", "return recv.File.Close()"] := by
  decide

/-- a root disk filespace stores the absolute host path + "/" (`fs.path`; a child is `NewFilespace(full)`) -/
theorem tie_disk_root_path :
    diskNewFilespace =
      ["if p1, err = filepath.Abs(p1); err != nil => return nil, err",
       "p1 += \"/\"",
       "return filesystem.Filespace(&Filespace{path: p1}), nil"] := by
  decide

/-- `disk.Copy` dispatches on `IsDir(src)`: directory ⇒ `CopyDirectory`, anything else ⇒ `CopyFile` -/
theorem tie_disk_copy_dispatch :
    diskCopy = ["if IsDir(p1) => return CopyDirectory(p1, p2)", "return CopyFile(p1, p2)"] := by
  decide

def expectedCopyDirectory : List String :=
  ["if v1, v2 = os.Stat(p1); v2 != nil",
   "return v2",
   "else",
   "if !v1.IsDir() => return error",
   "end",
   "if v3 = MkdirAll(filepath.Dir(p2), filesystem.DefaultUnixDirMode); v3 != nil => return v3",
   "if v4 = filepath.Walk(p1, func); v4 != nil => return v4",
   "func(a1, a2, a3)",
   "if a3 != nil => return a3",
   "v5, a3 = filepath.Rel(p1, a1)",
   "if a3 != nil => return a3",
   "v6 = append(v6, v7{v5, a2.IsDir()})",
   "return nil",
   "end func",
   "range _, v8 = v6",
   "if v8.isDir",
   "if v9 = MkdirAll(filepath.Join(p2, v8.subPath), filesystem.DefaultUnixDirMode); v9 != nil => return v9",
   "else",
   "if v10 = CopyFile(filepath.Join(p1, v8.subPath), filepath.Join(p2, v8.subPath)); v10 != nil => return v10",
   "end",
   "end",
   "return nil"]

/-- `disk.CopyDirectory`, whole body: type check of the source, `MkdirAll(Dir(dest))`, `filepath.Walk`
collecting `(subPath, isDir)`, then per collected entry `MkdirAll` / `CopyFile`, every error returned at once —
the steps of `DiskFS.copyDirectory`. -/
theorem tie_disk_copydirectory_body : diskCopyDirectory = expectedCopyDirectory := by decide

/-- position of a line -/
def pos (s : String) (l : List String) : Nat := l.idxOf s

/-- the extracted body, under a short name -/
abbrev l : List String := diskCopyDirectory

/-- the two statements of the copying loop that touch the destination -/
def mkdirLine : String :=
  "if v9 = MkdirAll(filepath.Join(p2, v8.subPath), filesystem.DefaultUnixDirMode); v9 != nil => return v9"
def copyLine : String :=
  "if v10 = CopyFile(filepath.Join(p1, v8.subPath), filepath.Join(p2, v8.subPath)); v10 != nil => return v10"

/-- THE REPAIR 5c7294d: the walk over the source only COLLECTS (its callback appends to the slice `v6` and
does nothing else: its whole body is pinned here); the loop that makes directories (`mkdirLine`) and copies
files (`copyLine`) ranges over that slice and starts after the walk has returned.  A copy into the source's own
subtree therefore never sees its own output (`DiskFS`: "`filepath.Walk` collecting … then per entry"; before the
repair the walk never ended). -/
theorem tie_copydirectory_lists_then_copies :
    l.contains "v6 = append(v6, v7{v5, a2.IsDir()})" = true
    ∧ pos "func(a1, a2, a3)" l < pos "end func" l
    ∧ pos "end func" l < pos "range _, v8 = v6" l
    ∧ pos "range _, v8 = v6" l < pos mkdirLine l
    ∧ pos "range _, v8 = v6" l < pos copyLine l
    ∧ pos mkdirLine l < l.length ∧ pos copyLine l < l.length
    ∧ ((l.take (pos "end func" l)).drop (pos "func(a1, a2, a3)" l)) =
        ["func(a1, a2, a3)",
         "if a3 != nil => return a3",
         "v5, a3 = filepath.Rel(p1, a1)",
         "if a3 != nil => return a3",
         "v6 = append(v6, v7{v5, a2.IsDir()})",
         "return nil"] := by
  decide

/-- `disk.CopyFile`, whole body: `os.Open(src)`, refuse a directory (`Stat().IsDir()`), `os.Create(dst)`
(create or truncate), `io.Copy`, the destination's `Close` error is the result; no other way to produce the
destination (no link, no rename) — `DiskFS.copyFile`. -/
theorem tie_disk_copyfile_body :
    diskCopyFile =
      ["v1, v2 = os.Open(p1)",
       "if v2 != nil => return v2",
       "defer v1.Close()",
       "if v3, v4 = v1.Stat(); v4 != nil",
       "return v4",
       "else",
       "if v3.IsDir() => return error",
       "end",
       "v5, v2 = os.Create(p2)",
       "if v2 != nil => return v2",
       "if _, v6 = io.Copy(v5, v1); v6 != nil",
       "v5.Close()",
       "return v6",
       "end",
       "return v5.Close()"] := by
  decide

/-- the three predicates are `os.Stat` (links followed) + `IsDir`; `MkdirAll` is `os.MkdirAll` -/
theorem tie_disk_predicates :
    diskIsExist = ["if _, v1 = os.Stat(p1); v1 == nil => return true", "return false"]
    ∧ diskIsDir = ["v1, v2 = os.Stat(p1)", "if v2 != nil => return false", "return v1.IsDir()"]
    ∧ diskIsFile = ["v1, v2 = os.Stat(p1)", "if v2 != nil => return false", "return !v1.IsDir()"]
    ∧ diskMkdirAll = ["return os.MkdirAll(p1, p2)"] := by
  decide

/-- `varutil.ReduceAbsPath` is the loop `Path.norm` mirrors (see `FSC01.tie_reduce_abs_path_body`) -/
theorem tie_reduce_abs_path_body :
    reduceAbsPath =
      ["v1 = strings.Split(p1, \"/\")",
       "v2 = make([]string, len(v1))",
       "v3 = 0",
       "range _, v4 = v1",
       "if v4 == \"\" || v4 == \".\"",
       "continue",
       "end",
       "if v4 == \"..\"",
       "if v3 == 0 => return \"\", error",
       "v3--",
       "continue",
       "end",
       "v2[v3] = v4",
       "v3++",
       "end",
       "v2 = v2[:v3]",
       "return strings.Join(v2, \"/\"), nil"] := by
  decide

end Goat.Tie.FSC02
