/-
Structural tie for property C03 (DESIGN 1.4), filesystem family.

`Goat/Tie/ExtractedFSC03.lean` is regenerated on every run of `./check C03` by `harness/cmd/fsfacts facts C03`
(go/ast) from the Go sources of the repository under test: what EVERY method of every view kind does with its
path parameters — memory wrapper (memfs/wraper.go), sub-path view (fshelper/subfs.go), read-only mask
(fshelper/rofs.go), encrypted view (encryptfs/filespace.go), cache child (fscache/cache.go `Filespace`), disk
root (diskfs/filespace.go) — and `varutil.ReduceAbsPath` itself.  `Goat/Model/Views.lean` models exactly this
path plumbing as a stack of layers (`Layer.down`, `rebase`, `rebaseNonRoot`, `openView`); the theorems below
compare the extracted normal forms with what that model assumes and fail BY NAME when the skeleton moves.  A
failing theorem is a broken obligation of the check (DESIGN 1.3).

Normal forms: see the header of `Goat/Tie/FSC01.lean`.  "path discipline" `Method: p1 p2` = each listed string
parameter is first mentioned in `if pK, err = varutil.ReduceAbsPath(pK); err != nil { return …, err }` (`return
false` for the predicates) at the top level of the body and never assigned again; `pK->f` = never reduced here,
handed as it is to `f`; `pK-` = never mentioned.  A "tail" table lists, after a line `Method:`, the body of the
method without its reduce statements.

Syntactic check, trusted as such: it sees the text of the named methods, not what they call.  Core Lean only.
-/
import Goat.Tie.ExtractedFSC03

set_option maxRecDepth 8192

namespace Goat.Tie.FSC03
open Goat.Tie.ExtractedFSC03

/-- the discipline shared by the three rebasing kinds: all 16 methods, every path parameter, both arguments
of the three copies -/
def reduce16 : List String :=
  ["Copy: p1 p2", "CopyDirectory: p1 p2", "CopyFile: p1 p2", "Filespace: p1",
   "IsDir: p1", "IsExist: p1", "IsFile: p1", "Lstat: p1", "MkdirAll: p1", "ReadDir: p1", "ReadFile: p1",
   "Reader: p1", "Remove: p1", "RemoveAll: p1", "WriteFile: p1", "Writer: p1"]

/-- what a rebasing view does after the reduction (all methods but `Filespace`, which differs per kind):
the same method of the wrapped filespace on `basePath + reduced` -/
def rebaseHead : List String :=
  ["Copy:", "return recv.fs.Copy(recv.basePath + p1, recv.basePath + p2)",
   "CopyDirectory:", "return recv.fs.CopyDirectory(recv.basePath + p1, recv.basePath + p2)",
   "CopyFile:", "return recv.fs.CopyFile(recv.basePath + p1, recv.basePath + p2)"]

def rebaseRest : List String :=
  ["IsDir:", "return recv.fs.IsDir(recv.basePath + p1)",
   "IsExist:", "return recv.fs.IsExist(recv.basePath + p1)",
   "IsFile:", "return recv.fs.IsFile(recv.basePath + p1)",
   "Lstat:", "return recv.fs.Lstat(recv.basePath + p1)",
   "MkdirAll:", "return recv.fs.MkdirAll(recv.basePath + p1, p2)",
   "ReadDir:", "return recv.fs.ReadDir(recv.basePath + p1)",
   "ReadFile:", "return recv.fs.ReadFile(recv.basePath + p1)",
   "Reader:", "return recv.fs.Reader(recv.basePath + p1)",
   "Remove:", "if p1 == \"\" => return error", "return recv.fs.Remove(recv.basePath + p1)",
   "RemoveAll:", "if p1 == \"\" => return error", "return recv.fs.RemoveAll(recv.basePath + p1)",
   "WriteFile:", "return recv.fs.WriteFile(recv.basePath + p1, p2, p3)",
   "Writer:", "return recv.fs.Writer(recv.basePath + p1)"]

/-- the header lines of a tail table -/
def headers : List String :=
  ["Copy:", "CopyDirectory:", "CopyFile:", "Filespace:", "IsDir:", "IsExist:", "IsFile:", "Lstat:", "MkdirAll:",
   "ReadDir:", "ReadFile:", "Reader:", "Remove:", "RemoveAll:", "WriteFile:", "Writer:"]

/-- the lines of a tail table that belong to one method -/
def section_ (m : String) : List String → List String
  | [] => []
  | l :: rest => if l == m then rest.takeWhile (fun s => !headers.contains s) else section_ m rest

/-! ### The rebasing kinds (`Views.rebase`, `Views.rebaseNonRoot`) -/

/-- memory wrapper `memfs.FilespaceWrapper`: EVERY method reduces EACH path argument (both arguments of
`Copy`, `CopyDirectory`, `CopyFile`) with `ReduceAbsPath` and returns the error, before anything else mentions
it.  `Views.Layer.down` for kind `memWrapper` starts with `reduceAbsPath` of every raw argument
(`climbing_rejected`). -/
theorem tie_wrapper_reduces_paths : wrapperReduce = reduce16 := by decide

/-- … and then calls the same method of the wrapped filespace on `basePath + reduced` (`rebase`); its
`Filespace` builds a wrapper over the same root with base `basePath + reduced`; the constructor stores
`ReduceAbsPath(base) + "/"` (so a wrapper's base never climbs). -/
theorem tie_wrapper_rebases :
    wrapperTail =
      rebaseHead ++ ["Filespace:", "return NewFilespaceWrapper(recv.fs, recv.basePath + p1)"] ++ rebaseRest
    ∧ newFilespaceWrapper =
      ["if p2, err = varutil.ReduceAbsPath(p2); err != nil => return nil, err",
       "return &FilespaceWrapper{basePath: p2 + \"/\", fs: p1}, nil"] := by
  decide

/-- sub-path view `fshelper.SubFS`: the same discipline, every method, every path argument. -/
theorem tie_subfs_reduces_paths : subfsReduce = reduce16 := by decide

/-- … and the same rebasing; `SubFS.Filespace` stacks the REDUCED argument on its own base
(`basePath + reduced + "/"`, same wrapped filespace: `view_of_stack`). -/
theorem tie_subfs_rebases :
    subfsTail =
      rebaseHead ++ ["Filespace:", "return SubFS{basePath: recv.basePath + p1 + \"/\", fs: recv.fs}, nil"]
        ++ rebaseRest := by
  decide

/-- `fshelper.NewSubFS` stores `path.Clean(base) + "/"` over the filespace it is GIVEN — no reduction, no
look at what kind of filespace that is (`Views`: "`path.Clean` of it for the sub-path view (which may start with
`..`: such a view is dead, every call through it fails in the filespace below)").  The dead-view argument needs
the filespace below to be the one that was passed in. -/
theorem tie_newsubfs_cleans_over_given_fs :
    newSubFS = ["p2 = path.Clean(p2) + \"/\"", "return SubFS{basePath: p2, fs: p1}"] := by
  decide

/-- disk root `diskfs.Filespace`: the same discipline (kind `diskRoot`). -/
theorem tie_diskfs_reduces_paths : diskfsReduce = reduce16 := by decide

/-- `Remove`/`RemoveAll` of the view's own root — an argument that reduces to "" — is refused by the view
itself in the memory wrapper, the sub-path view and the disk filespace, BEFORE the wrapped filespace / the host
is asked (`rebaseNonRoot`, `root_removal_refused`). -/
theorem tie_views_refuse_root_removal :
    section_ "Remove:" wrapperTail = ["if p1 == \"\" => return error", "return recv.fs.Remove(recv.basePath + p1)"]
    ∧ section_ "RemoveAll:" wrapperTail =
      ["if p1 == \"\" => return error", "return recv.fs.RemoveAll(recv.basePath + p1)"]
    ∧ section_ "Remove:" subfsTail = ["if p1 == \"\" => return error", "return recv.fs.Remove(recv.basePath + p1)"]
    ∧ section_ "RemoveAll:" subfsTail =
      ["if p1 == \"\" => return error", "return recv.fs.RemoveAll(recv.basePath + p1)"]
    ∧ section_ "Remove:" diskfsTail = ["if p1 == \"\" => return error", "return os.Remove(recv.path + p1)"]
    ∧ section_ "RemoveAll:" diskfsTail =
      ["if p1 == \"\" => return error", "return os.RemoveAll(recv.path + p1)"] := by
  decide

/-- every host call of the disk filespace is made on `fs.path + reduced` (nothing else is ever concatenated
to the root path), and `Filespace` opens a child — a new disk root at `fs.path + reduced` — only on an existing
directory (`stack_delegates_under` for kind `diskRoot`). -/
theorem tie_diskfs_rebases :
    diskfsTail =
      ["Copy:", "return disk.Copy(recv.path + p1, recv.path + p2)",
       "CopyDirectory:", "return disk.CopyDirectory(recv.path + p1, recv.path + p2)",
       "CopyFile:", "return disk.CopyFile(recv.path + p1, recv.path + p2)",
       "Filespace:", "v1 = recv.path + p1", "if !disk.IsDir(v1) => return nil, error", "return NewFilespace(v1)",
       "IsDir:", "return disk.IsDir(recv.path + p1)",
       "IsExist:", "return disk.IsExist(recv.path + p1)",
       "IsFile:", "return disk.IsFile(recv.path + p1)",
       "Lstat:", "return os.Lstat(recv.path + p1)",
       "MkdirAll:", "return disk.MkdirAll(recv.path + p1, p2)",
       "ReadDir:", "return ioutil.ReadDir(recv.path + p1)",
       "ReadFile:", "return ioutil.ReadFile(recv.path + p1)",
       "Reader:", "return os.OpenFile(recv.path + p1, os.O_RDONLY, filesystem.DefaultUnixFileMode)",
       "Remove:", "if p1 == \"\" => return error", "return os.Remove(recv.path + p1)",
       "RemoveAll:", "if p1 == \"\" => return error", "return os.RemoveAll(recv.path + p1)",
       "WriteFile:", "v1 = recv.path + p1",
       "if err = disk.MkdirAll(filepath.Dir(v1), filesystem.DefaultUnixDirMode); err != nil => return err",
       "return ioutil.WriteFile(v1, p2, p3)",
       "Writer:",
       "if v1, err = os.OpenFile(recv.path + p1, os.O_CREATE | os.O_TRUNC | os.O_WRONLY, filesystem.DefaultUnixFileMode); err != nil => return nil, err",
       "return NewFileHandler(v1), nil"] := by
  decide

/-! ### The read-only mask (`Views`: kind `readOnly`) -/

/-- EVERY mutating method of `fshelper.ROFilespace` (the three copies, `MkdirAll`, `WriteFile`, `Writer`,
`Remove`, `RemoveAll`) is `return error` — its arguments are never mentioned, the inner filespace is never
touched (`readonly_never_mutates`); the seven reading methods hand their argument UNCHANGED to the same method of
the inner filespace (the mask has no path of its own). -/
theorem tie_rofs_mutators_refused :
    rofsReduce =
      ["Copy: p1- p2-", "CopyDirectory: p1- p2-", "CopyFile: p1- p2-", "Filespace: p1->NewSubFS",
       "IsDir: p1->recv.fs.IsDir", "IsExist: p1->recv.fs.IsExist", "IsFile: p1->recv.fs.IsFile",
       "Lstat: p1->recv.fs.Lstat", "MkdirAll: p1-", "ReadDir: p1->recv.fs.ReadDir",
       "ReadFile: p1->recv.fs.ReadFile", "Reader: p1->recv.fs.Reader", "Remove: p1-", "RemoveAll: p1-",
       "WriteFile: p1-", "Writer: p1-"]
    ∧ rofsTail =
      ["Copy:", "return error", "CopyDirectory:", "return error", "CopyFile:", "return error",
       "Filespace:", "return NewReadonlyFS(NewSubFS(recv.fs, p1)), nil",
       "IsDir:", "return recv.fs.IsDir(p1)", "IsExist:", "return recv.fs.IsExist(p1)",
       "IsFile:", "return recv.fs.IsFile(p1)", "Lstat:", "return recv.fs.Lstat(p1)",
       "MkdirAll:", "return error", "ReadDir:", "return recv.fs.ReadDir(p1)",
       "ReadFile:", "return recv.fs.ReadFile(p1)", "Reader:", "return recv.fs.Reader(p1)",
       "Remove:", "return error", "RemoveAll:", "return error", "WriteFile:", "return error",
       "Writer:", "return nil, error"] := by
  decide

/-- `ROFilespace.Filespace(p)` = read-only mask over `NewSubFS(inner, p)` and never fails: the child of a
read-only view is a SUB-PATH VIEW of the inner filespace (not the inner filespace's own child view), again
masked (`openView` for kind `readOnly`; a climbing `p` yields a dead view). -/
theorem tie_rofs_child_is_subfs :
    section_ "Filespace:" rofsTail = ["return NewReadonlyFS(NewSubFS(recv.fs, p1)), nil"]
    ∧ newReadonlyFS = ["return ROFilespace{fs: p1}"] := by
  decide

/-! ### The cache child (`Views`: kind `cacheChild`) -/

/-- `fscache.Cache.Filespace(p)` = `fshelper.NewSubFS(cache, p)`, never fails: a cache child is a sub-path view
over the cache itself. -/
theorem tie_cache_child_is_subfs :
    cacheFilespace = ["return fshelper.NewSubFS(recv, p1), nil"] := by
  decide

/-! ### The encrypted view (`Views`: kind `encrypted`) -/

/-- `encryptfs.EncryptFS`: all 16 methods hand every path argument UNCHANGED to the same method of the base
filespace; the 12 name-space methods (three copies, `ReadDir`, the three predicates, `MkdirAll`, `Remove`,
`RemoveAll`, `Lstat`, and `Filespace` up to re-wrapping the child) are that call and nothing else; the 4 content
methods (`ReadFile`, `WriteFile`, `Reader`, `Writer`) only transform the bytes / the stream
(`encrypted_delegates_names`). -/
theorem tie_encryptfs_delegates_names :
    encryptReduce =
      ["Copy: p1->recv.baseFS.Copy p2->recv.baseFS.Copy",
       "CopyDirectory: p1->recv.baseFS.CopyDirectory p2->recv.baseFS.CopyDirectory",
       "CopyFile: p1->recv.baseFS.CopyFile p2->recv.baseFS.CopyFile",
       "Filespace: p1->recv.baseFS.Filespace", "IsDir: p1->recv.baseFS.IsDir", "IsExist: p1->recv.baseFS.IsExist",
       "IsFile: p1->recv.baseFS.IsFile", "Lstat: p1->recv.baseFS.Lstat", "MkdirAll: p1->recv.baseFS.MkdirAll",
       "ReadDir: p1->recv.baseFS.ReadDir", "ReadFile: p1->recv.baseFS.ReadFile", "Reader: p1->recv.baseFS.Reader",
       "Remove: p1->recv.baseFS.Remove", "RemoveAll: p1->recv.baseFS.RemoveAll",
       "WriteFile: p1->recv.baseFS.WriteFile", "Writer: p1->recv.baseFS.Writer"]
    ∧ encryptTail =
      ["Copy:", "return recv.baseFS.Copy(p1, p2)",
       "CopyDirectory:", "return recv.baseFS.CopyDirectory(p1, p2)",
       "CopyFile:", "return recv.baseFS.CopyFile(p1, p2)",
       "Filespace:", "if r1, err = recv.baseFS.Filespace(p1); err != nil => return nil, err",
       "return &EncryptFS{Cipher: recv.Cipher, baseFS: r1, hash: recv.hash}, nil",
       "IsDir:", "return recv.baseFS.IsDir(p1)",
       "IsExist:", "return recv.baseFS.IsExist(p1)",
       "IsFile:", "return recv.baseFS.IsFile(p1)",
       "Lstat:", "return recv.baseFS.Lstat(p1)",
       "MkdirAll:", "return recv.baseFS.MkdirAll(p1, p2)",
       "ReadDir:", "return recv.baseFS.ReadDir(p1)",
       "ReadFile:", "if r1, err = recv.baseFS.ReadFile(p1); err != nil => return nil, err",
       "return recv.Cipher.Decrypt(recv.hash, r1)",
       "Reader:", "if r1, err = recv.baseFS.Reader(p1); err != nil => return nil, err",
       "return recv.Cipher.DecryptReader(recv.hash, r1)",
       "Remove:", "return recv.baseFS.Remove(p1)",
       "RemoveAll:", "return recv.baseFS.RemoveAll(p1)",
       "WriteFile:", "if p2, err = recv.Cipher.Encrypt(recv.hash, p2); err != nil => return err",
       "return recv.baseFS.WriteFile(p1, p2, p3)",
       "Writer:", "if r1, err = recv.baseFS.Writer(p1); err != nil => return nil, err",
       "return recv.Cipher.EncryptWriter(recv.hash, r1)"] := by
  decide

/-! ### The lexical core -/

/-- `varutil.ReduceAbsPath` is the loop `Path.reduceAbsPath` mirrors — the function ALL lexical theorems of
C03 (section (a) of Props/C03) are about: split at "/", skip "" and ".", ".." pops or fails at depth 0 ("break
isolation space"), anything else is pushed, the kept segments are joined with "/".  No other exit, no fast
path. -/
theorem tie_reduce_abs_path_body :
    reduceAbsPath =
      ["v1 = strings.Split(p1, \"/\")",
       "v2 = make([]string, len(v1))",
       "v3 = 0",
       "range _, v4 = v1",
       "if v4 == \"\" || v4 == \".\"",
       "continue",
       "end",
       "if v4 == \"..\"",
       "if v3 == 0 => return \"\", error",
       "v3--",
       "continue",
       "end",
       "v2[v3] = v4",
       "v3++",
       "end",
       "v2 = v2[:v3]",
       "return strings.Join(v2, \"/\"), nil"] := by
  decide

end Goat.Tie.FSC03
