/-
Structural tie for property C04 (DESIGN 1.4), filesystem family.

`Goat/Tie/ExtractedFSC04.lean` is regenerated on every run of `./check C04` by `harness/cmd/fsfacts facts C04`
(go/ast) from the Go sources of the repository under test: the whole canonical bodies of the stream helpers
(`fshelper.StreamCopy`, `Copy` with its two callbacks, `Copier.Do` / `copyFile` / `copyDirectory`) and the
statements of the memory and disk stream handles that `Goat/Model/Stream.lean` mirrors branch by branch
(`streamCopy2`, `onItem`, `treeCopy`, `copierDo`, `WHandle`, `RHandle`).  The theorems below compare them with what
that model assumes and fail BY NAME when the skeleton moves.  A failing theorem is a broken obligation of the
check (DESIGN 1.3).

Normal forms: see the header of `Goat/Tie/FSC01.lean` (receiver `recv`, parameters `p1 …`, named error result
`err`, locals `v1 …`, `if h => return …`, `func KEY(a1, a2 …)` … `end func` = the body of a function literal given
as field KEY of a composite literal, its parameters by position; fields of a keyed literal in alphabetical order).

Syntactic check, trusted as such: it sees the text of the named functions, not what they call (`io.Copy` is
modelled, the fsloop walk is C08's subject).  Core Lean only.
-/
import Goat.Tie.ExtractedFSC04

set_option maxRecDepth 8192

namespace Goat.Tie.FSC04
open Goat.Tie.ExtractedFSC04

/-- position of a line -/
def pos (s : String) (l : List String) : Nat := l.idxOf s

/-- `fshelper.StreamCopy(src, dst, p)`, whole body = `Stream.streamCopy2`, branch by branch:
  1. `src.Reader(p)`; its error is returned (nothing to close);
  2. `dst.Writer(p)`; on error the reader is closed and the error returned;
  3. `io.Copy(writer, reader)`; on error BOTH are closed (writer first) and the io.Copy error returned;
  4. `writer.Close()`; its error is RETURNED (after closing the reader) — a writer that delivers its last bytes
     on Close and fails makes the copy fail;
  5. `reader.Close()`; its error is returned;
  6. only then `nil`.
No path returns `nil` after a failed stage, no stage is skipped, both streams are closed on every path after
they were opened. -/
def expectedStreamCopy (reader writer : String) : List String :=
  [reader,
   writer,
   "v1.Close()",
   "return err",
   "end",
   "if _, err = io.Copy(v2, v1); err != nil",
   "v2.Close()",
   "v1.Close()",
   "return err",
   "end",
   "if err = v2.Close(); err != nil",
   "v1.Close()",
   "return err",
   "end",
   "if err = v1.Close(); err != nil => return err",
   "return nil"]

theorem tie_streamcopy_order_and_errors :
    streamCopy =
      expectedStreamCopy "if v1, err = p1.Reader(p3); err != nil => return err"
        "if v2, err = p2.Writer(p3); err != nil" := by
  decide

/-- the three error results that must reach the caller, as separate statements about the extracted body:
the io.Copy branch, the writer-Close branch and the reader-Close guard all end in `return err`, in this order,
and the only `return nil` is the last line -/
theorem tie_streamcopy_close_errors_returned :
    pos "if _, err = io.Copy(v2, v1); err != nil" streamCopy < pos "if err = v2.Close(); err != nil" streamCopy
    ∧ pos "if err = v2.Close(); err != nil" streamCopy < pos "if err = v1.Close(); err != nil => return err" streamCopy
    ∧ pos "if err = v1.Close(); err != nil => return err" streamCopy < pos "return nil" streamCopy
    ∧ pos "return nil" streamCopy + 1 = streamCopy.length
    ∧ (streamCopy.drop (pos "if err = v2.Close(); err != nil" streamCopy)).take 4 =
        ["if err = v2.Close(); err != nil", "v1.Close()", "return err", "end"]
    ∧ (streamCopy.filter (· == "return err")).length = 3 := by
  decide

/-- `Copier.copyFile` is the SAME function with (SrcFS, SrcPath) and (DestFS, DestPath) in place of
(src, p), (dst, p) — `Stream`: "`streamCopy2` (source and destination path may differ: the same function is
`Copier.copyFile`)". -/
theorem tie_copier_copyfile_is_streamcopy :
    copierCopyFile =
      expectedStreamCopy "if v1, err = recv.SrcFS.Reader(recv.SrcPath); err != nil => return err"
        "if v2, err = recv.DestFS.Writer(recv.DestPath); err != nil" := by
  decide

def expectedTreeCopy : List String :=
  ["v1 = fsloop.NewLoop(&fsloop.LoopData{Consumers: 1, DirFilter: p3, Filespace: p1, OnDir: func, OnFile: func, Producents: 1}, nil)",
   "func OnDir(a1, a2)",
   "return p2.MkdirAll(a2, filesystem.DefaultUnixDirMode)",
   "end func",
   "func OnFile(a1, a2)",
   "if err = p2.MkdirAll(path.Dir(a2), filesystem.DefaultUnixDirMode); err != nil => return err",
   "if err = StreamCopy(p1, p2, a2); err != nil => return err",
   "return nil",
   "end func",
   "v1.Run(\"\")",
   "v1.Wait()",
   "return goaterr.ToError(v1.Errors())"]

/-- `fshelper.Copy(src, dst, filter)`, whole body = `Stream.treeCopy` / `onItem`: one fsloop walk over `src`
from "" with ONE consumer (callbacks run one at a time) and one producer; `OnDir` = `dst.MkdirAll(subPath)`;
`OnFile` = `dst.MkdirAll(path.Dir(subPath))`, error returned, then `StreamCopy(src, dst, subPath)`, error
returned — EVERY file the walk hands over is stream-copied, there is no skipping branch; `Run`, `Wait`. -/
theorem tie_copy_callbacks : treeCopy = expectedTreeCopy := by decide

/-- … and the result is `goaterr.ToError(loop.Errors())` taken AFTER `Wait`: an error as soon as the walk's
error list is non-empty (`treeCopy`: "errors collected, result = error iff any was collected").  There is no
other return statement outside the callbacks. -/
theorem tie_copy_collects_errors :
    pos "v1.Run(\"\")" treeCopy < pos "v1.Wait()" treeCopy
    ∧ pos "v1.Wait()" treeCopy < pos "return goaterr.ToError(v1.Errors())" treeCopy
    ∧ pos "return goaterr.ToError(v1.Errors())" treeCopy + 1 = treeCopy.length
    ∧ pos "end func" (treeCopy.drop (pos "func OnFile(a1, a2)" treeCopy)) + pos "func OnFile(a1, a2)" treeCopy
        < pos "v1.Run(\"\")" treeCopy := by
  decide

/-- `Copier.Do`: `SrcFS.IsFile(SrcPath)` ⇒ `copyFile`; otherwise `copyDirectory`, which refuses a source that is
not a directory, opens the source view, `DestFS.MkdirAll(DestPath)`, opens the destination view (every error
returned) and runs `Copy(srcView, dstView, nil)` — `Stream.copierDo`. -/
theorem tie_copier_dispatch :
    copierDo = ["if recv.SrcFS.IsFile(recv.SrcPath) => return recv.copyFile()", "return recv.copyDirectory()"]
    ∧ copierCopyDirectory =
      ["if !recv.SrcFS.IsDir(recv.SrcPath) => return error",
       "if v1, err = recv.SrcFS.Filespace(recv.SrcPath); err != nil => return err",
       "if err = recv.DestFS.MkdirAll(recv.DestPath, filesystem.DefaultUnixDirMode); err != nil => return err",
       "if v2, err = recv.DestFS.Filespace(recv.DestPath); err != nil => return err",
       "return Copy(v1, v2, nil)"] := by
  decide

/-! ### The stream handles (`WHandle` kinds `mem` / `disk`, `RHandle` styles `eager` / `lazy`) -/

/-- memory `Writer` (open): a new file starts with `[]byte{}`, an existing file's data is REPLACED by a fresh
`[]byte{}` at open — "`Writer` truncates the file when it opens it" (`writer_replaces`); nothing else in
`Writer` touches a slice. -/
theorem tie_memfs_writer_truncates :
    memWriterFlow =
      ["v2 = NewFile(v1, filesystem.DefaultUnixFileMode, time.Now(), []byte{})",
       "v2.data = []byte{}"] := by
  decide

/-- memory handle `Write(p)` = `data = append(data, p...)`, all of `p`, `len(p)` reported, no error: "`Write`
appends" — the chunk is copied into the file, the caller's buffer (io.Copy reuses ONE buffer) is never kept.
`Close` reports no error. -/
theorem tie_memfs_write_appends :
    handlerWrite = ["recv.file.data = append(recv.file.data, p1...)", "return len(p1), nil"]
    ∧ handlerClose = ["return nil"] := by
  decide

/-- memory handle `Read(p)`: copy from the pointer, advance by what was copied, `io.EOF` TOGETHER with the
last bytes and again on every later read (`RHandle` style `eager`). -/
theorem tie_memfs_read_eager :
    handlerRead =
      ["v1 = copy(p1, recv.file.data[recv.pointer:])",
       "recv.pointer += v1",
       "if recv.pointer == len(recv.file.data) => return v1, io.EOF",
       "return v1, nil"] := by
  decide

/-- disk `Writer` opens with exactly `O_WRONLY|O_CREATE|O_TRUNC` (old content is gone at open, no append
mode), `Reader` with `O_RDONLY` (an `*os.File`: `RHandle` style `lazy`); the disk handle's `Close` is `Sync` then
`Close`, either error returned (`WHandle` kind `disk`). -/
theorem tie_disk_writer_flags :
    diskOpenFlags = ["Filespace.Reader: O_RDONLY", "Filespace.Writer: O_CREATE|O_TRUNC|O_WRONLY"]
    ∧ diskHandlerClose = ["if err = recv.File.Sync(); err != nil => return", "return recv.File.Close()"] := by
  decide

end Goat.Tie.FSC04
