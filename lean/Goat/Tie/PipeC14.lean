/-
Structural tie for property C14 (DESIGN 1.4), pipeline family.

`Goat/Tie/ExtractedPipeC14.lean` is regenerated on every run of `./check C14` by `harness/cmd/pipefacts facts C14`
(go/ast) from the Go sources of the repository under test: normal forms of the functions that
`Goat/Model/Pipeline.lean` mirrors step by step (`Runner.Run` / `runGo` / `waitForTasks`, `TaskManager.Create` /
`validWaitList` / `doneTask` / `Wait` / `Get`, `Task.Close` / `Wait` / `Errors`, `termexec.RunLoop` / `RunCommand`,
`pipc.Run`, `scope.Scope.Wait` / `AddTasks` / `DoneTask`, `scope.NewChild`).  The theorems below compare them with
what the header comments of that model (and the hypotheses of `Props/C14.lean`) assume, and fail BY NAME when the
skeleton moves.  A failing theorem is a broken obligation of the check (DESIGN 1.3): it is followed by the
check's search for a failing input and ends as `VIOLATION … no-failing-input-found` when there is none.

Normal forms (harness/cmd/pipefacts/canon.go, queries.go): a body is a list of lines in source order; receiver
`recv`, parameters `p1 p2 …` by position, variables of type `error` `err err2 …` (named results first), other named
results `r1 …`, parameters of a function literal `a1 …`, every other local `v1 v2 …` in the order of first
appearance in the printed lines (so a renamed local prints the same); `:=` and `=` both print `=`; comments, status
texts (`SetStatus`), progress output (`Printf`), yield points and `var x T` are dropped, and so is an `if` left
with nothing but such statements; error constructors print `error`, `fmt.Sprintf(...)` prints `fmt.Sprintf(…)`
(message texts are not compared); `if h => return …` is an `if` whose body is one return; `func(…)` … `end func` is
the body of a function literal, after the line it occurs in; fields of keyed literals in alphabetical order.
WHOLE-BODY facts print every remaining statement.  FILTERED facts (`create`, `runCommand`, `scopeNewChild`) print
the statements that mention one of the fact's names of interest, the compound statements around them with
their headers, and the returns inside those: statements about other things may come, go and move.

Syntactic check, trusted as such: it sees the text of the named functions, not what they call.  Core Lean only.
-/
import Goat.Tie.ExtractedPipeC14

set_option maxRecDepth 8192

namespace Goat.Tie.PipeC14
open Goat.Tie.ExtractedPipeC14

/-- position of a line -/
def pos (s : String) (l : List String) : Nat := l.idxOf s

/-! ### The runner goroutine (`PC`, `stepTask`) -/

/-- `Runner.Run(pip)` — model: `stepMain … .create` / `canCreate`, events `acc` / `rej`: the manager of the
scope the task is submitted into decides (`TasksUnit.FromScope(pip.Context.Scope)` then `Create`); a refusal is
RETURNED and no goroutine is started; only an accepted task gets its runner goroutine (`go runGo`), and `Run`
returns nil at once (the submitter does not wait for the body). -/
theorem tie_run_creates_then_spawns :
    runnerRun =
      ["if v1, err = recv.deps.SandboxesManager.Get(p1.Sandbox); err != nil => return err",
       "if v2, err = recv.deps.TasksUnit.FromScope(p1.Context.Scope); err != nil => return err",
       "if v3, err = v2.Create(p1); err != nil => return err",
       "go recv.runGo(v2, v1, v3)",
       "return nil"] := by
  rfl

def expectedRunGo : List String :=
  ["defer p3.Close()",
   "v1 = gio.NewChildIOContext(p3.IOContext(), gio.ChildIOContextParams{})",
   "defer v1.Close()",
   "if err = recv.waitForTasks(p3, p1); err != nil",
   "v1.Scope().AppendError(err)",
   "return",
   "end",
   "v2 = recv.deps.SharedMutex.Lock(p3.LockMap())",
   "defer v2.Unlock()",
   "if err = p2.Run(v1); err != nil",
   "v1.Scope().AppendError(err)",
   "return",
   "end",
   "if err = v1.Scope().Wait(); err != nil",
   "v1.Scope().AppendError(err)",
   "return",
   "end"]

/-- `Runner.runGo(tasksManager, sandbox, task)`, whole body — model: `PC.waiting → run → … → closing → finished`,
hypotheses of `body_after_waits` / `no_body_after_failed_prereq`:
  1. `defer task.Close()` is the FIRST statement: the completion latch is released on every path, after
     everything else (`PC.closing → finished`, event `done`);
  2. the body runs in a CHILD IO context of the task's (`gio.NewChildIOContext`), closed on every path;
  3. `waitForTasks` comes first, and its error is appended to that context's scope and the goroutine RETURNS:
     no command of the body runs after a failed prerequisite, and the task ends failed
     (`.waiting k → .closing false` with `cerr` set);
  4. only then `SharedMutex.Lock(task.LockMap())` with the `Unlock` deferred at once (waiting BEFORE locking is
     what C15's `tasks_deadlock_free` needs; here the lock maps are empty);
  5. `sandbox.Run(childCtx)` — the body (`RunLoop`); its error is appended (`ret … false` + `cerr`);
  6. then `childCtx.Scope().Wait()`: everything the body started below its context has finished before the
     task closes; an error is appended.
Status texts and progress output are not compared. -/
theorem tie_rungo_order : runGo = expectedRunGo := by rfl

/-- the same as separate order statements about the extracted body (what `body_after_waits` and C15 use) -/
theorem tie_rungo_waits_before_lock_before_body :
    runGo.head? = some "defer p3.Close()"
    ∧ pos "if err = recv.waitForTasks(p3, p1); err != nil" runGo < pos "v2 = recv.deps.SharedMutex.Lock(p3.LockMap())" runGo
    ∧ (runGo.drop (pos "if err = recv.waitForTasks(p3, p1); err != nil" runGo)).take 4 =
        ["if err = recv.waitForTasks(p3, p1); err != nil", "v1.Scope().AppendError(err)", "return", "end"]
    ∧ pos "v2 = recv.deps.SharedMutex.Lock(p3.LockMap())" runGo + 1 = pos "defer v2.Unlock()" runGo
    ∧ pos "defer v2.Unlock()" runGo < pos "if err = p2.Run(v1); err != nil" runGo
    ∧ pos "if err = p2.Run(v1); err != nil" runGo < pos "if err = v1.Scope().Wait(); err != nil" runGo
    ∧ (runGo.filter (· == "v1.Scope().AppendError(err)")).length = 3 := by
  decide

/-- `Runner.waitForTasks(task, tasksManager)`, whole body — model: `stepTask … .waiting k`: ONE loop over
`task.WaitList()` IN ORDER; each name is looked up in the manager's table (`Get`; an unknown name is an error),
the task found is awaited (`Wait` blocks until its latch is released: "`s.pc w == .finished` else none"), an
error of the wait is returned, and a prerequisite that ended with errors (`len(Errors()) != 0` = `cerr (ctx w)`)
makes the loop RETURN an error ("prerequisite failed"); nil only after the whole list.  No entry is skipped.
`Get` reads the table under the read lock; `Task.Errors` is the error list of the task's scope. -/
theorem tie_waitfortasks_loop :
    waitForTasks =
      ["range _, v1 = p1.WaitList()",
       "if v2, v3 = p2.Get(v1); !v3 => return error",
       "if err = v2.Wait(); err != nil => return err",
       "if len(v2.Errors()) != 0 => return error",
       "end",
       "return nil"]
    ∧ managerGet =
      ["recv.tasksMU.RLock()", "defer recv.tasksMU.RUnlock()", "r1, r2 = recv.tasks[p1]", "return"]
    ∧ taskErrors = ["return recv.ctx.Scope().Errors()"] :=
  ⟨rfl, rfl, rfl⟩

/-! ### `TaskManager.Create` (`canCreate`, `validWL`, `PC.rejected`) -/

def expectedCreate : List String :=
  ["v1 = p1.Context.Scope",
   "if err = v1.AddTasks(1); err != nil => return nil, error",
   "defer func()",
   "func()",
   "if err != nil",
   "v1.DoneTask()",
   "end",
   "end func",
   "recv.tasksMU.Lock()",
   "defer recv.tasksMU.Unlock()",
   "if _, v3 = recv.tasks[v2]; v3 => return nil, error",
   "v4 = scope.NewChild(v1, scope.ChildParams{})",
   "if err = recv.deps.NamespacesUnit.Define(v4, v5); err != nil",
   "v4.Close()",
   "return nil, err",
   "end",
   "v7 = NewTask(v6, p1, recv.statusBroadcast, recv.doneTask)",
   "v7.afterCloseCB = v1.DoneTask",
   "if err = v7.OBroadcast().Add(v8); err != nil",
   "v4.Close()",
   "return nil, err",
   "end",
   "recv.tasks[v2] = v7",
   "if err = recv.validWaitList([]string{v2}, v7, 100); err != nil",
   "delete(recv.tasks, v2)",
   "v4.Close()",
   "return nil, err",
   "end",
   "if err = recv.rootScope.AddTasks(1); err != nil",
   "delete(recv.tasks, v2)",
   "v4.Close()",
   "return nil, err",
   "end",
   "recv.wg.Add(1)",
   "return v7, nil"]

/-- `TaskManager.Create(pip)`, filtered to the scope sign-on, the table, the task scope, the latch — model:
`canCreate` = `validWL (inTable …) … && !cerr 0 && submitCtxOk`, and `PC.rejected` ("Create refused the submission
and forgot it"):
  1. the task SIGNS ON to the scope it is submitted into FIRST (`parentScope = pip.Context.Scope`,
     `parentScope.AddTasks(1)`; a done scope refuses: `submitCtxOk`; fix f3af5ac), and signs off again when
     `Create` returns an error (the deferred function) — otherwise after the task scope has closed
     (`task.afterCloseCB = parentScope.DoneTask`);
  2. under the table lock: a DUPLICATE name is refused before anything is inserted;
  3. the task scope is a child of that scope with no context of its own (`scope.ChildParams{}` apart from the
     label: `TaskDef.ctx` = the parent's context), closed again on every error path;
  4. the task is created with `manager.doneTask` as its close callback, inserted, and THEN the wait list is
     validated against the table (`validWaitList([name], task, 100)`: existing tasks only, `validWL` with fuel 101);
  5. on BOTH error paths after the insertion the entry is deleted again and the task scope closed (fix a91657e:
     `reject_leaves_latch` is the model of the code without the `delete`);
  6. the root scope must take the task too (`rootScope.AddTasks(1)`: `!cerr 0`);
  7. the manager's wait group is armed exactly ONCE, after the last refusal, right before `return task, nil`
     (`allFinished` counts accepted tasks only).
`validWaitList(path, task, counter)`: depth bound, empty list accepted, and for each name IN ORDER: the name of
the submitted task itself is a circle, a name that is not in the table is refused, the named task's own list is
checked recursively with the counter decremented.  `doneTask` releases the manager's wait group and signs off
from the root scope. -/
theorem tie_create_validates_then_registers :
    create = expectedCreate
    ∧ validWaitList =
      ["if p3 < 0 => return error",
       "if len(p2.WaitList()) == 0 => return nil",
       "range _, v1 = p2.WaitList()",
       "if v1 == p1[0] => return error",
       "if v2 = recv.tasks[v1]; v2 == nil => return error",
       "if err = recv.validWaitList(append(p1, v1), v2, p3 - 1); err != nil => return err",
       "end",
       "return nil"]
    ∧ managerDoneTask = ["recv.wg.Done()", "recv.rootScope.DoneTask()"] :=
  ⟨rfl, rfl, rfl⟩

/-- the clauses of `tie_create_validates_then_registers` about ORDER and about the error paths, as separate
statements on the extracted skeleton: sign-on before the table lock; duplicate test before the insertion;
insertion before validation; exactly two `delete`s, one in each `if` after the insertion; exactly one
`wg.Add(1)`, and it is the last statement before the successful return. -/
theorem tie_create_error_paths_forget :
    pos "if err = v1.AddTasks(1); err != nil => return nil, error" create < pos "recv.tasksMU.Lock()" create
    ∧ pos "if _, v3 = recv.tasks[v2]; v3 => return nil, error" create < pos "recv.tasks[v2] = v7" create
    ∧ pos "recv.tasks[v2] = v7" create + 1 = pos "if err = recv.validWaitList([]string{v2}, v7, 100); err != nil" create
    ∧ (create.drop (pos "recv.tasks[v2] = v7" create + 1)).take 10 =
        ["if err = recv.validWaitList([]string{v2}, v7, 100); err != nil",
         "delete(recv.tasks, v2)", "v4.Close()", "return nil, err", "end",
         "if err = recv.rootScope.AddTasks(1); err != nil",
         "delete(recv.tasks, v2)", "v4.Close()", "return nil, err", "end"]
    ∧ (create.filter (· == "delete(recv.tasks, v2)")).length = 2
    ∧ (create.filter (· == "recv.wg.Add(1)")).length = 1
    ∧ create.drop (pos "recv.wg.Add(1)" create) = ["recv.wg.Add(1)", "return v7, nil"] := by
  decide

/-- A task scope shares its parent's context — model: `TaskDef.ctx` ("context (error list) the task's scope
shares"), `roleOk … .child: d.ctx == g.ctx p`: `scope.NewChild` signs the child on to the parent
(`parent.AddTasks(1)`; unregistered when refused, and then without a parent to sign off from) and a child created
without a `ContextScope` gets `parent.BaseContextScope()`.  `Scope.AddTasks` refuses when the scope is done and arms
the scope's wait group otherwise; `DoneTask` releases it; `Scope.Wait` waits for it and THEN reads the error. -/
theorem tie_task_scope_shares_context :
    scopeNewChild =
      ["if v1 = p1.AddTasks(1); v1 != nil",
       "end",
       "if p2.ContextScope == nil",
       "p2.ContextScope = p1.BaseContextScope()",
       "end",
       "if !v2 => return &Scope{ContextScope: p2.ContextScope, parent: nil}",
       "return &Scope{ContextScope: p2.ContextScope, parent: p1}"]
    ∧ scopeAddTasks = ["if recv.IsDone() => return ErrDoned", "recv.wg.Add(p1)", "return nil"]
    ∧ scopeDoneTask = ["recv.wg.Done()"]
    ∧ scopeWait = ["recv.wg.Wait()", "return recv.Err()"] :=
  ⟨rfl, rfl, rfl, rfl⟩

/-! ### The manager's `Wait` and the completion latch (`allFinished`, `tableOk`, `PC.finished`) -/

/-- `TaskManager.Wait()`, whole body — model: `stepMain … .wait` (`mwait (tableOk g s)` once `allFinished`), theorem
`manager_error_iff_some_failed`: FIRST the manager's wait group (every accepted task has released its latch),
and only then — under the table's read lock, so `Create` is never blocked by a waiting `Wait` — every task of the
table is asked (`task.Wait()` = its scope's error) and the errors are collected: the result is an error iff some
task of the table has errors (`goaterr.ToError` of the collected list). -/
theorem tie_manager_wait :
    managerWait =
      ["recv.wg.Wait()",
       "recv.tasksMU.RLock()",
       "defer recv.tasksMU.RUnlock()",
       "range _, v1 = recv.tasks",
       "v2 = goaterr.AppendError(v2, v1.Wait())",
       "end",
       "return goaterr.ToError(v2)"] := by
  rfl

/-- `Task.Close()` / `Task.Wait()` and the latches of package `tasks` — model: "releasing the completion latch,
closing the task scope and the `done` event are one step" (`.closing → .finished`), `waiting k` reads
`s.pc w == .finished`:
  * `Close`: the task's OWN wait group is released first, then the close callback (the manager's `doneTask`),
    then the task scope is closed (its error is the result), and AFTER that the task signs off from the scope it
    was started in (`afterCloseCB`);
  * `Wait`: waits for that wait group, then returns the scope's error;
  * in the whole package the task latch is armed once (`NewTask`), released once (`Task.Close`), awaited in
    `Task.Wait`; the manager's is armed once (`Create`), released once (`doneTask`), awaited in `TaskManager.Wait`;
  * `NewTask` stores its fourth parameter as the close callback; `Create` sets the after-close callback. -/
theorem tie_task_wait_close :
    taskClose =
      ["recv.wg.Done()",
       "if recv.closeCB != nil",
       "recv.closeCB()",
       "end",
       "err = recv.ctx.Scope().Close()",
       "if recv.afterCloseCB != nil",
       "recv.afterCloseCB()",
       "end",
       "return err"]
    ∧ taskWait = ["recv.wg.Wait()", "return recv.ctx.Scope().Err()"]
    ∧ latchCalls =
      ["NewTask: v1.wg.Add(1)",
       "Task.Close: recv.wg.Done()",
       "Task.Wait: recv.wg.Wait()",
       "TaskManager.Create: recv.wg.Add(1)",
       "TaskManager.Wait: recv.wg.Wait()",
       "TaskManager.doneTask: recv.wg.Done()"]
    ∧ closeCallbacks =
      ["NewTask: v1 = &Task{closeCB: p4}",
       "Task.Close: if recv.closeCB != nil",
       "Task.Close: recv.closeCB()",
       "Task.Close: end",
       "Task.Close: if recv.afterCloseCB != nil",
       "Task.Close: recv.afterCloseCB()",
       "Task.Close: end",
       "TaskManager.Create: v2.afterCloseCB = v1.DoneTask"] :=
  ⟨rfl, rfl, rfl, rfl⟩

/-! ### The body: `RunLoop`, `RunCommand`, `pip:run` (`PC.run / inCmd / afterCmd`, `stepStop`) -/

def expectedRunLoop : List String :=
  ["v1 = p1.ctx.IO().In()",
   "v2 = p1.ctx.IO().Out()",
   "v3 = make(chan []string, 1)",
   "v4 = make(chan error, 1)",
   "v5 = make(chan struct{}, 1)",
   "go func()",
   "func()",
   "for",
   "select",
   "case <-p1.ctx.Scope().Done()",
   "return",
   "case _, v6 = <-v5",
   "if !v6 => return",
   "for",
   "if v7, v8, err2 = varutil.ReadArguments(v1); err2 != nil",
   "v4 <- err2",
   "return",
   "end",
   "if len(v7) != 0",
   "break",
   "end",
   "if v8",
   "close(v3)",
   "return",
   "end",
   "end",
   "v3 <- v7",
   "if v8",
   "close(v3)",
   "return",
   "end",
   "end",
   "end",
   "end func",
   "defer func()",
   "func()",
   "close(v5)",
   "end func",
   "for",
   "v5 <- struct{}{}",
   "select",
   "case <-p1.ctx.Scope().Done()",
   "return",
   "case err = <-v4",
   "p1.ctx.Scope().AppendError(err)",
   "return",
   "case v9, v10 = <-v3",
   "if !v10 => return",
   "if err = RunCommand(p1, v9); err != nil",
   "p1.ctx.Scope().AppendError(err)",
   "return",
   "end",
   "end",
   "end"]

/-- `termexec.RunLoop(rctx, prompt)`, whole body — model: `.run i → .inCmd i → .afterCmd i → .run (i+1)`, `stepStop`,
theorem `commands_in_order_stop_at_first_failure`:
  * the READER goroutine hands over ONE command per token on `next`, read from the one input stream in order
    (`argChan` has capacity 1; it is closed at end of input), and stops when the scope is done; a READ error (the
    text ends inside a quoted argument …) is handed to the main loop (`errChan`), which appends it to the scope and
    returns — the reader itself never touches the scope, which may be closed by then (`Cmd.fail`);
  * the MAIN loop: one token, then a `select` between the scope's `Done()` (→ return: `Label.stop`, a free choice
    once the context has failed) and the next command; end of input → return (`.closing true`);
    `RunCommand(rctx, args)` runs the command to its end BEFORE the next token is given, and a FAILING command's
    error is appended to the scope and the loop RETURNS — no later command is fetched (`.closing false`).
The prompt output is not compared. -/
theorem tie_runloop_stops_at_first_failure : runLoop = expectedRunLoop := by rfl

/-- the main loop's failing branch, as a separate statement: the `RunCommand` line is followed by
`AppendError`, `return`; both loops test `Done()`; there is exactly one call of `RunCommand`. -/
theorem tie_runloop_failure_branch :
    (runLoop.drop (pos "if err = RunCommand(p1, v9); err != nil" runLoop)).take 4 =
      ["if err = RunCommand(p1, v9); err != nil", "p1.ctx.Scope().AppendError(err)", "return", "end"]
    ∧ (runLoop.filter (· == "case <-p1.ctx.Scope().Done()")).length = 2
    ∧ (runLoop.filter (· == "if err = RunCommand(p1, v9); err != nil")).length = 1
    ∧ pos "v5 <- struct{}{}" runLoop < pos "case v9, v10 = <-v3" runLoop := by
  decide

/-- `termexec.RunCommand(rctx, args)`, filtered to the command scope — model: `.afterCmd i` ("RunCommand closes
the command scope (waits for its children)", `cmdChildrenFinished`): the callback runs in a context whose scope
is a CHILD of the loop's scope (no context of its own; data and events of the parent; injectors reset to the
application + the command's arguments), and on BOTH paths the command scope is closed before `RunCommand`
returns — `Close` waits for everything that signed on to it (a nested `pip:run` task, a try goroutine). -/
theorem tie_runcommand_scope :
    runCommand =
      ["if v2 = p1.commands.Command(v1); v2 == nil => return error",
       "v3 = p1.ctx.Scope()",
       "v5 = scope.NewChild(v3, scope.ChildParams{DataScope: v3.BaseDataScope(), EventScope: v3.BaseEventScope(), Injector: injector.NewMultiInjector([]app.Injector{p1.application, datascope.NewInjector(\"command\", v4)})})",
       "v6 = gio.NewIOContext(v5, p1.ctx.IO())",
       "if err = v2.Callback()(p1.application, v6); err != nil => return goaterr.ToError(goaterr.AppendError([]error{err}, v5.Close()))",
       "return v5.Close()"] := by
  rfl

/-- `pipc.Run` (`pip:run`), its submission — model: `Cmd.spawn c`, `Role.child p i`, `waitOk`: the nested task is
submitted (`Runner.Run`, whose result is the command's result: `ret … ok`) INTO THE SCOPE OF THE COMMAND
(`Scope: ctx.Scope()`: it hangs below command `i` of its parent), under the name given, with the body text as its
input, and its wait list is the given names prefixed with the task prefix of the scope's namespaces (siblings
only). -/
theorem tie_piprun_submission :
    pipRun =
      ["submit v1.Runner.Run(pipservices.Pip{Context: pipservices.PipContext{In: gio.NewInput(strings.NewReader(v1.Body)), Scope: p2.Scope()}, Lock: v2, Name: v1.Name, Wait: v3})",
       "v2 = commservices.LockMap{}",
       "v1.Name = strings.Trim(v1.Name, cutset)",
       "v1.Body = strings.Trim(v1.Body, cutset)",
       "v4, err = v1.NamespacesUnit.FromScope(p2.Scope(), defaultNamespace)",
       "v5 = v4.Task()",
       "v5 = v5 + \":\"",
       "v3, err = splitWaitNames(v5, v1.Wait)"] := by
  rfl

/-- What the HARNESS of the pipeline checks relies on (not an assumption of the model): the task scope is created
with the label `task:<full name>`; the label goes into the scope's SID, from which `harness/cmd/pipeline`
(drive.go, `taskSID`) reads which task an event belongs to.  If this moves, the recorded traces are attributed
to the wrong tasks and the monitor's verdicts are about the harness, not about the code. -/
theorem tie_task_scope_label : taskScopeLabel = ["Name: fmt.Sprintf(\"task:%s\", v1)"] := by rfl

end Goat.Tie.PipeC14
