/-
Structural tie for property C16 (DESIGN 1.4), pipeline family: `pip:try`.

`Goat/Tie/ExtractedPipeC16.lean` is regenerated on every run of `./check C16` by `harness/cmd/pipefacts facts C16`
(go/ast) from the Go sources of the repository under test: facts about `pipc.Try` (try.go) — the function the
try part of `Goat/Model/Pipeline.lean` mirrors (`TG`, `stepTry`, `submitHandler`, the `.try_` branch of `stepTask`) —
and about what it leans on (`scope.New`, `scope.Scope.Wait` / `AddTasks` / `DoneTask`, `termexec.RunCommand`).  The
theorems below compare them with what the header comments of that model and the hypotheses of `Props/C16.lean`
assume, one theorem per assumption, and fail BY NAME when the skeleton moves.  A failing theorem is a broken
obligation of the check (DESIGN 1.3): it is followed by the check's search for a failing input and ends as
`VIOLATION … no-failing-input-found` when there is none.

Normal forms: see the header of `Goat/Tie/PipeC14.lean` (locals `v1 v2 …` per declaration in the order of first
appearance in the printed lines of THE FACT, parameters `p1 p2 …`, error variables `err err2 …`: in `Try` the named
result is `err` and `catchErr` is `err2`).  Facts about SUBMISSIONS — calls `x.Run(pipservices.Pip{…})` — print per
submission one line (`"name" in <Context.Scope>`, `"name" ns <Namespaces>`; these lines in alphabetical order: which
submission comes first is the subject of `tie_try_handler_order_and_selection`) and then the DEFINITION CLOSURE of
the locals mentioned: every assignment of the function to one of them (or to a mentioned field of one of them), in
source order, recursively.  THE GOROUTINE is the function literal of the `go` statement at the top level of `Try`.  In the
filtered facts `pipservices.Pip` literals are projected onto the fields named in the fact's description: the
output streams, the working directory and the description of a submission are not compared.

Syntactic check, trusted as such.  Core Lean only.
-/
import Goat.Tie.ExtractedPipeC16

set_option maxRecDepth 8192

namespace Goat.Tie.PipeC16
open Goat.Tie.ExtractedPipeC16

/-- position of a line -/
def pos (s : String) (l : List String) : Nat := l.idxOf s

/-- The body runs in a SEPARATED scope — model: `TaskDef.ctx` of a `tbody` is `y + 1` (`roleOk`), `submitCtxOk …
.tbody => true` ("the separated scope, whose context is fresh"), theorem `body_failure_contained`: before the
goroutine is started there is exactly ONE submission, named "body", into a scope made by `scope.New` from
`parentScope = ctx.Scope()` with the parent as DataScope, EventScope and (only) injector and with NO
`ContextScope` — and `scope.New` gives a scope without one a new `contextscope.New()`: an error of the body, or of
anything the body starts, lands in that private context and not in the parent's. -/
theorem tie_try_separated_scope :
    tryBodyScope =
      ["\"body\" in v1",
       "v2 = p2.Scope()",
       "v1 = scope.New(scope.Params{DataScope: v2, EventScope: v2, Injector: injector.NewMultiInjector([]app.Injector{v2})})"]
    ∧ scopeNew =
      ["if p1.ContextScope == nil",
       "p1.ContextScope = contextscope.New()",
       "end",
       "return &Scope{ContextScope: p1.ContextScope}"] :=
  ⟨rfl, rfl⟩

/-- The try block signs on to the scope of the `pip:try` command — model: the `.try_` branch of `stepTask`
("parentScope.AddTasks(1) refuses when the owner's context is done"), `TG.done` = `parentScope.DoneTask()`,
`cmdChildrenFinished … .try_`: `parentScope.AddTasks(1)` — its refusal is returned — comes BEFORE the body is
submitted; when the body's submission is refused the sign-on is undone (`DoneTask`) and the error returned
(`ret … false`); otherwise the goroutine is started and signs off with a DEFERRED `parentScope.DoneTask()`, i.e.
after the last handler has been submitted or refused; `Try` itself returns nil.  So the command scope (closed by
`RunCommand`) waits for the goroutine, and a handler is submitted into a scope that is still open. -/
theorem tie_try_parent_signed_on :
    tryParentSignOn =
      ["if err = v1.AddTasks(1); err != nil => return err",
       "if err = v2.Runner.Run(pipservices.Pip{Name: \"body\"}); err != nil",
       "v1.DoneTask()",
       "return err",
       "end",
       "go func()",
       "func()",
       "defer v1.DoneTask()",
       "end func",
       "return nil"]
    ∧ scopeAddTasks = ["if recv.IsDone() => return ErrDoned", "recv.wg.Add(p1)", "return nil"]
    ∧ scopeDoneTask = ["recv.wg.Done()"] :=
  ⟨rfl, rfl, rfl⟩

/-- The handlers come after the body and everything it spawned — model: `TG.waitBody` (`stepTry`: "if s.pc body ==
.finished"), theorems `handlers_after_body_and_spawned`, `handlers_submitted_after_body`: the first call the
goroutine makes is `Wait()` ON THE SCOPE THE BODY WAS SUBMITTED INTO (`v1` in both lines), its result is what
the selection reads (`err2` = `catchErr`), and all three submissions come after it.  `Scope.Wait` waits for the
scope's wait group — the body task and every task signed on below it — and only THEN reads the error. -/
theorem tie_try_handlers_after_body_wait :
    tryAfterBodyWait =
      ["\"body\" in v1",
       "go: err2 = v1.Wait()",
       "go: err = v2.Runner.Run(pipservices.Pip{})",
       "go: err = v2.Runner.Run(pipservices.Pip{})",
       "go: err = v2.Runner.Run(pipservices.Pip{})"]
    ∧ scopeWait = ["recv.wg.Wait()", "return recv.Err()"] :=
  ⟨rfl, rfl⟩

def refused : List String := ["v2.BaseContextScope().AppendError(err)", "return", "end"]

def handlerRun (body name : String) : String :=
  "if err = v1.Runner.Run(pipservices.Pip{Context: pipservices.PipContext{In: gio.NewInput(strings.NewReader(v1." ++ body ++
    "))}, Lock: nil, Name: \"" ++ name ++ "\", Wait: nil}); err != nil"

def expectedHandlers : List String :=
  ["if v1.FinallyBody != \"\"", handlerRun "FinallyBody" "finally"] ++ refused ++ ["end"] ++
  ["if v1.FailBody != \"\" && err2 != nil", handlerRun "FailBody" "fail"] ++ refused ++ ["end"] ++
  ["if v1.SuccessBody != \"\" && err2 == nil", handlerRun "SuccessBody" "success"] ++ refused ++ ["end"]

/-- Which handlers, in which order — model: `TG.subFin → subFail → subSucc → done`, `submitHandler`, theorems
`finally_always`, `finally_submitted_first`, `fail_iff_body_err`, `success_iff_body_ok`: the goroutine makes its
submissions in this order and under exactly these conditions:
  1. "finally", whenever a finally body is defined — UNCONDITIONALLY of the body's outcome, and FIRST;
  2. "fail" iff a fail body is defined and `catchErr != nil`;
  3. "success" iff a success body is defined and `catchErr == nil`;
each handler reads ITS OWN body text, has no wait list and no lock map (`roleOk`: `d.waits.isEmpty` — no handler
queues behind another one: `stall_free`), and a REFUSED submission is recorded with `AppendError` on the parent
scope's base context (`hrej`, `cerr (ctx owner)`) and the goroutine returns: no later handler is submitted
(`tg := .done`). -/
theorem tie_try_handler_order_and_selection : tryHandlers = expectedHandlers := by decide

/-- Handlers run in the PARENT scope — model: `roleOk … .hsucc / .hfail / .hfin: d.ctx == g.ctx owner`, theorem
`body_failure_contained` ("only a handler failure appends"): the goroutine makes exactly three submissions,
"finally", "fail", "success", each with `Scope: parentScope` where `parentScope = ctx.Scope()` — the scope of the
`pip:try` command, which shares the owner task's context.  That is why a failing HANDLER (and only a handler)
marks the surrounding scope. -/
theorem tie_try_handlers_in_parent_scope :
    tryHandlerScopes =
      ["\"fail\" in v1",
       "\"finally\" in v1",
       "\"success\" in v1",
       "v1 = p2.Scope()"] := by
  rfl

/-- One namespace for the body and the handlers of a try block — model: the four tasks of a `TryDef` are distinct
tasks of ONE try (`tryOk`), named `<try>:body`, `<try>:finally`, …: all four submissions use the same
`Namespaces` value, the sub-namespace `Task: deps.Name` of the namespaces of the command's scope, so two try blocks
with different names never collide in the manager's table. -/
theorem tie_try_one_namespace :
    tryNamespaces =
      ["\"body\" ns v1",
       "\"fail\" ns v1",
       "\"finally\" ns v1",
       "\"success\" ns v1",
       "v2.Name = strings.Trim(v2.Name, cutset)",
       "v1, err = v2.NamespacesUnit.FromScope(p2.Scope(), defaultNamespace)",
       "v1 = namespaces.NewSubNamespaces(v1, pipservices.NamasepacesParams{Task: v2.Name})"] := by
  rfl

/-- `termexec.RunCommand(rctx, args)`, filtered to the command scope — model: `.afterCmd i` with
`cmdChildrenFinished … .try_` (`tg y == .done`, body and accepted handlers finished), theorem
`accepted_handlers_close_before_owner_leaves`: the `pip:try` callback runs in a context whose scope is a CHILD of
the loop's scope (no context of its own: it shares the owner task's; injectors reset to the application + the
command's arguments), and on BOTH paths that scope is closed before `RunCommand` returns — `Close` waits for the
try goroutine (signed on by `AddTasks(1)`) and for every handler task (signed on by `Create`). -/
theorem tie_runcommand_scope :
    runCommand =
      ["if v2 = p1.commands.Command(v1); v2 == nil => return error",
       "v3 = p1.ctx.Scope()",
       "v5 = scope.NewChild(v3, scope.ChildParams{DataScope: v3.BaseDataScope(), EventScope: v3.BaseEventScope(), Injector: injector.NewMultiInjector([]app.Injector{p1.application, datascope.NewInjector(\"command\", v4)})})",
       "v6 = gio.NewIOContext(v5, p1.ctx.IO())",
       "if err = v2.Callback()(p1.application, v6); err != nil => return goaterr.ToError(goaterr.AppendError([]error{err}, v5.Close()))",
       "return v5.Close()"] := by
  rfl

/-- What the HARNESS of the pipeline checks relies on (not an assumption of the model): the task scope is created
with the label `task:<full name>`; the label goes into the scope's SID, from which `harness/cmd/pipeline`
(drive.go, `taskSID`) reads which task an event belongs to.  If this moves, the recorded traces are attributed
to the wrong tasks and the monitor's verdicts are about the harness, not about the code. -/
theorem tie_task_scope_label : taskScopeLabel = ["Name: fmt.Sprintf(\"task:%s\", v1)"] := by rfl

end Goat.Tie.PipeC16
