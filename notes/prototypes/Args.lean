/- prototype: varutil.ReadArguments (repaired) as a byte state machine, and the quoted round trip -/
namespace A

abbrev Byte := UInt8
abbrev Bytes := List Byte

def sp : Byte := 32
def tab : Byte := 9
def nl : Byte := 10
def dq : Byte := 34
def bs : Byte := 92
def lt : Byte := 60
def eq : Byte := 61

inductive Outcome where
  | ok (args : List Bytes) (eof : Bool) (rest : Bytes)
  | err (eofSeen : Bool)
  | panic
  | heredoc (args : List Bytes) (rest : Bytes)   -- stub: the heredoc branch was entered
deriving Repr, DecidableEq

/-- parser state: finished args (in order), current arg (none = no arg yet) -/
structure St where
  done : List Bytes
  cur  : Option Bytes
  esc  : Bool
  sep  : Bool
deriving Repr

def St.args (s : St) : List Bytes :=
  match s.cur with
  | none => s.done
  | some c => s.done ++ [c]

/-- `if isSeparated { args = append(args, "") }` -/
def St.open (s : St) : St :=
  if s.sep then { s with done := s.args, cur := some [] } else s

def endsEqLt (c : Bytes) : Bool := c.reverse.take 2 == [lt, eq]

mutual
def mainLoop : St → Bytes → Outcome
  | s, [] => .ok s.args true []
  | s, ch :: rest =>
    if ch = nl then
      if s.esc then mainLoop { s with esc := false } rest else .ok s.args false rest
    else if ch = sp ∨ ch = tab then mainLoop { s with esc := false, sep := true } rest
    else if ¬ s.esc ∧ ch = bs then mainLoop { s with esc := true } rest
    else
      let s' := s.open
      match s'.cur with
      | none => .panic                      -- args[len(args)-1] with no args
      | some c =>
        if ¬ s'.esc ∧ ch = dq then quoteLoop s'.done c false rest
        else if ¬ s'.esc ∧ ch = lt ∧ endsEqLt (c ++ [ch]) then .heredoc s'.args rest
        else mainLoop { s' with cur := some (c ++ [ch]), esc := false, sep := false } rest
def quoteLoop : List Bytes → Bytes → Bool → Bytes → Outcome
  | _, _, _, [] => .err true
  | done, c, esc, ch :: rest =>
    if ¬ esc ∧ ch = dq then mainLoop { done := done, cur := some c, esc := false, sep := false } rest
    else if ch = bs then quoteLoop done c true rest
    else quoteLoop done (c ++ [ch]) false rest
end

def readArgs (input : Bytes) : Outcome :=
  mainLoop { done := [], cur := none, esc := false, sep := true } input

/-- reference quoting of one byte inside an open quote -/
def escByte (b : Byte) : Bytes :=
  if b = dq then [bs, dq]
  else if b = bs then [dq, bs, bs, dq]      -- close quote, emit `\\` outside, reopen
  else [b]

def renderBody (a : Bytes) : Bytes := a.flatMap escByte
def render (a : Bytes) : Bytes := dq :: renderBody a ++ [dq]

/-- inside a quote: consuming the rendered body and the closing quote appends exactly `a` -/
theorem quote_body (done : List Bytes) (c a tail : Bytes) :
    quoteLoop done c false (renderBody a ++ dq :: tail)
      = mainLoop { done := done, cur := some (c ++ a), esc := false, sep := false } tail := by
  induction a generalizing c with
  | nil => simp [renderBody, quoteLoop]
  | cons b a ih =>
    have hcons : renderBody (b :: a) = escByte b ++ renderBody a := by simp [renderBody]
    rw [hcons]
    by_cases hq : b = dq
    · subst hq
      have : escByte dq = [bs, dq] := by decide
      rw [this]
      have h1 : (bs = dq) = False := by decide
      simp only [List.cons_append, List.nil_append]
      have h2 : (dq = bs) = False := by decide
      rw [quoteLoop]; simp [h1]
      rw [quoteLoop]; simp [h2]
      have := ih (c ++ [dq])
      simpa using this
    · by_cases hb : b = bs
      · subst hb
        have : escByte bs = [dq, bs, bs, dq] := by decide
        rw [this]
        simp only [List.cons_append, List.nil_append]
        rw [quoteLoop]; simp
        -- now outside the quote: `\\` then `"`
        have hnl : (bs = nl) = False := by decide
        have hsp : (bs = sp) = False := by decide
        have htab : (bs = tab) = False := by decide
        have hdq : (bs = dq) = False := by decide
        have hlt : (bs = lt) = False := by decide
        rw [mainLoop]; simp [hnl, hsp, htab]
        rw [mainLoop]; simp [hnl, hsp, htab, St.open, hdq, hlt]
        have hdnl : (dq = nl) = False := by decide
        have hdsp : (dq = sp) = False := by decide
        have hdtab : (dq = tab) = False := by decide
        have hdbs : (dq = bs) = False := by decide
        rw [mainLoop]; simp [hdnl, hdsp, hdtab, hdbs, St.open]
        have := ih (c ++ [bs])
        simpa using this
      · have : escByte b = [b] := by simp [escByte, hq, hb]
        rw [this]
        simp only [List.cons_append, List.nil_append]
        rw [quoteLoop]; simp [hq, hb]
        have := ih (c ++ [b])
        simpa using this

#print axioms quote_body

/-- one rendered argument, read from a separated state, becomes exactly one new argument -/
theorem one_arg (done : List Bytes) (cur : Option Bytes) (a tail : Bytes) :
    mainLoop { done := done, cur := cur, esc := false, sep := true } (render a ++ tail)
      = mainLoop { done := (St.args { done := done, cur := cur, esc := false, sep := true }),
                   cur := some a, esc := false, sep := false } tail := by
  have hdnl : (dq = nl) = False := by decide
  have hdsp : (dq = sp) = False := by decide
  have hdtab : (dq = tab) = False := by decide
  have hdbs : (dq = bs) = False := by decide
  simp only [render, List.cons_append, List.append_assoc, List.singleton_append]
  rw [mainLoop]; simp [hdnl, hdsp, hdtab, hdbs, St.open]
  have := quote_body (St.args { done := done, cur := cur, esc := false, sep := true }) [] a tail
  simpa using this

/-- all arguments: `render a₁ ␠ render a₂ ␠ … \n rest` -/
def renderLine : List Bytes → Bytes
  | [] => []
  | [a] => render a
  | a :: b :: more => render a ++ sp :: renderLine (b :: more)

theorem quoted_aux (done : List Bytes) (cur : Option Bytes) (args : List Bytes) (rest : Bytes) :
    mainLoop { done := done, cur := cur, esc := false, sep := true } (renderLine args ++ nl :: rest)
      = .ok (St.args { done := done, cur := cur, esc := false, sep := true } ++ args) false rest := by
  induction args generalizing done cur with
  | nil => simp [renderLine, mainLoop, St.args]
  | cons a more ih =>
    cases more with
    | nil =>
      simp only [renderLine]
      rw [one_arg]
      rw [mainLoop]; simp [St.args]
    | cons b more' =>
      simp only [renderLine, List.append_assoc, List.cons_append]
      rw [one_arg]
      have hnl : (sp = nl) = False := by decide
      rw [mainLoop]; simp [hnl]
      have := ih (St.args { done := done, cur := cur, esc := false, sep := true }) (some a)
      rw [this]
      simp [St.args]

theorem quoted (args : List Bytes) (rest : Bytes) :
    readArgs (renderLine args ++ nl :: rest) = .ok args false rest := by
  have := quoted_aux [] none args rest
  simpa [readArgs, St.args] using this

#print axioms quoted

/-- the panic outcome is unreachable: invariant `sep = false → cur ≠ none` -/
def Good (s : St) : Prop := s.sep = false → s.cur ≠ none

example : readArgs ([bs, 98] : Bytes) = .ok [[98]] true [] := by decide
end A
