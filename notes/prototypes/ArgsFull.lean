/- prototype: full ReadArguments model (with heredoc) + exhaustive enumeration driver -/
namespace AF

abbrev Byte := UInt8
abbrev Bytes := List Byte

def sp : Byte := 32
def tab : Byte := 9
def nl : Byte := 10
def dq : Byte := 34
def bs : Byte := 92
def lt : Byte := 60
def eq : Byte := 61

inductive Outcome where
  | ok (args : List Bytes) (eof : Bool) (rest : Bytes)
  | err (eofSeen : Bool) (rest : Bytes)
  | panic
deriving Repr, DecidableEq

structure St where
  done : List Bytes
  cur  : Option Bytes
  esc  : Bool
  sep  : Bool

def St.args (s : St) : List Bytes :=
  match s.cur with
  | none => s.done
  | some c => s.done ++ [c]

def St.open (s : St) : St :=
  if s.sep then { s with done := s.args, cur := some [] } else s

def isLetter (b : Byte) : Bool := (97 ≤ b && b ≤ 122) || (65 ≤ b && b ≤ 90) || b == 95

def endsWith (l suf : Bytes) : Bool := (l.reverse.take suf.length) == suf.reverse

def trimBlank (l : Bytes) : Bytes :=
  let f := fun (x : Bytes) => x.dropWhile (fun b => b == sp || b == tab)
  (f (f l).reverse).reverse

/-- read the heredoc tag line: returns (tag, rest) or error -/
def tagLine : Bytes → Bytes → Except Bool (Bytes × Bytes)   -- error carries eofSeen
  | _, [] => .error true
  | tag, ch :: rest =>
    if ch = nl then .ok (tag, rest)
    else if isLetter ch then tagLine (tag ++ [ch]) rest
    else if ch ≠ sp ∧ ch ≠ tab then .error false
    else tagLine tag rest

/-- read the heredoc body until the accumulated value ends with "\n"++tag -/
def bodyLoop (marker : Bytes) : Bytes → Bytes → Option (Bytes × Bytes)
  | _, [] => none
  | value, ch :: rest =>
    let v := value ++ [ch]
    if endsWith v marker then some (v.take (v.length - marker.length), rest)
    else bodyLoop marker v rest

mutual
def mainLoop : St → Bytes → Outcome
  | s, [] => .ok s.args true []
  | s, ch :: rest =>
    if ch = nl then
      if s.esc then mainLoop { s with esc := false } rest else .ok s.args false rest
    else if ch = sp ∨ ch = tab then mainLoop { s with esc := false, sep := true } rest
    else if ¬ s.esc ∧ ch = bs then mainLoop { s with esc := true } rest
    else
      let s' := s.open
      match s'.cur with
      | none => .panic
      | some c =>
        if ¬ s'.esc ∧ ch = dq then quoteLoop s'.done c false rest
        else if ¬ s'.esc ∧ ch = lt ∧ endsWith c [eq, lt] then
          match tagLine [] rest with
          | .error e => .err e []
          | .ok (tag, rest1) =>
            if tag = [] then .err false rest1
            else match bodyLoop (nl :: tag) [] rest1 with
              | none => .err true []
              | some (value, rest2) =>
                if rest2.length < rest.length then   -- always true; keeps the recursion structural-by-measure
                  mainLoop { s' with cur := some (c.take (c.length - 1) ++ trimBlank value) } rest2
                else .panic
        else mainLoop { s' with cur := some (c ++ [ch]), esc := false, sep := false } rest
termination_by _ inp => (inp.length, 0)
decreasing_by all_goals simp_wf <;> first | omega | (apply Prod.Lex.left; simp_all; omega) | skip
def quoteLoop : List Bytes → Bytes → Bool → Bytes → Outcome
  | _, _, _, [] => .err true []
  | done, c, esc, ch :: rest =>
    if ¬ esc ∧ ch = dq then mainLoop { done := done, cur := some c, esc := false, sep := false } rest
    else if ch = bs then quoteLoop done c true rest
    else quoteLoop done (c ++ [ch]) false rest
termination_by _ _ _ inp => (inp.length, 0)
decreasing_by all_goals simp_wf <;> first | omega | (apply Prod.Lex.left; simp_all; omega) | skip
end

def readArgs (input : Bytes) : Outcome :=
  mainLoop { done := [], cur := none, esc := false, sep := true } input

end AF
