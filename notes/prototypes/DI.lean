/- prototype: dependency provider Get with factory scripts; stack discipline -/
namespace DI

abbrev Name := Nat

inductive Out | ok | fail | nilInst
deriving DecidableEq, Repr

structure Factory where
  deps : List (Name × Bool)      -- (dependency, optional?)
  out  : Out
deriving Repr

inductive Res | inst (id : Nat) | cyclic | failed | missing | nilInstance | fuel
deriving DecidableEq, Repr

structure St where
  instances : List (Name × Nat)
  factories : List (Name × Factory)
  defaults  : List (Name × Factory)
  callstack : List Name
  nextId    : Nat
  calls     : List Name            -- log of factory invocations
deriving Repr

def lookup {α} (l : List (Name × α)) (n : Name) : Option α :=
  match l with
  | [] => none
  | (k, v) :: r => if k = n then some v else lookup r n

mutual
def get : Nat → St → Name → St × Res
  | 0, s, _ => (s, .fuel)
  | fuel + 1, s, n =>
    if n ∈ s.callstack then (s, .cyclic)
    else match lookup s.instances n with
    | some i => (s, .inst i)
    | none =>
      match (lookup s.factories n).orElse (fun _ => lookup s.defaults n) with
      | none => (s, .missing)
      | some f =>
        let depth := s.callstack
        let s1 := { s with callstack := s.callstack ++ [n], calls := n :: s.calls }
        let r := runDeps fuel s1 f.deps
        let s3 := { r.1 with callstack := depth }          -- repaired: unwind on every exit
        if ¬ r.2 then (s3, .failed)
        else match f.out with
          | .fail => (s3, .failed)
          | .nilInst => (s3, .nilInstance)
          | .ok =>
            let id := s3.nextId
            ({ s3 with nextId := id + 1,
                       instances := (n, id) :: s3.instances,
                       factories := s3.factories.filter (fun p => p.1 ≠ n),
                       defaults := s3.defaults.filter (fun p => p.1 ≠ n) }, .inst id)
def runDeps : Nat → St → List (Name × Bool) → St × Bool
  | _, s, [] => (s, true)
  | fuel, s, (d, opt) :: rest =>
    let g := get fuel s d
    match g.2 with
    | .inst _ => runDeps fuel g.1 rest
    | _ => if opt then runDeps fuel g.1 rest else (g.1, false)
end

/-- the resolution stack is restored by every request, successful or not -/
theorem get_stack_of_deps (fuel : Nat)
    (_hd : ∀ s ds, (runDeps fuel s ds).1.callstack = s.callstack) (s : St) (n : Name) :
    (get (fuel + 1) s n).1.callstack = s.callstack := by
  unfold get
  split
  · rfl
  · split
    · rfl
    · split
      · rfl
      · dsimp only
        split
        · rfl
        · split <;> rfl

theorem deps_stack_of_get (fuel : Nat)
    (hg : ∀ s n, (get fuel s n).1.callstack = s.callstack) (s : St) (ds : List (Name × Bool)) :
    (runDeps fuel s ds).1.callstack = s.callstack := by
  induction ds generalizing s with
  | nil => simp [runDeps]
  | cons d rest ih =>
    obtain ⟨d, opt⟩ := d
    unfold runDeps
    dsimp only
    split
    · rw [ih]; exact hg s d
    · split
      · rw [ih]; exact hg s d
      · exact hg s d

theorem stack_restored (fuel : Nat) :
    (∀ s n, (get fuel s n).1.callstack = s.callstack) ∧
    (∀ s ds, (runDeps fuel s ds).1.callstack = s.callstack) := by
  induction fuel with
  | zero =>
    have hg : ∀ s n, (get 0 s n).1.callstack = s.callstack := by intro s n; simp [get]
    exact ⟨hg, deps_stack_of_get 0 hg⟩
  | succ fuel ih =>
    have hg := get_stack_of_deps fuel ih.2
    exact ⟨hg, deps_stack_of_get (fuel + 1) hg⟩

#print axioms stack_restored

def demo : St :=
  St.mk [] [(0, Factory.mk [(1, true)] .ok), (1, Factory.mk [] .fail)] [] [] 0 []
#eval (get 5 demo 0).2
#eval (get 5 (get 5 demo 0).1 0).2
#eval (get 5 (get 5 demo 0).1 0).1.calls
end DI
