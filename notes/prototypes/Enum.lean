import A.ArgsFull
open AF

def alphabet : Array UInt8 := #[32, 9, 10, 34, 92, 61, 60, 97, 195]

def hex (b : Bytes) : String :=
  let d := "0123456789abcdef".toList.toArray
  String.mk (b.flatMap (fun x => [d[(x.toNat / 16)]!, d[(x.toNat % 16)]!]))

def showOut : Outcome → String
  | .ok args eof rest => s!"ok eof={eof} rest={rest.length} args=[{",".intercalate (args.map hex)}]"
  | .err e _ => s!"err eof={e}"
  | .panic => "panic"

partial def enum (len : Nat) (cur : List UInt8) (out : IO.FS.Stream) : IO Unit := do
  if len = 0 then
    let inp := cur.reverse
    out.putStrLn s!"{hex inp} {showOut (readArgs inp)}"
  else
    for a in alphabet do
      enum (len - 1) (a :: cur) out

def main (args : List String) : IO Unit := do
  let n := (args.head? >>= String.toNat?).getD 4
  let out ← IO.getStdout
  for l in [0:n+1] do
    enum l [] out
