/- prototype: fsloop exit protocol (repaired order) as an LTS, n consumers, all interleavings -/
namespace Proto.Loop

inductive PC where
  | top                      -- about to read the lifecycle step
  | sawStep (closed : Bool)  -- step read, about to test queue emptiness
  | inCb (item : Nat)        -- running the callback on item
  | exited
deriving DecidableEq, Repr

structure St where
  pending : List Nat        -- items producers have not enqueued yet
  queue   : List Nat
  closed  : Bool            -- StepClose announced
  cons    : List PC
  done    : List Nat        -- items whose callback returned
deriving Repr

/-- repaired protocol: the step is read BEFORE the emptiness test -/
inductive Step : St → St → Prop where
  | produce (s : St) (x : Nat) (rest : List Nat) (h : s.pending = x :: rest) :
      Step s { s with pending := rest, queue := s.queue ++ [x] }
  | close (s : St) (h : s.pending = []) (hc : s.closed = false) :
      Step s { s with closed := true }
  | readStep (s : St) (i : Nat) (h : s.cons[i]? = some .top) :
      Step s { s with cons := s.cons.set i (.sawStep s.closed) }
  | emptyExit (s : St) (i : Nat) (h : s.cons[i]? = some (.sawStep true)) (hq : s.queue = []) :
      Step s { s with cons := s.cons.set i .exited }
  | emptyRetry (s : St) (i : Nat) (h : s.cons[i]? = some (.sawStep false)) (hq : s.queue = []) :
      Step s { s with cons := s.cons.set i .top }
  | recv (s : St) (i : Nat) (b : Bool) (x : Nat) (rest : List Nat)
      (h : s.cons[i]? = some (.sawStep b)) (hq : s.queue = x :: rest) :
      Step s { s with cons := s.cons.set i (.inCb x), queue := rest }
  | cbDone (s : St) (i : Nat) (x : Nat) (h : s.cons[i]? = some (.inCb x)) :
      Step s { s with cons := s.cons.set i .top, done := x :: s.done }

structure Inv (s : St) : Prop where
  closedPending : s.closed = true → s.pending = []
  sawClosed : ∀ i : Nat, s.cons[i]? = some (PC.sawStep true) → s.closed = true
  exitedEmpty : ∀ i : Nat, s.cons[i]? = some PC.exited → s.queue = [] ∧ s.closed = true

theorem inv_step {s t : St} (hI : Inv s) (h : Step s t) : Inv t := by
  cases h with
  | produce x rest hp =>
    refine ⟨?_, ?_, ?_⟩
    · intro hc; have := hI.closedPending hc; simp [hp] at this
    · exact hI.sawClosed
    · intro i hi
      have := hI.exitedEmpty i hi
      have hc := hI.closedPending this.2
      simp [hp] at hc
  | close hp hc =>
    refine ⟨fun _ => hp, fun _ _ => rfl, ?_⟩
    intro i hi; have := hI.exitedEmpty i hi; simp_all
  | readStep i hi =>
    refine ⟨hI.closedPending, ?_, ?_⟩
    · intro j hj
      simp only [List.getElem?_set] at hj
      split at hj
      · split at hj <;> simp_all
      · exact hI.sawClosed j hj
    · intro j hj
      simp only [List.getElem?_set] at hj
      split at hj
      · split at hj <;> simp_all
      · exact hI.exitedEmpty j hj
  | emptyExit i hi hq =>
    refine ⟨hI.closedPending, ?_, ?_⟩
    · intro j hj
      simp only [List.getElem?_set] at hj
      split at hj
      · split at hj <;> simp_all
      · exact hI.sawClosed j hj
    · intro j hj
      exact ⟨hq, hI.sawClosed i hi⟩
  | emptyRetry i hi hq =>
    refine ⟨hI.closedPending, ?_, ?_⟩
    · intro j hj
      simp only [List.getElem?_set] at hj
      split at hj
      · split at hj <;> simp_all
      · exact hI.sawClosed j hj
    · intro j hj
      simp only [List.getElem?_set] at hj
      split at hj
      · split at hj <;> simp_all
      · exact hI.exitedEmpty j hj
  | recv i b x rest hi hq =>
    refine ⟨hI.closedPending, ?_, ?_⟩
    · intro j hj
      simp only [List.getElem?_set] at hj
      split at hj
      · split at hj <;> simp_all
      · exact hI.sawClosed j hj
    · intro j hj
      simp only [List.getElem?_set] at hj
      split at hj
      · split at hj <;> simp_all
      · have := hI.exitedEmpty j hj
        simp [hq] at this
  | cbDone i x hi =>
    refine ⟨hI.closedPending, ?_, ?_⟩
    · intro j hj
      simp only [List.getElem?_set] at hj
      split at hj
      · split at hj <;> simp_all
      · exact hI.sawClosed j hj
    · intro j hj
      simp only [List.getElem?_set] at hj
      split at hj
      · split at hj <;> simp_all
      · exact hI.exitedEmpty j hj

#print axioms inv_step
end Proto.Loop
