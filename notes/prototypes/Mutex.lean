/- prototype: ordered acquisition of named RW locks is deadlock free (plain RW variant) -/
namespace Mx

structure Holder where
  req  : List (Nat × Bool)      -- (resource name, write?) in acquisition order
  k    : Nat                    -- number of requests already acquired
  done : Bool

def Sorted (h : Holder) : Prop := (h.req.map Prod.fst).Pairwise (· < ·)

def next (h : Holder) : Option (Nat × Bool) := h.req[h.k]?

/-- some active holder holds `m` in a mode conflicting with `w` -/
def Blocked (hs : List Holder) (m : Nat) (w : Bool) : Prop :=
  ∃ h ∈ hs, h.done = false ∧ ∃ idx w', idx < h.k ∧ h.req[idx]? = some (m, w') ∧ (w = true ∨ w' = true)

/-- holder `h` can take a step: leave the critical section, or acquire its next lock -/
def Enabled (hs : List Holder) (h : Holder) : Prop :=
  h.done = false ∧ (h.req.length ≤ h.k ∨ ∃ m w, next h = some (m, w) ∧ ¬ Blocked hs m w)

theorem exists_max {α} (f : α → Nat) : ∀ (l : List α), l ≠ [] → ∃ x ∈ l, ∀ y ∈ l, f y ≤ f x
  | [], h => absurd rfl h
  | [a], _ => ⟨a, by simp, by simp⟩
  | a :: b :: r, _ => by
    obtain ⟨x, hx, hmax⟩ := exists_max f (b :: r) (by simp)
    by_cases hle : f a ≤ f x
    · refine ⟨x, List.mem_cons_of_mem _ hx, ?_⟩
      intro y hy
      rcases List.mem_cons.mp hy with rfl | hy
      · exact hle
      · exact hmax y hy
    · refine ⟨a, by simp, ?_⟩
      intro y hy
      rcases List.mem_cons.mp hy with rfl | hy
      · exact Nat.le_refl _
      · have := hmax y hy; omega

theorem name_lt_of_sorted (h : Holder) (hs : Sorted h) (i j : Nat) (m m' : Nat) (w w' : Bool)
    (hij : i < j) (hi : h.req[i]? = some (m, w)) (hj : h.req[j]? = some (m', w')) : m < m' := by
  unfold Sorted at hs
  rw [List.pairwise_iff_getElem] at hs
  have hil : i < h.req.length := by
    rcases Nat.lt_or_ge i h.req.length with h1 | h1
    · exact h1
    · simp [List.getElem?_eq_none h1] at hi
  have hjl : j < h.req.length := by
    rcases Nat.lt_or_ge j h.req.length with h1 | h1
    · exact h1
    · simp [List.getElem?_eq_none h1] at hj
  have := hs i j (by simpa using hil) (by simpa using hjl) hij
  simp only [List.getElem_map] at this
  rw [List.getElem?_eq_getElem hil] at hi
  rw [List.getElem?_eq_getElem hjl] at hj
  simp at hi hj
  rw [hi, hj] at this
  exact this

/-- deadlock freedom: while some holder is unfinished, some holder has an enabled step -/
theorem deadlock_free (hs : List Holder) (hsorted : ∀ h ∈ hs, Sorted h)
    (hactive : ∃ h ∈ hs, h.done = false) : ∃ h ∈ hs, Enabled hs h := by
  by_cases hfin : ∃ h ∈ hs, h.done = false ∧ h.req.length ≤ h.k
  · obtain ⟨h, hm, hd, hk⟩ := hfin
    exact ⟨h, hm, hd, Or.inl hk⟩
  · -- every active holder is waiting for its next lock
    have hwait : ∀ h ∈ hs, h.done = false → h.k < h.req.length := by
      intro h hm hd
      rcases Nat.lt_or_ge h.k h.req.length with h1 | h1
      · exact h1
      · exact absurd ⟨h, hm, hd, h1⟩ hfin
    let act := hs.filter (fun h => h.done = false)
    have hne : act ≠ [] := by
      obtain ⟨h, hm, hd⟩ := hactive
      intro he
      have : h ∈ act := by simp [act, hm, hd]
      simp [he] at this
    let f : Holder → Nat := fun h => match next h with | some (m, _) => m | none => 0
    obtain ⟨x, hx, hmax⟩ := exists_max f act hne
    have hxm : x ∈ hs := (List.mem_filter.mp hx).1
    have hxd : x.done = false := by simpa using (List.mem_filter.mp hx).2
    have hxk := hwait x hxm hxd
    obtain ⟨⟨m, w⟩, hnext⟩ : ∃ p, next x = some p := ⟨x.req[x.k], by simp [next, hxk]⟩
    refine ⟨x, hxm, hxd, Or.inr ⟨m, w, hnext, ?_⟩⟩
    rintro ⟨h', hm', hd', idx, w', hidx, hreq, _⟩
    have hk' := hwait h' hm' hd'
    obtain ⟨⟨m2, w2⟩, hnext'⟩ : ∃ p, next h' = some p := ⟨h'.req[h'.k], by simp [next, hk']⟩
    have hlt : m < m2 := name_lt_of_sorted h' (hsorted h' hm') idx h'.k m m2 w' w2 hidx hreq hnext'
    have hin : h' ∈ act := by simp [act, hm', hd']
    have := hmax h' hin
    simp only [f, hnext, hnext'] at this
    omega

#print axioms deadlock_free
end Mx
