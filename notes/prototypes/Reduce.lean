/- prototype: varutil.ReduceAbsPath over segment lists -/
namespace Proto

abbrev Seg := String

/-- mirror of the loop in varutil.ReduceAbsPath, on the already split segments;
    `acc` is the result stack kept reversed (top of stack = head) -/
def reduceGo : List Seg → List Seg → Option (List Seg)
  | [], acc => some acc.reverse
  | s :: rest, acc =>
    if s = "" ∨ s = "." then reduceGo rest acc
    else if s = ".." then
      match acc with
      | [] => none
      | _ :: acc' => reduceGo rest acc'
    else reduceGo rest (s :: acc)

def reduce (segs : List Seg) : Option (List Seg) := reduceGo segs []

def Plain (s : Seg) : Prop := s ≠ "" ∧ s ≠ "." ∧ s ≠ ".."

/-- abstract resolution: walking the segments from a directory stack; `none` = climbed above the root -/
def walk : List Seg → List Seg → Option (List Seg)
  | [], cur => some cur
  | s :: rest, cur =>
    if s = "" ∨ s = "." then walk rest cur
    else if s = ".." then
      match cur with
      | [] => none
      | _ :: up => walk rest up
    else walk rest (s :: cur)

theorem reduceGo_plain (segs acc : List Seg) (hacc : ∀ s ∈ acc, Plain s) (out : List Seg)
    (h : reduceGo segs acc = some out) : ∀ s ∈ out, Plain s := by
  induction segs generalizing acc with
  | nil =>
    simp [reduceGo] at h
    subst h
    intro s hs
    exact hacc s (by simpa using hs)
  | cons x rest ih =>
    unfold reduceGo at h
    split at h
    · exact ih acc hacc h
    · split at h
      · cases acc with
        | nil => simp at h
        | cons a acc' =>
          simp at h
          exact ih acc' (fun s hs => hacc s (List.mem_cons_of_mem _ hs)) h
      · rename_i h1 h2
        apply ih (x :: acc) _ h
        intro s hs
        rcases List.mem_cons.mp hs with rfl | hs
        · refine ⟨?_, ?_, h2⟩ <;> intro hc <;> simp [hc] at h1
        · exact hacc s hs

theorem reduce_plain (segs out : List Seg) (h : reduce segs = some out) : ∀ s ∈ out, Plain s :=
  reduceGo_plain segs [] (by simp) out h

/-- reduce agrees with walking from the root -/
theorem reduceGo_eq_walk (segs acc : List Seg) :
    reduceGo segs acc = (walk segs acc).map List.reverse := by
  induction segs generalizing acc with
  | nil => simp [reduceGo, walk]
  | cons x rest ih =>
    unfold reduceGo walk
    split
    · exact ih acc
    · split
      · cases acc <;> simp [ih]
      · exact ih _

#print axioms reduce_plain
#print axioms reduceGo_eq_walk
end Proto
