/- prototype: mutual Node/Kids tree, lookup/write mirroring memfs, and two Spec-facing lemmas -/
namespace P

abbrev Name := String
abbrev Bytes := List UInt8

mutual
inductive Node where
  | file (d : Bytes)
  | dir (k : Kids)
inductive Kids where
  | nil
  | cons (name : Name) (n : Node) (rest : Kids)
end

namespace Kids
def find : Kids → Name → Option Node
  | .nil, _ => none
  | .cons n x rest, m => if n = m then some x else find rest m

/-- replace the child named `m` if present, else append at the end (insertion order) -/
def set : Kids → Name → Node → Kids
  | .nil, m, x => .cons m x .nil
  | .cons n y rest, m, x => if n = m then .cons n x rest else .cons n y (set rest m x)

def erase : Kids → Name → Kids
  | .nil, _ => .nil
  | .cons n y rest, m => if n = m then rest else .cons n y (erase rest m)

-- `induction` rejects mutual inductive types; functional induction works
theorem find_set_same (k : Kids) (m : Name) (x : Node) : (k.set m x).find m = some x := by
  fun_induction set k m x with
  | case1 => simp [find]
  | case2 => simp [find, *]
  | case3 => simp [find, *]

theorem find_set_other (k : Kids) (m m' : Name) (x : Node) (h : m ≠ m') :
    (k.set m x).find m' = k.find m' := by
  fun_induction set k m x with
  | case1 => simp [find, h]
  | case2 => simp_all [find]
  | case3 => simp only [find]; split <;> simp_all
end Kids

/-- lookup along a reduced path (recursion on the path, not on the tree) -/
def Node.lookup : Node → List Name → Option Node
  | n, [] => some n
  | .file _, _ :: _ => none
  | .dir k, s :: rest =>
    match k.find s with
    | none => none
    | some c => c.lookup rest

/-- mkdir -p then create-or-replace; `none` = error -/
def Node.write : Node → List Name → Bytes → Option Node
  | _, [], _ => none
  | .file _, _ :: _, _ => none
  | .dir k, [s], d =>
    match k.find s with
    | some (.dir _) => none
    | _ => some (.dir (k.set s (.file d)))
  | .dir k, s :: s' :: rest, d =>
    let child := match k.find s with
      | none => some (Node.dir .nil)
      | some c => some c
    match child with
    | none => none
    | some c =>
      match c.write (s' :: rest) d with
      | none => none
      | some c' => some (.dir (k.set s c'))

inductive Entry | file (d : Bytes) | dir
deriving DecidableEq

def Node.entry : Node → Entry
  | .file d => .file d
  | .dir _ => .dir

/-- abstraction to the point-wise Spec state `Path → Option Entry` -/
def abs (t : Node) (p : List Name) : Option Entry := (t.lookup p).map Node.entry

theorem read_after_write (t t' : Node) (p : List Name) (d : Bytes)
    (h : t.write p d = some t') : abs t' p = some (.file d) := by
  induction p generalizing t t' with
  | nil => cases t <;> simp [Node.write] at h
  | cons s rest ih =>
    cases t with
    | file _ => simp [Node.write] at h
    | dir k =>
      cases rest with
      | nil =>
        simp only [Node.write] at h
        split at h
        · simp at h
        · simp at h; subst h
          simp [abs, Node.lookup, Kids.find_set_same, Node.entry]
      | cons s' rest' =>
        simp only [Node.write] at h
        split at h
        · simp at h
        · rename_i c hc
          split at h
          · simp at h
          · rename_i c' hw
            simp at h; subst h
            have := ih c c' hw
            simpa [abs, Node.lookup, Kids.find_set_same] using this

def Unrelated (p q : List Name) : Prop := ¬ (p <+: q) ∧ ¬ (q <+: p)

/-- frame: a write at p changes no path that is not prefix-related to p -/
theorem write_frame (t t' : Node) (p q : List Name) (d : Bytes)
    (h : t.write p d = some t') (hu : Unrelated p q) : abs t' q = abs t q := by
  induction p generalizing t t' q with
  | nil => cases t <;> simp [Node.write] at h
  | cons s rest ih =>
    cases t with
    | file _ => simp [Node.write] at h
    | dir k =>
      cases q with
      | nil => exact absurd (List.nil_prefix) hu.2
      | cons s2 q' =>
        by_cases hs : s = s2
        · subst hs
          cases rest with
          | nil => exact absurd (by simp) hu.1
          | cons s' rest' =>
            simp only [Node.write] at h
            split at h
            · simp at h
            · rename_i c hc
              split at h
              · simp at h
              · rename_i c' hw
                simp at h; subst h
                have hu' : Unrelated (s' :: rest') q' := by
                  constructor
                  · intro hp; exact hu.1 (by simpa using hp)
                  · intro hp; exact hu.2 (by simpa using hp)
                have := ih c c' q' hw hu'
                simp only [abs, Node.lookup, Kids.find_set_same] at this ⊢
                rw [this]
                cases hk : k.find s with
                | none =>
                  simp [hk] at hc; subst hc
                  cases q' with
                  | nil => exact absurd (List.nil_prefix) hu'.2
                  | cons a b => simp [Node.lookup, Kids.find]
                | some c0 => simp [hk] at hc; subst hc; rfl
        · cases rest with
          | nil =>
            simp only [Node.write] at h
            split at h
            · simp at h
            · simp at h; subst h
              simp [abs, Node.lookup, Kids.find_set_other _ _ _ _ hs]
          | cons s' rest' =>
            simp only [Node.write] at h
            split at h
            · simp at h
            · split at h
              · simp at h
              · simp at h; subst h
                simp [abs, Node.lookup, Kids.find_set_other _ _ _ _ hs]

#print axioms read_after_write
#print axioms write_frame
end P
