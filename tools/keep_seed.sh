#!/bin/bash
# Verify a seeded change produced by an independent sub-agent and keep it under /verif/seeded/<id>/.
#   usage: tools/keep_seed.sh <dir with patch.diff meta.json demo*> <id> <pkgdir-for-demo_test.go or ->
# Steps (all in a scratch worktree of /repo HEAD, removed afterwards):
#   1. demo passes on the clean tree   2. patch applies, `go build ./...` ok
#   3. full test suite passes with the patch   4. demo fails with the patch
set -u
src=$(realpath $1); id=$2; pkg=${3:--}
export GOFLAGS=-mod=mod GOPROXY=off GOSUMDB=off GOTOOLCHAIN=local
wt=/var/tmp/gcverif-seed-$$
git -C /repo worktree add -f --detach "$wt" HEAD >/dev/null 2>&1 || exit 2
trap 'git -C /repo worktree remove --force "$wt" >/dev/null 2>&1; rm -rf "$wt"' EXIT
demo() { # run the demonstration, echo PASS/FAIL
  if [ "$pkg" != - ]; then
    cp "$src"/demo_test.go "$wt/$pkg/zz_seed_demo_test.go"
    (cd "$wt" && timeout 600 go test -vet=off -count=1 -run 'Seed|Demo' ./$pkg/ >/tmp/seed-demo-$$.log 2>&1) && echo PASS || echo FAIL
    rm -f "$wt/$pkg/zz_seed_demo_test.go"
  else
    mkdir -p "$wt/_demo" && cp "$src"/demo*.go "$wt/_demo/" 2>/dev/null
    (cd "$wt" && timeout 600 go run ./_demo >/tmp/seed-demo-$$.log 2>&1) && echo PASS || echo FAIL
    rm -rf "$wt/_demo"
  fi
}
r1=$(demo)
git -C "$wt" apply "$src/patch.diff" || { echo "PATCH-DOES-NOT-APPLY"; exit 1; }
(cd "$wt" && go build ./... ) || { echo "BUILD-FAILS"; exit 1; }
nfail=$(cd "$wt" && go test -vet=off -count=1 ./... 2>&1 | grep -c '^FAIL\|^--- FAIL\|panic:')
r2=$(demo)
echo "clean-demo=$r1 suite-fail-lines=$nfail patched-demo=$r2"
if [ "$r1" = PASS ] && [ "$nfail" = 0 ] && [ "$r2" = FAIL ]; then
  mkdir -p /verif/seeded/$id && cp "$src"/* /verif/seeded/$id/ && echo "KEPT /verif/seeded/$id"
else
  echo "REJECTED"; tail -5 /tmp/seed-demo-$$.log
fi
rm -f /tmp/seed-demo-$$.log
