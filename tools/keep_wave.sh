#!/bin/bash
# keep the seeds a seeding agent left in /tmp/seedwt-<P>/_seed/<P>-k as /verif/seeded/<P>-<first free number…>
# usage: tools/keep_wave.sh C10 C11 …
for p in "$@"; do
  for d in /tmp/seedwt-$p/_seed/$p-*; do
    [ -f "$d/patch.diff" ] || continue
    n=1; while [ -d /verif/seeded/$p-$n ]; do n=$((n+1)); done
    pkg=$(python3 - "$d" <<'PY'
import json,re,sys
m=json.load(open(sys.argv[1]+'/meta.json'))
c=m.get('demo_cmd','')
g=re.search(r'cp\s+\S+demo_test\.go\s+(\S+)/[^/\s]+_test\.go',c)
print(g.group(1) if g else '-')
PY
)
    echo "== $d -> $p-$n (pkg $pkg)"
    /verif/tools/keep_seed.sh $d $p-$n $pkg 2>&1 | grep -v WARNING | tail -3
  done
done
