#!/bin/bash
# Run one or more checks against a scratch worktree of /repo with a patch applied (never touches /repo's
# working tree).   usage: tools/mutant.sh <patch.diff|pinned> <Cxx> [<Cxx>…]   env: TIER=quick|thorough
# Prints one line per check:  <Cxx> DETECTED|MISSED|ERROR  (and the VIOLATION lines).
set -u
patch=$1; shift; [ "$patch" != pinned ] && patch=$(realpath "$patch")
wt=/var/tmp/gcverif-mut-$$
rev=HEAD
if [ "$patch" = pinned ]; then
  # tags do not survive a sandbox restore: the pre-repair tree is the root commit of /repo
  rev=$(git -C /repo rev-parse -q --verify pinned-base^{commit} || git -C /repo rev-list --max-parents=0 HEAD | tail -1)
fi
git -C /repo worktree add -f --detach "$wt" $rev >/dev/null 2>&1 || { echo "cannot create worktree"; exit 2; }
trap 'git -C /repo worktree remove --force "$wt" >/dev/null 2>&1; rm -rf "$wt"' EXIT
if [ "$patch" = pinned ]; then
  # the pinned tree lacks the verif hooks: bring them over (add-only commits)
  for c in $(git -C /repo log --reverse --format=%h --grep='^verif hook' $rev..HEAD); do
    if ! git -C "$wt" cherry-pick -n $c >/dev/null 2>&1; then
      # the hook was written against the repaired code.  fsloop/consumer.go: on the pinned tree the yield
      # point goes between the emptiness test and the (late) read of the step - the window of defect 13.
      # Any other conflicting file keeps its pre-repair text without yield points (gated replays that need
      # them are then not available on the pinned tree; the differential and oracle parts are).
      for f in $(git -C "$wt" diff --name-only --diff-filter=U); do
        git -C "$wt" checkout --ours -- $f
        if [ $f = filesystem/fsloop/consumer.go ]; then
          python3 - "$wt/$f" <<'PY'
import sys
p = sys.argv[1]
s = open(p).read()
s = s.replace('import (\n\t"runtime"\n', 'import (\n\t"runtime"\n\n\t"github.com/goatcms/goatcore/verifhook"\n', 1)
s = s.replace('\t\t\tif consumer.lifecycle.Step() == StepClose {', '\t\t\tverifhook.Yield("fsloop.consumer.gap")\n\t\t\tif consumer.lifecycle.Step() == StepClose {', 1)
open(p, 'w').write(s)
PY
          gofmt -w "$wt/$f"
        else
          echo "pinned: $f keeps its pre-repair text without the yield points of hook $c"
        fi
        git -C "$wt" add $f
      done
    fi
    git -C "$wt" -c user.email=x@x -c user.name=x commit -qm "hook $c" >/dev/null 2>&1
  done
else
  git -C "$wt" apply "$patch" || { echo "patch does not apply"; exit 2; }
fi
for p in "$@"; do
  out=$(cd /verif && VERIF_REPO=$wt VERIF_EVIDENCE=/tmp/ev-mut-$$-$p.json ./check $p ${TIER:-quick} 2>&1)
  rc=$?
  if echo "$out" | grep -q '^VIOLATION'; then echo "$p DETECTED"; echo "$out" | grep '^VIOLATION' | head -3
  elif [ $rc -eq 0 ]; then echo "$p MISSED"
  else echo "$p ERROR rc=$rc"; echo "$out" | tail -5; fi
  rm -f /tmp/ev-mut-$$-$p.json
done
