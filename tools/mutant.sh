#!/bin/bash
# Run one or more checks against a scratch worktree of /repo with a patch applied (never touches /repo's
# working tree).   usage: tools/mutant.sh <patch.diff|pinned> <Cxx> [<Cxx>…]   env: TIER=quick|thorough
# Prints one line per check:  <Cxx> DETECTED|MISSED|ERROR  (and the VIOLATION lines).
set -u
patch=$1; shift; [ "$patch" != pinned ] && patch=$(realpath "$patch")
wt=/var/tmp/gcverif-mut-$$
rev=HEAD
if [ "$patch" = pinned ]; then
  # tags do not survive a sandbox restore: the pre-repair tree is the root commit of /repo
  rev=$(git -C /repo rev-parse -q --verify pinned-base^{commit} || git -C /repo rev-list --max-parents=0 HEAD | tail -1)
fi
git -C /repo worktree add -f --detach "$wt" $rev >/dev/null 2>&1 || { echo "cannot create worktree"; exit 2; }
trap 'git -C /repo worktree remove --force "$wt" >/dev/null 2>&1; rm -rf "$wt"' EXIT
if [ "$patch" = pinned ]; then
  # the pinned tree lacks the verif hooks: bring them over (add-only commits)
  for c in $(git -C /repo log --reverse --format=%h --grep='^verif hook' $rev..HEAD); do
    git -C "$wt" cherry-pick -n $c >/dev/null 2>&1 || { echo "hook $c does not apply to pinned"; }
  done
else
  git -C "$wt" apply "$patch" || { echo "patch does not apply"; exit 2; }
fi
for p in "$@"; do
  out=$(cd /verif && VERIF_REPO=$wt VERIF_EVIDENCE=/tmp/ev-mut-$$-$p.json ./check $p ${TIER:-quick} 2>&1)
  rc=$?
  if echo "$out" | grep -q '^VIOLATION'; then echo "$p DETECTED"; echo "$out" | grep '^VIOLATION' | head -3
  elif [ $rc -eq 0 ]; then echo "$p MISSED"
  else echo "$p ERROR rc=$rc"; echo "$out" | tail -5; fi
  rm -f /tmp/ev-mut-$$-$p.json
done
