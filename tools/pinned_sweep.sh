#!/bin/bash
# run every check against the pre-repair tree (+hooks); results appended to /tmp/pinned_sweep.log
for p in "$@"; do
  res=$(timeout 2400 /verif/tools/mutant.sh pinned $p 2>&1 | grep -v "^pinned:" | head -2 | tr '\n' ' ')
  echo "pinned $p: $res" >> /tmp/pinned_sweep.log
done
