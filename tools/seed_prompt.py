#!/usr/bin/env python3
"""print the prompt given to an independent 'seeded change' sub-agent for one property (it sees only the
property text and its scratch worktree, nothing from /verif)"""
import json, sys
pid, wt = sys.argv[1], sys.argv[2]
n = sys.argv[3] if len(sys.argv) > 3 else "TWO"
P = {json.loads(l)["id"]: json.loads(l) for l in open("/verif/properties.jsonl")}[pid]
print(f"""You have a scratch git worktree of the Go library goatcms/goatcore at {wt} (module github.com/goatcms/goatcore; build and test offline: `export GOFLAGS=-mod=mod GOPROXY=off GOSUMDB=off GOTOOLCHAIN=local` in every shell call; every shell call prints a harmless conda WARNING line). Work ONLY inside that directory. Do NOT read, list or use anything under /verif or /repo. There is no network.

Here is a semantic property the library is supposed to satisfy (id {pid}):
Title: {P['title']}
Statement: {P['statement']}
Holds: {P['quantifier']['text']}
Relevant source files (relative to the worktree): {', '.join(P['anchors']['files'])}

TASK: produce {n} independent, realistic changes to the library's non-test source — the kind of regression a maintainer could plausibly introduce (a refactor, an "optimisation", a wrong boundary, a dropped or narrowed lock, a reordered statement, a lost copy, a mishandled error path) — each of which BREAKS the property above while (a) everything still compiles (`go build ./...`) and (b) the complete existing test suite still passes unmodified (`go test -vet=off -count=1 ./...`; run the full suite at least once per change at the end). Prefer changes that need something specific to manifest — a particular interleaving, a fault at a particular point, a multi-step sequence of operations, an unusual input, or two cooperating sites that each look fine alone — NOT ones that ordinary use would expose at once. Do not modify or add *_test.go files in the patch, do not add build tags, do not touch go.mod.

For each change k (1, 2, …) deliver in {wt}/_seed/{pid}-k/: `patch.diff` (`git diff` of the source change against HEAD; must apply with `git apply` on a clean HEAD), a demonstration (`demo_test.go` placed so it can be copied into the right package directory, or a small `main` program) with the exact command to run it, that FAILS with the change and PASSES without it — verify BOTH by actually running it with and without the patch — and `meta.json` = {{"property": "{pid}", "summary": "...", "needs_to_manifest": "...", "files": [...], "demo_cmd": "...", "ran": ["commands you ran and their outcome"]}}. Do NOT use `git stash` (the stash is shared by all worktrees of the repository and other agents are working in sibling worktrees): to test without your change use `git diff > /tmp/x.diff; git apply -R /tmp/x.diff` and re-apply afterwards. Leave the worktree at a clean HEAD apart from the untracked `_seed` directory (`git status --short` shows only `_seed/`). Final message: for each change a 3-line description, plus the commands you ran and their results.""")
