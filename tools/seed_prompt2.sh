#!/bin/bash
# second-wave seed prompt: the base prompt + the summaries of the seeds already kept (to diversify)
# usage: tools/seed_prompt2.sh Cxx <worktree>  -> writes /tmp/seedprompt-Cxx.txt
p=$1; wt=$2
python3 /verif/tools/seed_prompt.py $p $wt TWO > /tmp/seedprompt-$p.txt
{
echo
echo "Changes of the following kinds are ALREADY KNOWN — produce something different in mechanism and location (other functions, other clauses of the property, other triggers):"
for d in /verif/seeded/$p-*; do python3 -c "import json,sys;print(' - '+json.load(open('$d/meta.json'))['summary'][:400])"; done
} >> /tmp/seedprompt-$p.txt
