#!/bin/bash
# run every seeded change of the given properties against its property's check (scratch worktrees)
# usage: tools/seed_sweep.sh C05 C08 ...   -> results appended to /tmp/seed_sweep.log
for p in "$@"; do
  for d in /verif/seeded/$p-*; do
    [ -d "$d" ] || continue
    id=$(basename $d)
    res=$(/verif/tools/mutant.sh $d/patch.diff $p 2>&1 | grep -v WARNING | head -2 | tr '\n' ' ')
    echo "$id: $res" >> /tmp/seed_sweep.log
  done
done
