#!/bin/bash
# run the given seeds (ids like C10-3) against their own property's check; results appended to /tmp/seed_sweep2.log
for id in "$@"; do
  p=${id%%-*}
  res=$(timeout 1500 /verif/tools/mutant.sh /verif/seeded/$id/patch.diff $p 2>&1 | grep -v WARNING | head -2 | tr '\n' ' ')
  echo "$id: $res" >> /tmp/seed_sweep2.log
done
