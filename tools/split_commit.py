#!/usr/bin/env python3
"""Compose a commit in /repo from selected hunks of a patch file.
usage: split_commit.py <patch> "<message>" file[:h,h,...] ...   (no hunk list = all hunks)"""
import re,sys,subprocess,tempfile
patch,msg,*sel=sys.argv[1:]
p=open(patch).read()
files={}
for f in re.split(r'(?m)^(?=diff --git )',p):
    if not f.strip(): continue
    name=re.match(r'diff --git a/(\S+)',f).group(1)
    parts=re.split(r'(?m)^(?=@@ )',f)
    files[name]=(parts[0],parts[1:])
out=''
for s in sel:
    name,_,hs=s.partition(':')
    hdr,hunks=files[name]
    idx=[int(x) for x in hs.split(',')] if hs else range(len(hunks))
    out+=hdr+''.join(hunks[i] for i in idx)
with tempfile.NamedTemporaryFile('w',suffix='.patch',delete=False) as t:
    t.write(out); tn=t.name
subprocess.check_call(['git','-C','/repo','apply','--recount','--index',tn])
subprocess.check_call(['git','-C','/repo','commit','-q','-m',msg])
print(subprocess.check_output(['git','-C','/repo','log','--oneline','-1']).decode())
