#!/usr/bin/env python3
"""validate MANIFEST.json and every evidence/*.json against the schemas in /root/.vp"""
import glob, json, sys
import jsonschema
ok = True
def v(path, schema):
    global ok
    try:
        jsonschema.validate(json.load(open(path)), json.load(open(schema)))
        print("valid  ", path)
    except Exception as e:
        ok = False
        print("INVALID", path, str(e)[:300])
v("/verif/MANIFEST.json", "/root/.vp/MANIFEST.schema.json")
for f in sorted(glob.glob("/verif/evidence/*.json")):
    v(f, "/root/.vp/EVIDENCE.schema.json")
sys.exit(0 if ok else 1)
